------------------------------- MODULE Purity -------------------------------
(***************************************************************************)
(* C12: extraction is a pure function of (document bytes, options).        *)
(*                                                                         *)
(* PROCESS STATE (lives as long as the Python process):                    *)
(*   base      the shared tables that must never change:                   *)
(*             base.enc  EncodingDB.encodings   (name -> code -> glyph)    *)
(*             base.cs   PREDEFINED_COLORSPACE  (name -> components)       *)
(*   cmapc     CMapDB._cmap_cache   name -> loaded CMap (filled on use)    *)
(*   umapc     CMapDB._umap_cache   ordering -> [horizontal, vertical]     *)
(*   interned  PSLiteralTable: names in interning order (identity = index) *)
(*   rmemo     what a process-wide memo "object number -> resolved value"  *)
(*             of resolve_all would hold for object 15 (0: nothing; the    *)
(*             design has no such memo - its bookkeeping lives for one     *)
(*             call; only ResolveMemoProcessWide writes it)                *)
(*   heap      abstract allocator state (read only by the two address      *)
(*             deviations)                                                 *)
(* PER CALL:   calls[s].fonts  PDFResourceManager._cached_fonts objid->font*)
(*             calls[s].d9     PDFDocument._cached_objs of the call's      *)
(*                             document: the entry of object 9, the        *)
(*                             descendant CIDFont dictionary that the two  *)
(*                             Type0 fonts of a document share (decipher   *)
(*                             passes applied, ToUnicode entry present)    *)
(*                                                                         *)
(* DOCUMENT POOL: every document has the same object numbers (font /F1 is  *)
(* object 5, /F2 object 6, /F3 object 18, both Type0 fonts have descendant *)
(* object 9 in all of them), the same resource names, the                  *)
(* same BaseFont names, the same base encoding (WinAnsi), the same         *)
(* CIDSystemInfo and the same page contents (character codes) - they       *)
(* differ only in what these shared things mean:                           *)
(*   dA  F1: the shared WinAnsi table itself     widths 500 600            *)
(*       F2: CMap H, DW 1000 + W, ToUnicode (T, U)     F3: as F2 without   *)
(*       ToUnicode                               /CS0 = 3 components       *)
(*   dB  F1: WinAnsi + Differences [2 /g1234 1 /Omega] (the first name has *)
(*       no Unicode value: the code is REMOVED)  widths 700 600            *)
(*       F2: CMap V (vertical)                   /CS0 = 1 component        *)
(*   dC  F1: WinAnsi + ToUnicode (2 -> Y, with `/H usecmap`) widths 500 800*)
(*       F2: CMap H, DW 400                      /CS0 not defined          *)
(*       encrypted (decipher_all runs on every parsed object)              *)
(* Page 2 of every document carries an inline image; page 1 of dB carries  *)
(* a grid of text boxes at pairwise equal distances and defines and paints *)
(* a form /Fm1; page 2 of dB has an EMPTY /Resources dictionary but still  *)
(* says /F1 Tf, /CS0 cs and /Fm1 Do (names only page 1 defines): it must   *)
(* get the default font, the default colour space and no form - whether it *)
(* is extracted after page 1 or alone.                                     *)
(* dA has TWO REVISIONS: revision 1 packs the Type0 fonts 6 (F2, page 1)    *)
(* and 18 (F3, page 2) into one object stream - there object 18 carries    *)
(* F2's ToUnicode; revision 2 redefines object 18 (no ToUnicode) as an     *)
(* ordinary object.  calls[s].oc is the document's object cache            *)
(* (PDFDocument._cached_objs) for these object numbers: which version of   *)
(* the object it holds.  The current object 18 is revision 2's, whatever   *)
(* was fetched before.                                                     *)
(* The two pages of dC SHARE every indirect object the interpreter walks:   *)
(* /Contents is one indirect array of two streams, /Resources one indirect *)
(* dictionary inherited from the /Pages node, its /Font dictionary is      *)
(* indirect, and both paint the same form /Fm1 - so both pages list F1 F2  *)
(* F3 and show the same codes.  calls[s].ca says whether the /Contents     *)
(* array in the document's object cache is still what the file says.       *)
(* dB's form /Fm1 is part of a CYCLE: /Fm1 paints /Fm2, /Fm2 paints /Fm1   *)
(* and itself.  A form being rendered is identified by its OBJECT NUMBER   *)
(* (forms_in_progress), so the cycle is cut after "Fm1 Fm2" - identically  *)
(* whether the form streams come from the object cache or are re-parsed.   *)
(* dA's /Font dictionaries MIX indirect and direct entries: page 1 lists    *)
(* /F1 5 0 R, then /F4 << a direct font dictionary >>, then /F2; page 2    *)
(* lists the direct /F4 first.  A direct font has no object number and is  *)
(* never cached (key 0 in the font map only).  /F4 differs from /F1 in its *)
(* widths.                                                                 *)
(* dC's /F1 is a Type 1 font WITHOUT /Encoding whose embedded font program *)
(* says "/Encoding StandardEncoding def" and then "dup 1 /Delta put": its  *)
(* table is a private copy of the shared StandardEncoding table with that  *)
(* entry changed (page 2 of dB, the default font, relies on the shared     *)
(* StandardEncoding table).                                                *)
(* PER PAGE (PDFPageInterpreter.fontmap / xobjmap / csmap = calls[s].fm /  *)
(* .xo / .cs): re-initialised by AInitResources for EVERY page.            *)
(*                                                                         *)
(* SCHEDULER ACTIONS (the public calls; this is what a history is made of):*)
(*   Extract(d,c,ps,k)  one atomic high-level call (extract_text,          *)
(*                      extract_text_to_fp, list(extract_pages))           *)
(*   Open(d,c,ps)       extract_pages(...) - creates the generator         *)
(*   Next(s)            next(generator): runs up to the next yield         *)
(*   Close(s)           generator exhausted / closed                       *)
(*   UseCMap(n)         a client defines its own CMap on top of a          *)
(*                      predefined one (CMap.use_cmap + add_code2cid)      *)
(* Python is single-threaded: generators of several documents interleave   *)
(* only at yields (page boundaries); `running` names the call being        *)
(* executed and the micro-steps below belong to it.                        *)
(*                                                                         *)
(* MICRO-STEPS (one per code step that touches shared or cached state):    *)
(*   ADocOpen  APageStart  AInitResources  AInitColorSpacesCopy            *)
(*   AFontCacheHit  AFontMiss  AObjCacheHit  AObjStmParse  AObjDirectParse *)
(*   AGetFontSpec  AGetObjParsed                                           *)
(*   ADecipherAllInPlace  ACopyDescendantSpec                              *)
(*   AGetEncodingShared  AGetEncodingCopyOnWrite  ADifferencesAssign       *)
(*   ADifferencesPop  AParseToUnicode                                      *)
(*   ACMapCacheFill  ACMapCacheHit  AUMapCacheFill  AUMapCacheHit          *)
(*   AResolveAllInPlace  ABuiltinEncoding  AFontCacheFill                  *)
(*   AExecuteContents  ARender                                             *)
(*   AUseCMapCopy  AAddCode2Cid                                            *)
(*                                                                         *)
(* DEVIATION SWITCHES (the dangerous alternatives; Dev = {} is the design):*)
(*   EncodingNoCopy    get_encoding applies Differences to the shared table*)
(*   EncodingLazyCopy  the copy is made only when a Differences entry      *)
(*                     ASSIGNS a new value; a removal (glyph name without  *)
(*                     Unicode value) that comes first hits the shared one *)
(*   ColorSpaceNoCopy  csmap is PREDEFINED_COLORSPACE itself, not a copy   *)
(*   ObjStmSiblingsCached  when an object stream is parsed ALL its members *)
(*                     are entered into the document's object cache: a     *)
(*                     member that a later revision redefines is then      *)
(*                     shadowed by its stale version                       *)
(*   BuiltinEncodingAssigned  the Type 1 header parser makes the shared    *)
(*                     StandardEncoding table ITS table (assignment instead*)
(*                     of update): the dup/put entries land in the shared  *)
(*                     table                                               *)
(*   DirectFontInheritsObjId  a direct font dictionary is looked up under  *)
(*                     the object number of the indirect entry before it   *)
(*   FormsInProgressByIdentity  a form being rendered is identified by the *)
(*                     identity of the stream object: with caching off     *)
(*                     every Do re-parses the form, the cycle is never cut *)
(*   ResolveMemoProcessWide  resolve_all keeps its memo object number ->   *)
(*                     value in a mutable default argument: object 15 of a *)
(*                     later document resolves to the value of the first   *)
(*   ContentsArrayConsumed  the content parser takes the streams OUT of the*)
(*                     /Contents array (pop) - the array is the cached     *)
(*                     object itself: later pages sharing it are empty     *)
(*   InitResourcesEarlyReturn  init_resources returns for an empty         *)
(*                     /Resources BEFORE it resets fontmap / xobjmap /     *)
(*                     csmap: the page keeps the maps of the page the same *)
(*                     interpreter rendered before                         *)
(*   UseCMapAlias      use_cmap aliases the cached table instead of copying*)
(*   UMapKeyCoarse     the unicode-map cache keeps one writing mode only   *)
(*   SharedManager     one PDFResourceManager (font cache keyed by objid)  *)
(*                     serves every call / document                        *)
(*   DecipherTwice     decipher_all is applied again to an object taken    *)
(*                     from the document's object cache                    *)
(*   DescendantNoCopy  get_font writes the Type0 font's Encoding/ToUnicode *)
(*                     into the (cached) descendant dictionary itself      *)
(*   InlineNameIsAddress  an inline image is named str(id(obj)): the name  *)
(*                     is a memory address, i.e. a function of the         *)
(*                     allocator state `heap`, not of the document         *)
(*   TieBreakByAddress text boxes at equal distance are grouped in the     *)
(*                     order of their memory addresses                     *)
(*                                                                         *)
(* PROPERTIES: Functional, CacheKeySound, CMapCacheSound, DecipheredOnce,  *)
(* CachedObjectsAsParsed (invariants); SharedTablesImmutable,              *)
(* CachesAppendOnly (action properties).  FunctionalModuloAddress is what  *)
(* remains of Functional while an address deviation is in force.           *)
(***************************************************************************)
EXTENDS Integers, Sequences, FiniteSets, TLC, Json

CONSTANTS Docs,        \* subset of {"dA", "dB", "dC"}
          Cachings,    \* subset of BOOLEAN: the caching flag of a call
          PageSets,    \* set of non-empty subsets of {1, 2}: page_numbers of a call
          Kinds,       \* atomic entry points, subset of {"text", "xml", "pages"}
          MaxCalls,    \* calls (Extract / Open / UseCMap) per behaviour
          MaxLive,     \* generators alive at the same time
          EarlyClose,  \* BOOLEAN: a generator may be closed before it is exhausted
          AutoClose,   \* BOOLEAN: the caller exhausts a generator right after its last page (no separate Close step)
          ClientCalls, \* BOOLEAN: UseCMap calls are part of histories
          Dev,         \* deviation switches in force
          History      \* BOOLEAN: record the schedule (for replay); FALSE for the deep exhaustive runs

Codes    == {1, 2}
FontObjs == {5, 6, 18}
FontKeys == FontObjs \cup {0}          \* keys of a page's font map: object numbers, 0 = the direct font dictionary /F4
Type0    == {6, 18}
EncNames == {"WinAnsi", "Standard"}
CMapNames == {"H", "V"}
CIDs     == {11, 12, 21}
CSNames  == {"DeviceGray", "DeviceRGB", "CS0"}

\* ------------------------------------------------------------------ pristine tables (what a fresh process holds / loads)
PristineEnc == [n \in EncNames |-> [c \in Codes |-> IF c = 1 THEN "A" ELSE "B"]]
PristineCS  == [n \in CSNames |-> IF n = "DeviceGray" THEN 1 ELSE IF n = "DeviceRGB" THEN 3 ELSE 0]   \* 0: no such name
PristineCMap(n) == [c \in Codes |-> IF c = 2 THEN 12 ELSE IF n = "H" THEN 11 ELSE 21]
Vertical(n) == n = "V"
PristineUMapH == [k \in CIDs |-> "J" \o ToString(k) \o "h"]
PristineUMapV == [k \in CIDs |-> "J" \o ToString(k) \o "v"]

\* ------------------------------------------------------------------ the document pool
\* /Differences in array order: <<code, glyph>>; the glyph "-" is a name without Unicode value (/g1234): it REMOVES the code
\* from the table.  dB's array starts with such a name, before any entry that assigns something.
DiffSeq(d)  == IF d = "dB" THEN << <<2, "-">>, <<1, "Omega">> >> ELSE <<>>
HasDiff(d)  == DiffSeq(d) # <<>>
\* a table entry "" means: the code is not in the table
RECURSIVE ApplyDiffs(_, _)
ApplyDiffs(t, q) == IF q = <<>> THEN t
                    ELSE ApplyDiffs([t EXCEPT ![Head(q)[1]] = IF Head(q)[2] = "-" THEN "" ELSE Head(q)[2]], Tail(q))
ToUni(d)    == [c \in Codes |-> IF d = "dC" /\ c = 2 THEN "Y" ELSE ""]
UseNamed(d) == IF d = "dC" THEN "H" ELSE ""                      \* `/H usecmap` inside the ToUnicode stream
Widths(d)   == [c \in Codes |-> IF d = "dA" THEN (IF c = 1 THEN 500 ELSE 600)
                               ELSE IF d = "dB" THEN (IF c = 1 THEN 700 ELSE 600) ELSE (IF c = 1 THEN 550 ELSE 800)]
CMapOf(d)   == IF d = "dB" THEN "V" ELSE "H"
CIDWidths(d) == [c \in Codes |-> IF d = "dA" THEN (IF c = 1 THEN 500 ELSE 1000)
                                ELSE IF d = "dB" THEN (IF c = 1 THEN 0 - 500 ELSE 0 - 1000) ELSE (IF c = 1 THEN 550 ELSE 400)]
\* in dA and dC the /W array of the CID font gives the width of code 1 as an INDIRECT element, object 15 - the same object
\* number in both documents, with different values (it is also the first /Widths element of /F1): 500 in dA, 550 in dC
IndirectW(d) == d \in {"dA", "dC"}
W15(d) == Widths(d)[1]
CSOf(d)     == IF d = "dA" THEN 3 ELSE IF d = "dB" THEN 1 ELSE 0   \* components of /CS0; 0: the document does not define it
Encrypted(d) == d = "dC"
NamesOf(d)  == <<"F1", "F2", "VerifSans", "WinAnsiEncoding", CMapOf(d)>>
                 \o (IF d = "dB" THEN <<"Differences", "g1234", "Omega">> ELSE <<>>) \o (IF d = "dC" THEN <<"ToUnicode", "Encrypt", "FontFile", "Delta">> ELSE <<>>)
                 \o (IF CSOf(d) # 0 THEN <<"CS0", "ICCBased">> ELSE <<>>)
\* dA: two revisions; revision 1's object stream holds objects 6 and 18, revision 2 redefines 18 directly
StmMembers == {6, 18}
HasObjStm(d) == d = "dA"
InNewestStm(d, o) == HasObjStm(d) /\ o = 6         \* the newest definition of o is a member of the object stream
\* ToUnicode of the Type0 font object o (dA: F2 only - F3 shares the descendant but has none; the STALE object 18 of
\* revision 1 has F2's)
ToUni0(d, o) == [c \in Codes |-> IF d = "dA" /\ o = 6 THEN (IF c = 1 THEN "T" ELSE "U") ELSE ""]
\* page 1 lists F1 F2 and shows codes 1 2 with each; page 2 lists F1 F3 and shows 2 1 with F1, 1 2 with F3
\* ... except page 2 of dB: its /Resources dictionary is empty, it shows 2 1 with the NAME /F1 only
HasResources(d, p) == ~(d = "dB" /\ p = 2)
HasDirect(d) == d = "dA"         \* the /Font dictionaries of dA carry the direct entry /F4 (key 0)
DirectAfter(d, p) == IF d = "dA" /\ p = 1 THEN 5 ELSE 0    \* object number of the indirect entry listed just before /F4 (0: none)
Widths4(d) == [c \in Codes |-> IF c = 1 THEN 900 ELSE 300]
HasBuiltin(d) == d = "dC"        \* /F1 has no /Encoding; its font program: StandardEncoding def, dup 1 /Delta put
Builtin(t) == [t EXCEPT ![1] = "Delta"]
SharedPages(d) == d = "dC"     \* both pages refer to the same /Contents array, /Resources, /Font dictionary and form
Shows(d, p) == IF SharedPages(d) THEN << <<5, 1>>, <<5, 2>>, <<6, 1>>, <<6, 2>>, <<18, 1>>, <<18, 2>> >>
               ELSE IF HasDirect(d) THEN (IF p = 1 THEN << <<5, 1>>, <<5, 2>>, <<6, 1>>, <<6, 2>>, <<0, 1>>, <<0, 2>> >>
                                          ELSE << <<5, 2>>, <<5, 1>>, <<18, 1>>, <<18, 2>>, <<0, 1>>, <<0, 2>> >>)
               ELSE IF p = 1 THEN << <<5, 1>>, <<5, 2>>, <<6, 1>>, <<6, 2>> >>
               ELSE IF HasResources(d, p) THEN << <<5, 2>>, <<5, 1>>, <<18, 1>>, <<18, 2>> >> ELSE << <<5, 2>>, <<5, 1>> >>
FontSeq(d, p) == IF SharedPages(d) THEN <<5, 6, 18>>
                 ELSE IF HasDirect(d) THEN (IF p = 1 THEN <<5, 0, 6>> ELSE <<0, 5, 18>>)
                 ELSE IF p = 1 THEN <<5, 6>> ELSE IF HasResources(d, p) THEN <<5, 18>> ELSE <<>>
DefinesForm(d, p) == (d = "dB" /\ p = 1) \/ SharedPages(d)   \* /XObject << /Fm1 .. >> in the page's resources
UsesForm(d, p)    == d = "dB" \/ SharedPages(d)              \* /Fm1 Do in the page's content
FormCycle(d) == d = "dB"                                    \* /Fm1 -> /Fm2 -> /Fm1, /Fm2 -> /Fm2
FormTrace(d) == IF FormCycle(d) THEN "Fm1 Fm2" ELSE "Fm1"    \* the forms painted, each once: a form in progress is not entered again
HasInline(d, p) == p = 2 \/ SharedPages(d)                   \* an inline image (BI .. ID .. EI)
HasTie(d, p)    == d = "dB" /\ p = 1      \* text boxes at pairwise equal distances: the grouping order needs a tie-break

\* ------------------------------------------------------------------ reference semantics: what a fresh process returns
UText(tab, cid) == IF cid \in CIDs THEN tab[cid] ELSE "cid?"
RefGlyph(d, o, c) ==
  IF o = 0 THEN [text |-> PristineEnc["WinAnsi"][c], w |-> Widths4(d)[c]]
  ELSE IF o = 5
  THEN [text |-> IF ToUni(d)[c] # "" THEN ToUni(d)[c]
                 ELSE LET t == IF HasBuiltin(d) THEN Builtin(PristineEnc["Standard"])
                               ELSE ApplyDiffs(PristineEnc["WinAnsi"], DiffSeq(d)) IN IF t[c] = "" THEN "cid?" ELSE t[c],
        w |-> Widths(d)[c]]
  ELSE LET cid == PristineCMap(CMapOf(d))[c] IN
       [text |-> IF ToUni0(d, o)[c] # "" THEN ToUni0(d, o)[c]
                 ELSE UText(IF Vertical(CMapOf(d)) THEN PristineUMapV ELSE PristineUMapH, cid),
        w |-> CIDWidths(d)[c]]
\* Fresh does not mention the options: that the caching flag and the page subset are irrelevant is part of the property
\* a page without resources: every font name is undefined - the default font (StandardEncoding, no widths), the default
\* colour space, no XObject
RefShow(d, p, k) == LET sh == Shows(d, p)[k] IN
                    IF HasResources(d, p) THEN RefGlyph(d, sh[1], sh[2]) ELSE [text |-> PristineEnc["Standard"][sh[2]], w |-> 0]
Fresh(d, p) == [txt |-> [k \in 1..Len(Shows(d, p)) |-> RefShow(d, p, k).text],
                w   |-> [k \in 1..Len(Shows(d, p)) |-> RefShow(d, p, k).w],
                n   |-> IF CSOf(d) = 0 \/ ~HasResources(d, p) THEN 1 ELSE CSOf(d),
                frm |-> IF UsesForm(d, p) /\ DefinesForm(d, p) THEN FormTrace(d) ELSE "",
                img |-> IF HasInline(d, p) THEN "inline0" ELSE "",           \* name of the inline image: its number on the page
                grp |-> IF HasTie(d, p) THEN "creation-order" ELSE ""]       \* ties are broken by the order the boxes were made in
NoRes == [txt |-> <<>>, w |-> <<>>, n |-> 0, frm |-> "", img |-> "", grp |-> ""]
\* ghost: the page result produced by the step just taken (valid only in the state right after ARender - every other
\* step clears it, so that it does not multiply the state space)
NoLast == [valid |-> FALSE, doc |-> "", page |-> 0, res |-> NoRes]

\* ------------------------------------------------------------------ state
VARIABLES base, cmapc, umapc, interned, heap, rmemo, shared, calls, running, ncalls, client, last, sched
vars == <<base, cmapc, umapc, interned, heap, rmemo, shared, calls, running, ncalls, client, last, sched>>

EmptyTab == [c \in Codes |-> 0]
EmptyStr == [c \in Codes |-> ""]
\* a font object.  encShared: cid2unicode IS the shared table base.enc[encName] (no Differences);  cmap: name of the
\* cached CMap object the font holds a reference to;  src: ghost - the document whose object it was built from
NoFont == [kind |-> "", src |-> "", encShared |-> FALSE, encName |-> "", encOwn |-> EmptyStr, touni |-> EmptyStr,
           w |-> EmptyTab, cmap |-> "", vert |-> FALSE, garbled |-> FALSE, ver |-> ""]
NoFonts == [o \in FontKeys |-> NoFont]
\* d9: the cached descendant dictionary - dec = decipher passes applied to it (0: not cached), tu = the ToUnicode entry
\* it carries (none in the file)
NoD9 == [dec |-> 0, tu |-> EmptyStr]
Free == [st |-> "free", doc |-> "", caching |-> FALSE, pages |-> {}, kind |-> "", atomic |-> FALSE,
         fonts |-> NoFonts, d9 |-> NoD9, done |-> {}, cur |-> 0, pc |-> "", todo |-> <<>>,
         fm |-> NoFonts, bld |-> NoFont, dec |-> 0, dk |-> 0, csShared |-> FALSE, cs |-> PristineCS, xo |-> FALSE,
         ca |-> TRUE,      \* the /Contents array held in the document's object cache is as parsed (all its streams are there)
         ex |-> TRUE,      \* the content streams of the current page were found and executed
         ovf |-> FALSE,    \* rendering the page did not end: the form cycle was never cut (RecursionError)
         oc |-> [o \in StmMembers |-> ""]]      \* _cached_objs for the object-stream members: "" | "new" | "old" (stale)

Init == /\ base = [enc |-> PristineEnc, cs |-> PristineCS]
        /\ cmapc = [n \in CMapNames |-> [loaded |-> FALSE, tab |-> EmptyTab]]
        /\ umapc = [loaded |-> FALSE, first |-> "", h |-> [k \in CIDs |-> ""], v |-> [k \in CIDs |-> ""]]
        /\ interned = <<"Type", "Font", "Page", "Pages", "Catalog">>       \* module-level LIT(...) constants
        /\ rmemo = 0
        /\ heap = 0                  \* abstract allocator state: where the next objects will live
        /\ shared = NoFonts
        /\ calls = [s \in 1..MaxLive |-> Free]
        /\ running = 0 /\ ncalls = 0
        /\ client = [st |-> "none", alias |-> FALSE, name |-> "", own |-> EmptyTab]
        /\ last = NoLast
        /\ sched = <<>>

\* one uniform record type for the recorded schedule
Ev(a, s, d, c, ps, k, p, r) == [a |-> a, s |-> s, d |-> d, c |-> c, ps |-> ps, k |-> k, p |-> p, txt |-> r.txt, w |-> r.w, n |-> r.n,
                                frm |-> r.frm, img |-> r.img, grp |-> r.grp]
Log(e) == sched' = IF History THEN Append(sched, e) ELSE sched

Min(S) == CHOOSE x \in S : \A y \in S : x <= y
FreeSlots == {s \in 1..MaxLive : calls[s].st = "free"}
Remaining(s) == calls[s].pages \ calls[s].done
Me == calls[running]
SetMe(r) == calls' = [calls EXCEPT ![running] = r]
Micro(pc) == running \in 1..MaxLive /\ Me.pc = pc

\* the font cache a call sees: its own manager's, or the single shared manager's
Cache(s) == IF "SharedManager" \in Dev THEN shared ELSE calls[s].fonts

\* ------------------------------------------------------------------ scheduler: the public calls
Open(d, c, ps) ==
  /\ running = 0 /\ ncalls < MaxCalls /\ FreeSlots # {}
  /\ LET s == Min(FreeSlots) IN
       /\ calls' = [calls EXCEPT ![s] = [Free EXCEPT !.st = "new", !.doc = d, !.caching = c, !.pages = ps, !.kind = "iter"]]
       /\ Log(Ev("open", s, d, c, ps, "iter", 0, NoRes))
  /\ ncalls' = ncalls + 1
  /\ last' = NoLast /\ UNCHANGED <<base, cmapc, umapc, interned, heap, rmemo, shared, running, client>>

Extract(d, c, ps, k) ==
  /\ running = 0 /\ ncalls < MaxCalls /\ FreeSlots # {}
  /\ LET s == Min(FreeSlots) IN
       /\ calls' = [calls EXCEPT ![s] = [Free EXCEPT !.st = "run", !.doc = d, !.caching = c, !.pages = ps, !.kind = k,
                                                    !.atomic = TRUE, !.pc = "open"]]
       /\ running' = s
       /\ Log(Ev("extract", s, d, c, ps, k, 0, NoRes))
  /\ ncalls' = ncalls + 1
  /\ last' = NoLast /\ UNCHANGED <<base, cmapc, umapc, interned, heap, rmemo, shared, client>>

Next(s) ==
  /\ running = 0 /\ calls[s].st \in {"new", "idle"} /\ Remaining(s) # {}
  /\ calls' = [calls EXCEPT ![s].st = "run", ![s].pc = IF calls[s].st = "new" THEN "open" ELSE "page"]
  /\ running' = s
  /\ Log(Ev("next", s, calls[s].doc, calls[s].caching, calls[s].pages, "iter", 0, NoRes))
  /\ last' = NoLast /\ UNCHANGED <<base, cmapc, umapc, interned, heap, rmemo, shared, ncalls, client>>

Close(s) ==
  /\ running = 0 /\ calls[s].st \in {"new", "idle"} /\ (EarlyClose \/ Remaining(s) = {})
  /\ calls' = [calls EXCEPT ![s] = Free]
  /\ Log(Ev("close", s, calls[s].doc, calls[s].caching, calls[s].pages, "iter", 0, NoRes))
  /\ last' = NoLast /\ UNCHANGED <<base, cmapc, umapc, interned, heap, rmemo, shared, running, ncalls, client>>

UseCMap(n) ==
  /\ ClientCalls /\ running = 0 /\ ncalls < MaxCalls /\ client.st = "none"
  /\ running' = 0 - 1
  /\ client' = [client EXCEPT !.st = "start", !.name = n]
  /\ ncalls' = ncalls + 1
  /\ Log(Ev("usecmap", 0, n, FALSE, {}, "client", 0, NoRes))
  /\ last' = NoLast /\ UNCHANGED <<base, cmapc, umapc, interned, heap, rmemo, shared, calls>>

\* ------------------------------------------------------------------ micro-steps of the running call
RECURSIVE InternAll(_, _)
InternAll(tab, ns) == IF ns = <<>> THEN tab
                      ELSE InternAll(IF \E i \in 1..Len(tab) : tab[i] = Head(ns) THEN tab ELSE Append(tab, Head(ns)), Tail(ns))

\* PDFDocument.__init__: read the cross-reference data and the catalog; every name met is interned
\* (every call allocates and frees objects: the allocator state moves on - tracked only while something reads it)
AddressDevs == {"InlineNameIsAddress", "TieBreakByAddress"}
ADocOpen ==
  /\ Micro("open")
  /\ interned' = InternAll(interned, NamesOf(Me.doc))
  /\ heap' = IF Dev \cap AddressDevs = {} THEN heap ELSE 1 - heap
  /\ SetMe([Me EXCEPT !.pc = "page"])
  /\ last' = NoLast /\ UNCHANGED <<base, cmapc, umapc, rmemo, shared, running, ncalls, client, sched>>

\* PDFPage.get_pages yields the next selected page; process_page -> render_contents -> init_resources
APageStart ==
  /\ Micro("page")
  /\ SetMe([Me EXCEPT !.cur = Min(Remaining(running)), !.pc = "res"])
  /\ last' = NoLast /\ UNCHANGED <<base, cmapc, umapc, interned, heap, rmemo, shared, running, ncalls, client, sched>>

\* init_resources(resources): fontmap, xobjmap and csmap are made anew for EVERY page - also for a page whose /Resources is
\* empty (for which nothing else is prepared).  Dangerous alternative: return for empty resources before the reset.
AInitResources ==
  /\ Micro("res")
  /\ LET has == HasResources(Me.doc, Me.cur)
         fresh == [Me EXCEPT !.fm = NoFonts, !.xo = FALSE, !.csShared = ("ColorSpaceNoCopy" \in Dev), !.cs = base.cs] IN
     IF has THEN SetMe([fresh EXCEPT !.pc = "cs"])
     ELSE IF "InitResourcesEarlyReturn" \in Dev THEN SetMe([Me EXCEPT !.pc = "font", !.todo = <<>>])
     ELSE SetMe([fresh EXCEPT !.pc = "font", !.todo = <<>>])
  /\ last' = NoLast /\ UNCHANGED <<base, cmapc, umapc, interned, heap, rmemo, shared, running, ncalls, client, sched>>

\* init_resources: self.csmap = PREDEFINED_COLORSPACE.copy(), then the document's own colour spaces are added (and the
\* page's XObjects entered into xobjmap)
AInitColorSpacesCopy ==
  /\ Micro("cs")
  /\ LET d == Me.doc
         add(t) == IF CSOf(d) = 0 THEN t ELSE [t EXCEPT !["CS0"] = CSOf(d)] IN
     IF "ColorSpaceNoCopy" \in Dev
     THEN /\ base' = [base EXCEPT !.cs = add(base.cs)]
          /\ SetMe([Me EXCEPT !.csShared = TRUE, !.pc = "font", !.todo = FontSeq(Me.doc, Me.cur), !.xo = DefinesForm(Me.doc, Me.cur)])
     ELSE /\ base' = base
          /\ SetMe([Me EXCEPT !.csShared = FALSE, !.cs = add(base.cs), !.pc = "font", !.todo = FontSeq(Me.doc, Me.cur),
                              !.xo = DefinesForm(Me.doc, Me.cur)])
  /\ last' = NoLast /\ UNCHANGED <<cmapc, umapc, interned, heap, rmemo, shared, running, ncalls, client, sched>>

\* PDFResourceManager.get_font(objid, spec): objid in _cached_fonts
\* the key a font-dictionary entry is looked up under: its object number; a direct dictionary has none (objid = None is
\* set anew for EVERY entry).  Dangerous alternative: the object number of the entry before it is still in the variable
LookupKey(o) == IF o # 0 THEN o
                ELSE IF "DirectFontInheritsObjId" \in Dev THEN DirectAfter(Me.doc, Me.cur) ELSE 0
AFontCacheHit ==
  /\ Micro("font") /\ Me.todo # <<>>
  /\ LET o == Head(Me.todo)  k == LookupKey(o) IN
       /\ k # 0 /\ Cache(running)[k].kind # ""
       /\ SetMe([Me EXCEPT !.fm[o] = Cache(running)[k], !.todo = Tail(Me.todo)])
  /\ last' = NoLast /\ UNCHANGED <<base, cmapc, umapc, interned, heap, rmemo, shared, running, ncalls, client, sched>>
AFontMiss ==
  /\ Micro("font") /\ Me.todo # <<>>
  /\ LookupKey(Head(Me.todo)) = 0 \/ Cache(running)[LookupKey(Head(Me.todo))].kind = ""
  /\ SetMe([Me EXCEPT !.pc = IF Head(Me.todo) = 0 THEN "enc"            \* a direct dictionary: nothing to fetch
                             ELSE IF HasObjStm(Me.doc) /\ Head(Me.todo) \in StmMembers THEN "obj" ELSE "spec",
                      !.bld = [NoFont EXCEPT !.src = Me.doc, !.kind = IF Head(Me.todo) \in {0, 5} THEN "simple" ELSE "cid"]])
  /\ last' = NoLast /\ UNCHANGED <<base, cmapc, umapc, interned, heap, rmemo, shared, running, ncalls, client, sched>>

\* PDFDocument.getobj(objid) in the two-revision document.  objid in _cached_objs: the cached object is returned
AObjCacheHit ==
  /\ Micro("obj") /\ Me.oc[Head(Me.todo)] # ""
  /\ SetMe([Me EXCEPT !.bld.ver = Me.oc[Head(Me.todo)], !.pc = "spec"])
  /\ last' = NoLast /\ UNCHANGED <<base, cmapc, umapc, interned, heap, rmemo, shared, running, ncalls, client, sched>>
\* the newest cross-reference section that lists objid says "member of the object stream": _getobj_objstm parses the stream
\* (all members at once) and returns the requested member; ONLY that member enters _cached_objs.  Dangerous alternative:
\* every member is entered (setdefault) - including object 18, whose current definition is revision 2's
AObjStmParse ==
  /\ Micro("obj") /\ Me.oc[Head(Me.todo)] = "" /\ InNewestStm(Me.doc, Head(Me.todo))
  /\ LET o == Head(Me.todo)
         sib(m) == IF "ObjStmSiblingsCached" \in Dev /\ Me.oc[m] = "" THEN (IF InNewestStm(Me.doc, m) THEN "new" ELSE "old") ELSE Me.oc[m] IN
     SetMe([Me EXCEPT !.bld.ver = "new", !.pc = "spec",
                      !.oc = IF Me.caching THEN [m \in StmMembers |-> IF m = o THEN "new" ELSE sib(m)] ELSE @])
  /\ last' = NoLast /\ UNCHANGED <<base, cmapc, umapc, interned, heap, rmemo, shared, running, ncalls, client, sched>>
\* the newest section that lists objid gives a file offset: the object is parsed there
AObjDirectParse ==
  /\ Micro("obj") /\ Me.oc[Head(Me.todo)] = "" /\ ~InNewestStm(Me.doc, Head(Me.todo))
  /\ SetMe([Me EXCEPT !.bld.ver = "new", !.pc = "spec", !.oc[Head(Me.todo)] = IF Me.caching THEN "new" ELSE @])
  /\ last' = NoLast /\ UNCHANGED <<base, cmapc, umapc, interned, heap, rmemo, shared, running, ncalls, client, sched>>

\* dict_value(spec): getobj of the font dictionary; for a Type0 font also dict_value(DescendantFonts[0]): object 9, taken
\* from PDFDocument._cached_objs when an earlier font of this call already fetched it with caching on.  In an encrypted
\* document a freshly parsed object goes through decipher_all (the CIDSystemInfo strings of object 9 are encrypted)
AGetFontSpec ==
  /\ Micro("spec")
  /\ LET o == Head(Me.todo)
         hit == o \in Type0 /\ Me.d9.dec > 0 IN
     SetMe([Me EXCEPT !.dec = IF hit THEN Me.d9.dec ELSE 0,
                      !.pc = IF o = 5 THEN "enc"
                             ELSE IF Encrypted(Me.doc) /\ (~hit \/ "DecipherTwice" \in Dev) THEN "decipher"
                             ELSE IF hit THEN "copy" ELSE "parsed"])
  /\ last' = NoLast /\ UNCHANGED <<base, cmapc, umapc, interned, heap, rmemo, shared, running, ncalls, client, sched>>
\* an unencrypted object 9 has been parsed: it enters the document's cache as it is
AGetObjParsed ==
  /\ Micro("parsed")
  /\ SetMe([Me EXCEPT !.dec = 1, !.d9 = IF Me.caching THEN [dec |-> 1, tu |-> EmptyStr] ELSE NoD9, !.pc = "copy"])
  /\ last' = NoLast /\ UNCHANGED <<base, cmapc, umapc, interned, heap, rmemo, shared, running, ncalls, client, sched>>
\* decipher_all(decipher, objid, genno, obj): in place, on the object just parsed; the result is what gets cached
ADecipherAllInPlace ==
  /\ Micro("decipher")
  /\ LET n == Me.dec + 1 IN
     SetMe([Me EXCEPT !.dec = n, !.d9 = IF Me.caching THEN [Me.d9 EXCEPT !.dec = n] ELSE NoD9,
                      !.bld.garbled = (n # 1), !.pc = "copy"])
  /\ last' = NoLast /\ UNCHANGED <<base, cmapc, umapc, interned, heap, rmemo, shared, running, ncalls, client, sched>>
\* get_font, Type0: subspec = dict_value(dfonts[0]).copy(); subspec[k] = resolve1(spec[k]) for Encoding, ToUnicode -
\* the Type0 font's own entries go into a COPY of the descendant dictionary
ACopyDescendantSpec ==
  /\ Micro("copy")
  /\ LET o == Head(Me.todo)
         own == ToUni0(Me.doc, IF Me.bld.ver = "old" THEN 6 ELSE o)     \* the stale object 18 is a copy of object 6
         hasOwn == \E c \in Codes : own[c] # "" IN
     IF "DescendantNoCopy" \in Dev
     THEN SetMe([Me EXCEPT !.bld.touni = IF hasOwn THEN own ELSE Me.d9.tu,
                           !.d9.tu = IF hasOwn /\ Me.d9.dec > 0 THEN own ELSE @, !.pc = "cmap"])
     ELSE SetMe([Me EXCEPT !.bld.touni = own, !.pc = "cmap"])
  /\ last' = NoLast /\ UNCHANGED <<base, cmapc, umapc, interned, heap, rmemo, shared, running, ncalls, client, sched>>

\* EncodingDB.get_encoding(name, diff): without Differences the shared table itself is returned ...
\* (the direct font /F4 names /WinAnsiEncoding; a font without /Encoding - dC's /F1 - gets the StandardEncoding table)
AGetEncodingShared ==
  /\ Micro("enc") /\ (~HasDiff(Me.doc) \/ Head(Me.todo) = 0)
  /\ SetMe([Me EXCEPT !.bld.encShared = TRUE,
                      !.bld.encName = IF HasBuiltin(Me.doc) /\ Head(Me.todo) = 5 THEN "Standard" ELSE "WinAnsi",
                      !.pc = IF Head(Me.todo) = 0 THEN "widths" ELSE "touni"])
  /\ last' = NoLast /\ UNCHANGED <<base, cmapc, umapc, interned, heap, rmemo, shared, running, ncalls, client, sched>>
\* ... with Differences a copy is made FIRST, whatever the array holds; the entries are then applied one by one
AGetEncodingCopyOnWrite ==
  /\ Micro("enc") /\ HasDiff(Me.doc) /\ Head(Me.todo) # 0
  /\ IF Dev \cap {"EncodingNoCopy", "EncodingLazyCopy"} # {}
     THEN SetMe([Me EXCEPT !.bld.encShared = TRUE, !.bld.encName = "WinAnsi", !.pc = "diff", !.dk = 1])
     ELSE SetMe([Me EXCEPT !.bld.encShared = FALSE, !.bld.encName = "WinAnsi", !.bld.encOwn = base.enc["WinAnsi"],
                           !.pc = "diff", !.dk = 1])
  /\ last' = NoLast /\ UNCHANGED <<base, cmapc, umapc, interned, heap, rmemo, shared, running, ncalls, client, sched>>
DiffEntry == DiffSeq(Me.doc)[Me.dk]
DiffNext  == IF Me.dk = Len(DiffSeq(Me.doc)) THEN "touni" ELSE "diff"
\* cid2unicode[cid] = name2unicode(name): the name has a Unicode value - ASSIGN
ADifferencesAssign ==
  /\ Micro("diff") /\ DiffEntry[2] # "-"
  /\ LET c == DiffEntry[1]  v == DiffEntry[2] IN
     IF Me.bld.encShared /\ "EncodingLazyCopy" \in Dev
     THEN \* the lazy copy happens now, at the first entry that changes something
          /\ base' = base
          /\ SetMe([Me EXCEPT !.bld.encShared = FALSE, !.bld.encOwn = [base.enc["WinAnsi"] EXCEPT ![c] = v],
                              !.dk = @ + 1, !.pc = DiffNext])
     ELSE IF Me.bld.encShared
     THEN /\ base' = [base EXCEPT !.enc["WinAnsi"][c] = v]
          /\ SetMe([Me EXCEPT !.dk = @ + 1, !.pc = DiffNext])
     ELSE /\ base' = base
          /\ SetMe([Me EXCEPT !.bld.encOwn[c] = v, !.dk = @ + 1, !.pc = DiffNext])
  /\ last' = NoLast /\ UNCHANGED <<cmapc, umapc, interned, heap, rmemo, shared, running, ncalls, client, sched>>
\* except KeyError: cid2unicode.pop(cid, None): the name has no Unicode value - the code is REMOVED from the table the
\* font is going to use (the copy; under a deviation that has not copied yet: the process-wide table)
ADifferencesPop ==
  /\ Micro("diff") /\ DiffEntry[2] = "-"
  /\ LET c == DiffEntry[1] IN
     IF Me.bld.encShared
     THEN /\ base' = [base EXCEPT !.enc["WinAnsi"][c] = ""]
          /\ SetMe([Me EXCEPT !.dk = @ + 1, !.pc = DiffNext])
     ELSE /\ base' = base
          /\ SetMe([Me EXCEPT !.bld.encOwn[c] = "", !.dk = @ + 1, !.pc = DiffNext])
  /\ last' = NoLast /\ UNCHANGED <<cmapc, umapc, interned, heap, rmemo, shared, running, ncalls, client, sched>>

LoadCMap(n) == [cmapc EXCEPT ![n] = [loaded |-> TRUE, tab |-> PristineCMap(n)]]
\* CMapParser on the ToUnicode stream into a fresh FileUnicodeMap; `usecmap` calls CMapDB.get_cmap(name), which fills the
\* process-wide cache as a side effect (FileUnicodeMap.use_cmap itself ignores the used CMap)
AParseToUnicode ==
  /\ Micro("touni")
  /\ LET n == UseNamed(Me.doc) IN
     cmapc' = IF n # "" /\ ~cmapc[n].loaded THEN LoadCMap(n) ELSE cmapc
  /\ SetMe([Me EXCEPT !.bld.touni = ToUni(Me.doc), !.pc = "widths"])
  /\ last' = NoLast /\ UNCHANGED <<base, umapc, interned, heap, rmemo, shared, running, ncalls, client, sched>>

\* CMapDB.get_cmap(name): the font keeps a reference to the cached object.  A font with a ToUnicode stream uses that and
\* never asks for the ordering's unicode map
AfterCMap == IF \E c \in Codes : Me.bld.touni[c] # "" THEN "widths" ELSE "umap"
ACMapCacheFill ==
  /\ Micro("cmap") /\ ~cmapc[CMapOf(Me.doc)].loaded
  /\ cmapc' = LoadCMap(CMapOf(Me.doc))
  /\ SetMe([Me EXCEPT !.bld.cmap = CMapOf(Me.doc), !.bld.vert = Vertical(CMapOf(Me.doc)), !.pc = AfterCMap])
  /\ last' = NoLast /\ UNCHANGED <<base, umapc, interned, heap, rmemo, shared, running, ncalls, client, sched>>
ACMapCacheHit ==
  /\ Micro("cmap") /\ cmapc[CMapOf(Me.doc)].loaded
  /\ SetMe([Me EXCEPT !.bld.cmap = CMapOf(Me.doc), !.bld.vert = Vertical(CMapOf(Me.doc)), !.pc = AfterCMap])
  /\ last' = NoLast /\ UNCHANGED <<base, cmapc, umapc, interned, heap, rmemo, shared, running, ncalls, client, sched>>
\* CMapDB.get_unicode_map(ordering, vertical): the cache entry holds both writing modes
AUMapCacheFill ==
  /\ Micro("umap") /\ ~umapc.loaded
  /\ umapc' = [loaded |-> TRUE, first |-> IF Me.bld.vert THEN "v" ELSE "h", h |-> PristineUMapH, v |-> PristineUMapV]
  /\ SetMe([Me EXCEPT !.pc = "widths"])
  /\ last' = NoLast /\ UNCHANGED <<base, cmapc, interned, heap, rmemo, shared, running, ncalls, client, sched>>
AUMapCacheHit ==
  /\ Micro("umap") /\ umapc.loaded
  /\ SetMe([Me EXCEPT !.pc = "widths"])
  /\ last' = NoLast /\ UNCHANGED <<base, cmapc, umapc, interned, heap, rmemo, shared, running, ncalls, client, sched>>

\* PDFFont.__init__: self.widths = resolve_all(widths) - in place, on the dictionary the font constructor just built
AResolveAllInPlace ==
  /\ Micro("widths")
  /\ LET viaRef == Head(Me.todo) \in Type0 /\ IndirectW(Me.doc)    \* the widths dictionary holds the reference 15 0 R
         shared15 == "ResolveMemoProcessWide" \in Dev
         \* resolve_all looks the object number up in its memo first - a memo made for THIS call.  Dangerous alternative: the
         \* memo is a mutable default argument: one dictionary for the whole process
         v15 == IF shared15 /\ rmemo # 0 THEN rmemo ELSE W15(Me.doc) IN
       /\ rmemo' = IF viaRef /\ shared15 /\ rmemo = 0 THEN W15(Me.doc) ELSE rmemo
       /\ SetMe([Me EXCEPT !.bld.w = IF Head(Me.todo) = 5 THEN Widths(Me.doc) ELSE IF Head(Me.todo) = 0 THEN Widths4(Me.doc)
                                       ELSE IF viaRef THEN [CIDWidths(Me.doc) EXCEPT ![1] = v15] ELSE CIDWidths(Me.doc),
                           !.pc = IF HasBuiltin(Me.doc) /\ Head(Me.todo) = 5 THEN "builtin" ELSE "fill"])
  /\ last' = NoLast /\ UNCHANGED <<base, cmapc, umapc, interned, heap, shared, running, ncalls, client, sched>>

\* PDFType1Font: no /Encoding in the font dictionary and a /FontFile: Type1FontHeaderParser reads the clear-text header.
\* "/Encoding StandardEncoding def": its private table is UPDATED from the shared StandardEncoding table; the dup/put
\* entries that follow are written into the private table, which becomes the font's cid2unicode
ABuiltinEncoding ==
  /\ Micro("builtin")
  /\ IF "BuiltinEncodingAssigned" \in Dev
     THEN /\ base' = [base EXCEPT !.enc["Standard"] = Builtin(@)]
          /\ SetMe([Me EXCEPT !.bld.encShared = TRUE, !.bld.encName = "Standard", !.pc = "fill"])
     ELSE /\ base' = base
          /\ SetMe([Me EXCEPT !.bld.encShared = FALSE, !.bld.encOwn = Builtin(base.enc["Standard"]), !.pc = "fill"])
  /\ last' = NoLast /\ UNCHANGED <<cmapc, umapc, interned, heap, rmemo, shared, running, ncalls, client, sched>>

\* get_font: if objid and self.caching: self._cached_fonts[objid] = font
AFontCacheFill ==
  /\ Micro("fill")
  /\ LET o == Head(Me.todo)  f == Me.bld IN
       /\ shared' = IF o # 0 /\ Me.caching /\ "SharedManager" \in Dev THEN [shared EXCEPT ![o] = f] ELSE shared
       /\ SetMe([Me EXCEPT !.fm[o] = f, !.fonts[o] = IF o # 0 /\ Me.caching /\ "SharedManager" \notin Dev THEN f ELSE @,
                           !.todo = Tail(Me.todo), !.bld = NoFont, !.dec = 0, !.pc = "font"])
  /\ last' = NoLast /\ UNCHANGED <<base, cmapc, umapc, interned, heap, rmemo, running, ncalls, client, sched>>

\* what a font shows for a code NOW (fonts hold references into the shared tables, so this reads the current process state)
GlyphText(f, c) ==
  IF f.kind = ""          \* the name is not in the font map: get_font(None, {}) - the default font over StandardEncoding
  THEN LET v == base.enc["Standard"][c] IN IF v = "" THEN "cid?" ELSE v
  ELSE IF f.kind = "simple"
  THEN IF f.touni[c] # "" THEN f.touni[c]
       ELSE LET v == IF f.encShared THEN base.enc[f.encName][c] ELSE f.encOwn[c] IN IF v = "" THEN "cid?" ELSE v
  ELSE IF f.touni[c] # "" THEN f.touni[c]
  ELSE IF f.garbled THEN "cid?"
  ELSE LET cid == cmapc[f.cmap].tab[c]
           vert == IF "UMapKeyCoarse" \in Dev THEN umapc.first = "v" ELSE f.vert IN
       UText(IF vert THEN umapc.v ELSE umapc.h, cid)
PageResult(s) ==
  LET p == calls[s].cur  sh == Shows(calls[s].doc, p)
      ncs == IF calls[s].csShared THEN base.cs["CS0"] ELSE calls[s].cs["CS0"] IN
  [txt |-> [k \in 1..Len(sh) |-> GlyphText(calls[s].fm[sh[k][1]], sh[k][2])],
   w   |-> [k \in 1..Len(sh) |-> calls[s].fm[sh[k][1]].w[sh[k][2]]],
   n   |-> IF ncs = 0 THEN 1 ELSE ncs,
   frm |-> IF UsesForm(calls[s].doc, p) /\ calls[s].xo THEN FormTrace(calls[s].doc) ELSE "",
   img |-> IF ~HasInline(calls[s].doc, p) THEN ""
           ELSE IF "InlineNameIsAddress" \in Dev THEN "addr" \o ToString(heap) ELSE "inline0",
   grp |-> IF ~HasTie(calls[s].doc, p) THEN ""
           ELSE IF "TieBreakByAddress" \in Dev /\ heap # 0 THEN "address-order" ELSE "creation-order"]

\* execute the content stream, lay the page out, yield it
\* PDFPageInterpreter.execute(list_value(page.contents)): PDFContentParser reads the streams of the /Contents array one
\* after the other BY INDEX.  page.contents is the resolved array itself - with caching on the very list object in the
\* document's object cache, which the other page of dC gets too.  Dangerous alternative: take the streams out of the list.
AExecuteContents ==
  /\ Micro("font") /\ Me.todo = <<>>
  /\ LET sharedCached == SharedPages(Me.doc) /\ Me.caching IN
     SetMe([Me EXCEPT !.pc = "render", !.ex = (~sharedCached \/ Me.ca),
                      !.ca = IF sharedCached /\ "ContentsArrayConsumed" \in Dev THEN FALSE ELSE @,
                      \* do_Do: forms_in_progress holds the object numbers of the forms being rendered.  Dangerous
                      \* alternative: the identity of the stream object - a new one for every Do when caching is off
                      !.ovf = /\ "FormsInProgressByIdentity" \in Dev /\ ~Me.caching
                              /\ FormCycle(Me.doc) /\ UsesForm(Me.doc, Me.cur) /\ Me.xo])
  /\ last' = NoLast /\ UNCHANGED <<base, cmapc, umapc, interned, heap, rmemo, shared, running, ncalls, client, sched>>

ARender ==
  /\ Micro("render")
  /\ LET r == IF Me.ovf THEN [NoRes EXCEPT !.frm = "RecursionError"]
              ELSE IF Me.ex THEN PageResult(running) ELSE NoRes  \* no content stream found: an empty page
         done == Me.done \cup {Me.cur}
         finished == (Me.atomic \/ AutoClose) /\ Me.pages \ done = {} IN
       /\ last' = [valid |-> TRUE, doc |-> Me.doc, page |-> Me.cur, res |-> r]
       /\ Log(Ev("page", running, Me.doc, Me.caching, Me.pages, Me.kind, Me.cur, r))
       /\ IF finished THEN calls' = [calls EXCEPT ![running] = Free] /\ running' = 0
          ELSE IF Me.atomic THEN SetMe([Me EXCEPT !.done = done, !.pc = "page"]) /\ running' = running
          ELSE SetMe([Me EXCEPT !.done = done, !.st = "idle", !.pc = ""]) /\ running' = 0
  /\ UNCHANGED <<base, cmapc, umapc, interned, heap, rmemo, shared, ncalls, client>>

\* ------------------------------------------------------------------ the client call: own CMap on top of a cached one
\* CMap.use_cmap(CMapDB.get_cmap(n)): the cached table is copied into the client's CMap
AUseCMapCopy ==
  /\ running = 0 - 1 /\ client.st = "start"
  /\ cmapc' = IF cmapc[client.name].loaded THEN cmapc ELSE LoadCMap(client.name)
  /\ client' = IF "UseCMapAlias" \in Dev THEN [client EXCEPT !.st = "used", !.alias = TRUE]
               ELSE [client EXCEPT !.st = "used", !.alias = FALSE, !.own = PristineCMap(client.name)]
  /\ last' = NoLast /\ UNCHANGED <<base, umapc, interned, heap, rmemo, shared, calls, running, ncalls, sched>>
\* FileCMap.add_code2cid: the client maps code 1 to its own CID 99 - in ITS table
AAddCode2Cid ==
  /\ running = 0 - 1 /\ client.st = "used"
  /\ IF client.alias THEN cmapc' = [cmapc EXCEPT ![client.name].tab[1] = 99] /\ client' = [client EXCEPT !.st = "none"]
     ELSE cmapc' = cmapc /\ client' = [client EXCEPT !.st = "none", !.own = EmptyTab]
  /\ running' = 0
  /\ last' = NoLast /\ UNCHANGED <<base, umapc, interned, heap, rmemo, shared, calls, ncalls, sched>>

Sched == \/ \E d \in Docs, c \in Cachings, ps \in PageSets : Open(d, c, ps) \/ \E k \in Kinds : Extract(d, c, ps, k)
         \/ \E s \in 1..MaxLive : Next(s) \/ Close(s)
         \/ \E n \in CMapNames : UseCMap(n)
Step  == \/ ADocOpen \/ APageStart \/ AInitResources \/ AInitColorSpacesCopy
         \/ AFontCacheHit \/ AFontMiss \/ AObjCacheHit \/ AObjStmParse \/ AObjDirectParse \/ AGetFontSpec \/ AGetObjParsed \/ ADecipherAllInPlace \/ ACopyDescendantSpec
         \/ AGetEncodingShared \/ AGetEncodingCopyOnWrite \/ ADifferencesAssign \/ ADifferencesPop \/ AParseToUnicode
         \/ ACMapCacheFill \/ ACMapCacheHit \/ AUMapCacheFill \/ AUMapCacheHit
         \/ AResolveAllInPlace \/ ABuiltinEncoding \/ AFontCacheFill \/ AExecuteContents \/ ARender
         \/ AUseCMapCopy \/ AAddCode2Cid
Next0 == Sched \/ Step
Spec == Init /\ [][Next0]_vars

\* ------------------------------------------------------------------ C12
\* every page of every call is what a fresh process returns for that document and page - whatever ran before, whatever
\* else is open, whatever the caching flag and the page subset
Functional == last.valid => last.res = Fresh(last.doc, last.page)
\* ... up to the components that are memory addresses while an address deviation is in force
Mask(r) == [r EXCEPT !.img = IF @ = "" THEN "" ELSE "*", !.grp = IF @ = "" THEN "" ELSE "*"]
FunctionalModuloAddress == last.valid => Mask(last.res) = Mask(Fresh(last.doc, last.page))
\* a font a call can get from a cache (or holds in its font map) is the font a miss would build for THIS call's document
FontSound(d, o, f) == f.kind # "" => /\ f.src = d
                                      /\ \A c \in Codes : GlyphText(f, c) = RefGlyph(d, o, c).text /\ f.w[c] = RefGlyph(d, o, c).w
CacheKeySound == \A s \in 1..MaxLive : calls[s].st # "free" =>
                    \A o \in FontKeys : FontSound(calls[s].doc, o, Cache(s)[o]) /\ FontSound(calls[s].doc, o, calls[s].fm[o])
\* a loaded CMap / unicode map is what loading it gives
CMapCacheSound == /\ \A n \in CMapNames : cmapc[n].loaded => cmapc[n].tab = PristineCMap(n)
                  /\ umapc.loaded => umapc.h = PristineUMapH /\ umapc.v = PristineUMapV
\* an object in a document's cache has been deciphered exactly once (encrypted document) / is as parsed
DecipheredOnce == \A s \in 1..MaxLive : calls[s].d9.dec \in {0, 1}
\* the document's object cache holds, for every object number, the object's CURRENT definition: filling the cache from a
\* parsed object stream never shadows a newer definition
ObjCacheNewest == \A s \in 1..MaxLive : \A m \in StmMembers : calls[s].oc[m] \in {"", "new"}
\* resolve_all's bookkeeping does not outlive the call
ResolveMemoPerCall == rmemo = 0
\* a cached object is what parsing the file gives: nothing was written into it
CachedObjectsAsParsed == \A s \in 1..MaxLive : calls[s].d9.tu = EmptyStr /\ calls[s].ca
\* the shared base tables never change: no entry is assigned, none is removed
SharedTablesImmutable == [][base' = base]_vars
\* caches only grow: an entry, once present, is never modified; interned names keep their identity
IsPrefix(a, b) == Len(a) <= Len(b) /\ \A i \in 1..Len(a) : a[i] = b[i]
CachesAppendOnly == [][/\ \A n \in CMapNames : cmapc[n].loaded => cmapc'[n] = cmapc[n]
                       /\ umapc.loaded => umapc' = umapc
                       /\ IsPrefix(interned, interned')]_vars
\* the client's CMap never shares structure with the cache
ClientOwnsItsTable == ~client.alias

Quiescent == running = 0 /\ \A s \in 1..MaxLive : calls[s].st = "free"
EmitTerminal == (History /\ Quiescent /\ ncalls = MaxCalls) => PrintT("@@" \o ToJson([sched |-> sched, auto |-> AutoClose]))
=============================================================================
