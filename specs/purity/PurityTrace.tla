----------------------------- MODULE PurityTrace -----------------------------
(***************************************************************************)
(* Binding B for C12: histories of public calls recorded from ONE real     *)
(* Python process (repository samples and generated documents, randomised  *)
(* orders and options) are validated against the properties of Purity.tla. *)
(*                                                                         *)
(* A trace is a sequence of call events.  Each event carries               *)
(*   tabs     for every process-wide table (EncodingDB tables, glyph list, *)
(*            font metrics, predefined colour spaces, CMapDB caches, the   *)
(*            interned literal / keyword tables, module scalars): its      *)
(*            class ("immutable" | "append"), the number of entries before *)
(*            and after the call, the content summary before and after,    *)
(*            and the summary of the entries that existed before,          *)
(*            recomputed after the call (oldafter)                         *)
(*   results  for every result unit of the call (a page of extract_pages,  *)
(*            the whole text / xml output): its key                        *)
(*            (document | entry point | page or page set), the digest      *)
(*            observed in the history process (raw), the digest a FRESH    *)
(*            process gives for the same call (fresh) and the digest       *)
(*            composed from fresh single-page calls with caching on (pure) *)
(*            - each also in masked form (mraw ..), where the components   *)
(*            that are memory addresses under Dev are blanked             *)
(*                                                                         *)
(*   cobj     for every page the call interpreted: the number of objects   *)
(*            in the document's object cache (PDFDocument._cached_objs)    *)
(*            before the page, the deep content summary of those objects   *)
(*            before the page and recomputed after it (oldafter)           *)
(*                                                                         *)
(* CachedObjectsAsParsed   interpreting a page changes no object that was  *)
(*                         in the document's object cache before it        *)
(* SharedTablesImmutable   a table of class "immutable" is unchanged       *)
(* CachesAppendOnly        in an "append" table entries present before the *)
(*                         call are unchanged, the table only grows        *)
(* NothingBetweenCalls     a table is, before a call, what it was after    *)
(*                         the previous one                                *)
(* Functional              raw = fresh (history independence), fresh = pure*)
(*                         (caching flag and page subset are irrelevant),  *)
(*                         and every key has ONE value throughout the      *)
(*                         history (memo)                                  *)
(* A rejected trace is a deadlock; the last state names trace t, event e.  *)
(***************************************************************************)
EXTENDS Integers, Sequences, FiniteSets, TLC, Json, IOUtils

CONSTANT Dev      \* address deviations in force: {} or a subset of {"InlineNameIsAddress", "TieBreakByAddress"}

Traces == JsonDeserialize(IOEnv.TRACE_FILE)
N == Len(Traces)

VARIABLES t, e, tabs, memo
vars == <<t, e, tabs, memo>>

Init == t = 1 /\ e = 1 /\ tabs = <<>> /\ memo = <<>>

Masked == Dev # {}
Obs(r)   == IF Masked THEN r.mraw ELSE r.raw
Fresh(r) == IF Masked THEN r.mfresh ELSE r.fresh
Pure(r)  == IF Masked THEN r.mpure ELSE r.pure

Has(m, k) == \E i \in 1..Len(m) : m[i][1] = k
Get(m, k) == m[CHOOSE i \in 1..Len(m) : m[i][1] = k][2]

SharedTablesImmutable(ev) == \A i \in 1..Len(ev.tabs) :
                                ev.tabs[i].cls = "immutable" => ev.tabs[i].after = ev.tabs[i].before /\ ev.tabs[i].na = ev.tabs[i].nb
CachesAppendOnly(ev) == \A i \in 1..Len(ev.tabs) : ev.tabs[i].oldafter = ev.tabs[i].before /\ ev.tabs[i].na >= ev.tabs[i].nb
CachedObjectsAsParsed(ev) == \A i \in 1..Len(ev.cobj) : ev.cobj[i].oldafter = ev.cobj[i].before /\ ev.cobj[i].na >= ev.cobj[i].nb
NothingBetweenCalls(ev) == tabs = <<>> \/ (Len(tabs) = Len(ev.tabs) /\ \A i \in 1..Len(tabs) : tabs[i] = ev.tabs[i].before)
Functional(ev) == \A i \in 1..Len(ev.results) :
                     LET r == ev.results[i] IN
                     /\ Obs(r) = Fresh(r)
                     /\ Fresh(r) = Pure(r)
                     /\ Has(memo, r.key) => Get(memo, r.key) = Obs(r)

RECURSIVE Remember(_, _, _)
Remember(m, rs, i) == IF i > Len(rs) THEN m
                      ELSE Remember(IF Has(m, rs[i].key) THEN m ELSE Append(m, <<rs[i].key, Obs(rs[i])>>), rs, i + 1)

Step == /\ t <= N /\ e <= Len(Traces[t].events)
        /\ LET ev == Traces[t].events[e] IN
             /\ (SharedTablesImmutable(ev) /\ CachesAppendOnly(ev) /\ NothingBetweenCalls(ev) /\ CachedObjectsAsParsed(ev)
                 /\ Functional(ev)) = TRUE
             /\ tabs' = [i \in 1..Len(ev.tabs) |-> ev.tabs[i].after]
             /\ memo' = Remember(memo, ev.results, 1)
        /\ e' = e + 1 /\ UNCHANGED t
NextTrace == /\ t <= N /\ e > Len(Traces[t].events)
             /\ t' = t + 1 /\ e' = 1 /\ tabs' = <<>> /\ memo' = <<>>
Finished == t > N /\ UNCHANGED vars
Next == Step \/ NextTrace \/ Finished
Spec == Init /\ [][Next]_vars
=============================================================================
