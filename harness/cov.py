"""Implementation coverage of the conformance layer.

With VERIF_COVERAGE=<dir> set, every check process (and every worker it forks) records which lines of pdfminer/*.py the
replayed behaviours and recorded traces actually executed (sys.monitoring LINE events, each line disabled after its first
hit, so the cost is negligible).  One JSON file per process is written at exit; bin/coverage merges them into a table
per module and per function.  This says which implementation code the specifications are bound to - a specification that
nothing drives into a function decides nothing about that function.
"""
import atexit
import json
import os
import sys

_hits = {}
_dir = None
_root = None
TOOL = 4            # sys.monitoring tool id (0-2 are conventionally debugger/coverage/profiler; 3 is the C13 work meter)


_new = 0


def _line(code, line):
    global _new
    fn = code.co_filename
    if fn.startswith(_root):
        _hits.setdefault(fn[len(_root):], set()).add(line)
        _new += 1
        if _new >= 40:
            # pool workers are ended with SIGTERM and never reach an exit handler: write as we go (each line reports
            # once, so this happens at most a hundred times per process)
            _new = 0
            _dump()
    return sys.monitoring.DISABLE


def _dump():
    if not _hits:
        return
    p = os.path.join(_dir, "%s.%d.json" % (os.environ.get("VERIF_COVERAGE_TAG", "x"), os.getpid()))
    try:
        with open(p, "w") as f:
            json.dump({k: sorted(v) for k, v in _hits.items()}, f)
    except OSError:
        pass


def start():
    global _dir, _root
    d = os.environ.get("VERIF_COVERAGE")
    if not d or not hasattr(sys, "monitoring"):
        return False
    import pdfminer
    _root = os.path.dirname(os.path.abspath(pdfminer.__file__)) + os.sep
    _dir = d
    os.makedirs(d, exist_ok=True)
    try:
        sys.monitoring.use_tool_id(TOOL, "verifcov")
    except ValueError:
        return False
    sys.monitoring.register_callback(TOOL, sys.monitoring.events.LINE, _line)
    sys.monitoring.set_events(TOOL, sys.monitoring.events.LINE)
    atexit.register(_dump)
    # forked workers (multiprocessing 'fork') inherit the monitor but not atexit of os._exit paths: dump on fork exit too
    if hasattr(os, "register_at_fork"):
        os.register_at_fork(after_in_child=lambda: _hits.clear())
    try:
        import multiprocessing.util as mu
        mu.Finalize(None, _dump, exitpriority=-100)
    except Exception:       # noqa: BLE001
        pass
    return True
