"""Check bookkeeping: evidence, known findings, VIOLATION lines, replay files, exit codes."""
from __future__ import annotations

import base64
import hashlib
import json
import os
import shutil
import sys
import tempfile
import time

from .tlc import MachineryError, VERIF

# evidence committed under /verif/evidence must come from runs against /repo itself: a run against another tree
# (VERIF_REPO=<scratch worktree>, used for seeded changes) writes its evidence to a scratch directory instead
EVIDENCE = os.environ.get("VERIF_EVIDENCE_DIR") or (
    os.path.join(tempfile.gettempdir(), "verif_scratch_evidence") if os.environ.get("VERIF_REPO") else os.path.join(VERIF, "evidence"))
FINDINGS = os.path.join(VERIF, "known_findings")
REPLAYS = os.path.join(VERIF, "out", "replays")


def jsonable(v):
    if isinstance(v, (bytes, bytearray)):
        try:
            s = bytes(v).decode("ascii")
            if s.isprintable():
                return {"bytes": s}
        except UnicodeDecodeError:
            pass
        return {"b64": base64.b64encode(bytes(v)).decode()}
    if isinstance(v, dict):
        return {str(k): jsonable(x) for k, x in v.items()}
    if isinstance(v, (list, tuple)):
        return [jsonable(x) for x in v]
    if isinstance(v, (set, frozenset)):
        return sorted((jsonable(x) for x in v), key=repr)
    if isinstance(v, float) or isinstance(v, int) or isinstance(v, str) or v is None or isinstance(v, bool):
        return v
    return repr(v)


def unjson(v):
    if isinstance(v, dict):
        if set(v) == {"bytes"}:
            return v["bytes"].encode("ascii")
        if set(v) == {"b64"}:
            return base64.b64decode(v["b64"])
        return {k: unjson(x) for k, x in v.items()}
    if isinstance(v, list):
        return [unjson(x) for x in v]
    return v


class Check:
    def __init__(self, pid, tier="quick", seed=0, level="model_checking"):
        self.pid = pid
        self.tier = tier
        self.seed = int(seed)
        self.level = level
        self.t0 = time.time()
        self.states = 0
        self.transitions = 0
        self.tlc_runs = []
        self.replayed = 0            # spec behaviours replayed into the implementation
        self.traces = 0              # recorded implementation traces validated against the spec
        self.evaluations = 0
        self.nontrivial = set()
        self.nontrivial_count = 0
        self.samples = []
        self.violations = []         # (key, what, replay_path)
        self.known_hits = {}         # key -> count
        self.notes = []
        self.extra = {}
        self.exhaustive = None
        self.rule = ""
        self.assumptions = []
        self.checker_cmds = []
        self._known = self._load_known()
        self.tmp = tempfile.mkdtemp(prefix="verif_%s_" % pid, dir=os.environ.get("VERIF_TMP") or None)
        os.environ["VERIF_TMP"] = self.tmp

    # ---------------------------------------------------------------- known findings
    def _load_known(self):
        p = os.path.join(FINDINGS, self.pid + ".json")
        out = {}
        if os.path.exists(p):
            for e in json.load(open(p)):
                out[e["key"]] = e
        return out

    def is_known(self, key):
        e = self._known.get(key)
        return bool(e) and e.get("status") == "known"

    def known_keys(self, prefix=""):
        return [k for k, e in self._known.items() if e.get("status") == "known" and k.startswith(prefix)]

    # ---------------------------------------------------------------- accounting
    def add_tlc(self, res, label=""):
        self.states += res.distinct
        self.transitions += res.generated
        self.tlc_runs.append({"label": label, "distinct": res.distinct, "generated": res.generated,
                              "depth": res.depth, "wall_s": round(res.wall, 1),
                              "actions": {k: v[1] for k, v in res.actions.items()} or None})
        self.checker_cmds.append(res.cmd)

    def case(self, n=1, nontrivial_key=None):
        self.evaluations += n
        if nontrivial_key is not None:
            if len(self.nontrivial) < 2_000_000:
                self.nontrivial.add(nontrivial_key)
            else:
                self.nontrivial_count += 1

    def sample(self, obj, limit=8):
        if len(self.samples) < limit:
            self.samples.append(jsonable(obj))

    def note(self, s):
        if len(self.notes) < 50:
            self.notes.append(s)
        print("NOTE: " + s)

    # ---------------------------------------------------------------- verdicts
    def violation(self, key, what, replay=None):
        """Report that the implementation breaks the property on a specific case.
        key: canonical signature (defect class / call site).  Known keys print KNOWN-FINDING once."""
        if self.is_known(key):
            if key not in self.known_hits:
                print("KNOWN-FINDING: property=%s %s [%s]" % (self.pid, self._known[key].get("what", what), key))
            self.known_hits[key] = self.known_hits.get(key, 0) + 1
            return False
        # at most 40 replay files per run (a broken tree can produce tens of thousands of violations)
        path = self.write_replay(key, what, replay) if len(self.violations) < 40 else self.violations[-1][2]
        if len(self.violations) < 25:
            print("VIOLATION property=%s replay=%s" % (self.pid, path))
            print("  key=%s  %s" % (key, what))
        self.violations.append((key, what, path))
        return True

    def write_replay(self, key, what, replay):
        d = os.path.join(REPLAYS, self.pid)
        os.makedirs(d, exist_ok=True)
        doc = {"property": self.pid, "key": key, "what": what, "case": jsonable(replay)}
        blob = json.dumps(doc, indent=1, sort_keys=True)
        h = hashlib.sha1(blob.encode()).hexdigest()[:12]
        path = os.path.join(d, "%s.json" % h)
        with open(path, "w") as f:
            f.write(blob)
        return path

    # ---------------------------------------------------------------- finish
    def finish(self):
        wall = time.time() - self.t0
        # known findings that no longer reproduce are reported (not an error): the list should be pruned
        for k, e in self._known.items():
            if e.get("status") == "known" and k not in self.known_hits and not e.get("thorough_only") \
                    and not e.get("optional"):
                print("NOTE: listed known finding did not reproduce in this run: %s" % k)
        nd = len(self.nontrivial) + self.nontrivial_count
        cov = {
            "states": self.states,
            "transitions": self.transitions,
            "traces_validated_against_impl": self.replayed + self.traces,
            "spec_behaviours_replayed_into_impl": self.replayed,
            "impl_traces_validated_by_tlc": self.traces,
            "evaluations": self.evaluations,
            "distinct_nontrivial": nd,
            "rule": self.rule,
            "samples": self.samples or ["(no sample recorded)"],
            "exhaustive": bool(self.exhaustive),
            "checker_cmd": (self.checker_cmds[0] if self.checker_cmds else "") + (" ; ... (%d TLC invocations in all, see tlc_runs)" % len(self.checker_cmds) if len(self.checker_cmds) > 1 else ""),
            "tlc_runs": self.tlc_runs,
            "tlc_tool_retries": __import__("harness.tlc", fromlist=["TOOL_RETRIES"]).TOOL_RETRIES,
            "known_findings_reproduced": self.known_hits,
            "notes": self.notes,
        }
        try:
            import pdfminer
            cov["pdfminer_path"] = os.path.dirname(pdfminer.__file__)
        except Exception:
            pass
        cov.update(self.extra)
        ev = {
            "property_id": self.pid, "tier": self.tier, "seed": self.seed, "level": self.level,
            "coverage": cov, "assumptions": self.assumptions, "wall_s": round(wall, 2),
            "violations": len(self.violations),
        }
        os.makedirs(EVIDENCE, exist_ok=True)
        with open(os.path.join(EVIDENCE, self.pid + ".json"), "w") as f:
            json.dump(ev, f, indent=1, sort_keys=True)
        shutil.rmtree(self.tmp, ignore_errors=True)
        print("%s %s: %s  states=%d transitions=%d replayed=%d traces=%d evaluations=%d known=%d violations=%d wall=%.1fs"
              % (self.pid, self.tier, "FAIL" if self.violations else "ok", self.states, self.transitions,
                 self.replayed, self.traces, self.evaluations, sum(self.known_hits.values()),
                 len(self.violations), wall))
        return 1 if self.violations else 0


def main_wrapper(fn):
    """Run a property's main(); map MachineryError and unexpected exceptions to exit 2."""
    try:
        rc = fn()
    except MachineryError as e:
        print("MACHINERY-FAILURE: %s" % e)
        sys.exit(2)
    except SystemExit:
        raise
    except BaseException:
        import traceback
        traceback.print_exc()
        print("MACHINERY-FAILURE: unexpected exception in the harness")
        sys.exit(2)
    sys.exit(rc)


def batches(items, weight, limit=25000):
    """split a list of traces into batches whose total weight (number of trace-spec steps) stays below `limit`:
    a batch is one TLC behaviour and TLC cannot handle behaviours of 65,536 or more states"""
    out, cur, size = [], [], 0
    for it in items:
        w = weight(it)
        if cur and size + w > limit:
            out.append(cur)
            cur, size = [], 0
        cur.append(it)
        size += w
    if cur:
        out.append(cur)
    return out
