"""Named deviations of the code from the intended design that the specifications can switch on.

A deviation is in force (modelled "as coded") while some known_findings/*.json entry with
status "known" carries  "dev": "<module>:<Name>".  Repaired ("fixed") entries switch nothing on."""
import glob
import json
import os

from .tlc import VERIF


def active(module):
    out = set()
    for p in glob.glob(os.path.join(VERIF, "known_findings", "*.json")):
        for e in json.load(open(p)):
            d = e.get("dev")
            if d and e.get("status") == "known":
                for one in d.split(","):
                    m, name = one.split(":")
                    if m == module:
                        out.add(name)
    return sorted(out)


def tla_set(names):
    return "{" + ", ".join('"%s"' % n for n in names) + "}"
