"""Parser for TLA+ values as printed by TLC (state dumps, PrintT, simulate files).

Python mapping:  <<..>> -> tuple, {..} -> frozenset, [a |-> v] -> dict,
(k :> v @@ ..) -> dict, "s" -> str, TRUE/FALSE -> bool, ints -> int, a..b -> frozenset,
bare identifier -> ModelValue(str).
"""
from __future__ import annotations


class ModelValue(str):
    def __repr__(self):
        return "MV(%s)" % str.__repr__(self)


class TLAParseError(ValueError):
    pass


def _hashable(v):
    if isinstance(v, dict):
        return tuple(sorted(((_hashable(k), _hashable(x)) for k, x in v.items()), key=repr))
    if isinstance(v, (list, tuple)):
        return tuple(_hashable(x) for x in v)
    return v


class _P:
    __slots__ = ("s", "i", "n")

    def __init__(self, s):
        self.s = s
        self.i = 0
        self.n = len(s)

    def ws(self):
        s, n = self.s, self.n
        i = self.i
        while i < n and s[i] in " \t\r\n":
            i += 1
        self.i = i

    def peek(self, k=1):
        return self.s[self.i:self.i + k]

    def expect(self, tok):
        self.ws()
        if not self.s.startswith(tok, self.i):
            raise TLAParseError("expected %r at %d: %r" % (tok, self.i, self.s[self.i:self.i + 40]))
        self.i += len(tok)

    def value(self):
        self.ws()
        s = self.s
        if self.i >= self.n:
            raise TLAParseError("unexpected end")
        c = s[self.i]
        if c == "<" and s.startswith("<<", self.i):
            self.i += 2
            items = self.items(">>")
            return tuple(items)
        if c == "{":
            self.i += 1
            items = self.items("}")
            return frozenset(_hashable(x) for x in items)
        if c == "[":
            self.i += 1
            d = {}
            self.ws()
            if self.peek() == "]":
                self.i += 1
                return d
            while True:
                self.ws()
                j = self.i
                while self.i < self.n and (s[self.i].isalnum() or s[self.i] == "_"):
                    self.i += 1
                key = s[j:self.i]
                self.expect("|->")
                d[key] = self.value()
                self.ws()
                if self.peek() == ",":
                    self.i += 1
                    continue
                self.expect("]")
                return d
        if c == "(":
            self.i += 1
            d = {}
            while True:
                k = self.value()
                self.expect(":>")
                v = self.value()
                d[_hashable(k)] = v
                self.ws()
                if s.startswith("@@", self.i):
                    self.i += 2
                    continue
                self.expect(")")
                return d
        if c == '"':
            i = self.i + 1
            out = []
            while True:
                ch = s[i]
                if ch == "\\":
                    nx = s[i + 1]
                    out.append({"n": "\n", "t": "\t", "r": "\r", "f": "\f"}.get(nx, nx))
                    i += 2
                elif ch == '"':
                    break
                else:
                    out.append(ch)
                    i += 1
            self.i = i + 1
            return "".join(out)
        if c == "-" or c.isdigit():
            j = self.i
            self.i += 1
            while self.i < self.n and s[self.i].isdigit():
                self.i += 1
            v = int(s[j:self.i])
            if s.startswith("..", self.i):
                self.i += 2
                hi = self.value()
                return frozenset(range(v, hi + 1))
            return v
        if c.isalpha() or c == "_":
            j = self.i
            while self.i < self.n and (s[self.i].isalnum() or s[self.i] == "_"):
                self.i += 1
            w = s[j:self.i]
            if w == "TRUE":
                return True
            if w == "FALSE":
                return False
            return ModelValue(w)
        raise TLAParseError("unexpected %r at %d: %r" % (c, self.i, s[self.i:self.i + 40]))

    def items(self, close):
        out = []
        self.ws()
        if self.s.startswith(close, self.i):
            self.i += len(close)
            return out
        while True:
            out.append(self.value())
            self.ws()
            if self.peek() == ",":
                self.i += 1
                continue
            self.expect(close)
            return out


def parse(text):
    p = _P(text)
    v = p.value()
    p.ws()
    if p.i != p.n:
        raise TLAParseError("trailing input at %d: %r" % (p.i, text[p.i:p.i + 40]))
    return v


def iter_dump(path):
    """Yield one dict {var: raw-text} per state of a `tlc -dump` file (continuation lines joined)."""
    cur = {}
    last = None
    with open(path, "r") as f:
        for line in f:
            if line.startswith("State "):
                if cur:
                    yield cur
                cur = {}
                last = None
                continue
            st = line.rstrip("\n")
            if not st.strip():
                continue
            if st.startswith("/\\ ") and " = " in st:
                k, v = st[3:].split(" = ", 1)
                if k.replace("_", "a").isalnum():
                    cur[k] = v
                    last = k
                    continue
            if last is None and " = " in st:
                k, v = st.split(" = ", 1)
                cur[k.strip()] = v
                last = k.strip()
                continue
            if last is not None:
                cur[last] += " " + st.strip()
    if cur:
        yield cur


def iter_dump_parsed(path, select=None):
    for raw in iter_dump(path):
        if select is not None and not select(raw):
            continue
        yield {k: parse(v) for k, v in raw.items()}


def to_tla(v):
    """Python value -> TLA+ expression text (inverse of parse for the supported types)."""
    if isinstance(v, bool):
        return "TRUE" if v else "FALSE"
    if isinstance(v, int):
        return str(v)
    if isinstance(v, ModelValue):
        return str(v)
    if isinstance(v, str):
        return '"' + v.replace("\\", "\\\\").replace('"', '\\"') + '"'
    if isinstance(v, (bytes, bytearray)):
        return "<<" + ", ".join(str(b) for b in v) + ">>"
    if isinstance(v, (tuple, list)):
        return "<<" + ", ".join(to_tla(x) for x in v) + ">>"
    if isinstance(v, (set, frozenset)):
        return "{" + ", ".join(to_tla(x) for x in sorted(v, key=repr)) + "}"
    if isinstance(v, dict):
        if not v:
            return "<<>>"
        if all(isinstance(k, str) and (k.replace("_", "a").isalnum()) for k in v):
            return "[" + ", ".join("%s |-> %s" % (k, to_tla(x)) for k, x in v.items()) + "]"
        return "(" + " @@ ".join("%s :> %s" % (to_tla(k), to_tla(x)) for k, x in v.items()) + ")"
    raise TypeError(type(v))
