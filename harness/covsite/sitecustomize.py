"""put on PYTHONPATH by bin/check only when VERIF_COVERAGE is set: child interpreters started by a check (fresh
subprocesses of the purity, robustness and filesystem checks) record implementation coverage too"""
import os
if os.environ.get("VERIF_COVERAGE"):
    try:
        from harness import cov
        cov.start()
    except Exception:       # noqa: BLE001 - never disturb the process under observation
        pass
