"""Independent reference implementation of the PDF standard security handler (writer AND reader side).

ISO 32000-1 7.6 (R2, R3, R4: algorithms 1-7), Adobe Supplement ExtensionLevel 3 (R5), ISO 32000-2 7.6 (R6:
algorithms 1.A, 2.A, 2.B, 8-10).  RC4 is implemented here; AES-CBC/ECB comes from `cryptography`, hashes
from hashlib (trusted primitives, DESIGN.md 1.1).  Nothing is imported from pdfminer's crypto code; only
`self_check()` uses pdfminer's *parser* (with deciphering switched off) to read the raw objects of the
repository's encrypted samples, which this module then decrypts itself and compares with base.pdf.

Use:  sec = StdSec(V=4, R=4, keylen=128, cfm="AESV2", encrypt_metadata=True, P=-4, id0=b"...", user_pw="u",
                   owner_pw="o")
      pdfwriter.build(revs, transform_for=sec.transform_for(exempt={encrypt_objid}, metadata={meta_objid}))
"""
from __future__ import annotations

import hashlib
import stringprep
import struct
import unicodedata

from cryptography.hazmat.primitives.ciphers import Cipher, algorithms, modes

from ..tlc import MachineryError

PAD = bytes.fromhex("28BF4E5E4E758A4164004E56FFFA01082E2E00B6D0683E802F0CA9FE6453697A")


# ------------------------------------------------------------------------------------------- primitives
def rc4(key: bytes, data: bytes) -> bytes:
    S = list(range(256))
    j = 0
    for i in range(256):
        j = (j + S[i] + key[i % len(key)]) & 255
        S[i], S[j] = S[j], S[i]
    out = bytearray(len(data))
    i = j = 0
    for k, c in enumerate(data):
        i = (i + 1) & 255
        j = (j + S[i]) & 255
        S[i], S[j] = S[j], S[i]
        out[k] = c ^ S[(S[i] + S[j]) & 255]
    return bytes(out)


def aes_cbc_encrypt(key, iv, data, pad=True):
    if pad:
        n = 16 - len(data) % 16
        data = data + bytes([n]) * n
    e = Cipher(algorithms.AES(key), modes.CBC(iv)).encryptor()
    return e.update(data) + e.finalize()


def aes_cbc_decrypt(key, iv, data, unpad=True):
    if len(data) % 16 or (unpad and not data):
        raise ValueError("AES-CBC data length %d" % len(data))
    d = Cipher(algorithms.AES(key), modes.CBC(iv)).decryptor()
    p = d.update(data) + d.finalize()
    if unpad:
        n = p[-1]
        if not 1 <= n <= 16 or p[-n:] != bytes([n]) * n:
            raise ValueError("bad PKCS#7 padding")
        p = p[:-n]
    return p


def aes_ecb_encrypt(key, data):
    e = Cipher(algorithms.AES(key), modes.ECB()).encryptor()
    return e.update(data) + e.finalize()


def md5(*parts):
    h = hashlib.md5()
    for p in parts:
        h.update(p)
    return h.digest()


def det_bytes(n, *seed):
    """deterministic 'random' bytes (IVs, salts, file keys) so that realised documents are reproducible"""
    out = b""
    c = 0
    s = repr(seed).encode()
    while len(out) < n:
        out += hashlib.sha256(s + struct.pack("<L", c)).digest()
        c += 1
    return out[:n]


# ------------------------------------------------------------------------------------------- passwords
class Unencodable(Exception):
    """the password has no representation under the revision's preparation rule (so it cannot be right)"""


def saslprep(s: str) -> str:
    """RFC 4013 (stored-string flavour: unassigned code points prohibited), written from the RFC."""
    s = "".join(" " if stringprep.in_table_c12(c) else c for c in s if not stringprep.in_table_b1(c))
    s = unicodedata.ucd_3_2_0.normalize("NFKC", s)
    if not s:
        return s
    bad = (stringprep.in_table_c12, stringprep.in_table_c21_c22, stringprep.in_table_c3, stringprep.in_table_c4,
           stringprep.in_table_c5, stringprep.in_table_c6, stringprep.in_table_c7, stringprep.in_table_c8,
           stringprep.in_table_c9, stringprep.in_table_a1)
    for c in s:
        if any(t(c) for t in bad):
            raise Unencodable("prohibited code point U+%04X" % ord(c))
    if any(stringprep.in_table_d1(c) for c in s):
        if any(stringprep.in_table_d2(c) for c in s) or not (stringprep.in_table_d1(s[0]) and stringprep.in_table_d1(s[-1])):
            raise Unencodable("bidi rule")
    return s


def prepare_password(R: int, pw: str) -> bytes:
    """The byte string the revision's algorithms work on.  Two passwords are 'the same password' for a
    document exactly when their prepared forms are equal (ISO 32000-1 algorithm 2 step a: first 32 bytes;
    ISO 32000-2 7.6.4.3.3: SASLprep, UTF-8, first 127 bytes)."""
    if R <= 4:
        try:
            b = pw.encode("latin-1")      # PDFDocEncoding coincides with Latin-1 on the characters used here
        except UnicodeEncodeError:
            raise Unencodable("not representable in PDFDocEncoding")
        return (b + PAD)[:32]
    if R == 5:
        return pw.encode("utf-8")[:127]
    return saslprep(pw).encode("utf-8")[:127]


def hash_r5(pw, salt, udata=b""):
    return hashlib.sha256(pw + salt + udata).digest()


def hash_r6(pw, salt, udata=b""):
    """ISO 32000-2 algorithm 2.B"""
    k = hashlib.sha256(pw + salt + udata).digest()
    i = 0
    while True:
        k1 = (pw + k + udata) * 64
        e = aes_cbc_encrypt(k[:16], k[16:32], k1, pad=False)
        m = int.from_bytes(e[:16], "big") % 3
        k = (hashlib.sha256, hashlib.sha384, hashlib.sha512)[m](e).digest()
        i += 1
        if i >= 64 and e[-1] <= i - 32:
            break
    return k[:32]


# ------------------------------------------------------------------------------------------- the handler
class StdSec:
    def __init__(self, V, R, keylen, cfm, encrypt_metadata=True, P=-4, id0=b"", user_pw="", owner_pw=None,
                 seed=0):
        self.V, self.R, self.keylen, self.cfm = V, R, keylen, cfm
        self.encrypt_metadata = bool(encrypt_metadata)
        self.P = P if P < 0x80000000 else P - (1 << 32)        # signed 32-bit
        self.id0 = id0
        self.seed = seed
        self.n = keylen // 8
        self.O = self.U = self.OE = self.UE = self.Perms = None
        self.key = None
        self._ivc = 0
        if user_pw is not None:
            self._create(user_pw, user_pw if owner_pw is None else owner_pw)

    # --- algorithm per data item
    @property
    def alg(self):
        if self.V in (1, 2):
            return "RC4"
        return {"V2": "RC4", "AESV2": "AES128", "AESV3": "AES256", "Identity": "ID", "IdentityDefault": "ID"}[self.cfm]

    def P_bytes(self):
        return struct.pack("<l", self.P)

    # --- creation (writer side)
    def _create(self, user_pw, owner_pw):
        R = self.R
        up = prepare_password(R, user_pw)
        op = prepare_password(R, owner_pw)
        if R <= 4:
            # algorithm 3: O
            h = md5(op)
            if R >= 3:
                for _ in range(50):
                    h = md5(h)
            k = h[: (5 if R == 2 else self.n)]
            o = rc4(k, up)
            if R >= 3:
                for i in range(1, 20):
                    o = rc4(bytes(c ^ i for c in k), o)
            self.O = o
            self.key = self._key_r234(up)
            self.U = self._u_r234(self.key)
        else:
            H = hash_r5 if R == 5 else hash_r6
            self.key = det_bytes(32, "filekey", self.seed)
            uvs, uks = det_bytes(8, "uvs", self.seed), det_bytes(8, "uks", self.seed)
            ovs, oks = det_bytes(8, "ovs", self.seed), det_bytes(8, "oks", self.seed)
            self.U = H(up, uvs) + uvs + uks
            self.UE = aes_cbc_encrypt(H(up, uks), b"\0" * 16, self.key, pad=False)
            self.O = H(op, ovs, self.U) + ovs + oks
            self.OE = aes_cbc_encrypt(H(op, oks, self.U), b"\0" * 16, self.key, pad=False)
            self.Perms = aes_ecb_encrypt(self.key, self.P_bytes() + b"\xff\xff\xff\xff"
                                         + (b"T" if self.encrypt_metadata else b"F") + b"adb" + det_bytes(4, "pr", self.seed))

    def _key_r234(self, up):
        # algorithm 2
        h = hashlib.md5(up + self.O + self.P_bytes() + self.id0)
        if self.R >= 4 and not self.encrypt_metadata:
            h.update(b"\xff\xff\xff\xff")
        k = h.digest()
        n = 5 if self.R == 2 else self.n
        if self.R >= 3:
            for _ in range(50):
                k = md5(k[:n])
        return k[:n]

    def _u_r234(self, key):
        if self.R == 2:
            return rc4(key, PAD)                               # algorithm 4
        u = rc4(key, md5(PAD, self.id0))                       # algorithm 5
        for i in range(1, 20):
            u = rc4(bytes(c ^ i for c in key), u)
        return u + det_bytes(16, "upad", self.seed)

    # --- authentication (reader side; used by self_check on the repository samples)
    @classmethod
    def from_dict(cls, enc, id0, password):
        """enc: the Encrypt dictionary with plain python values (names as str, strings as bytes).
        -> StdSec with .key set, or None when the password is neither the user nor the owner password."""
        V, R = enc.get("V", 0), enc["R"]
        cfm = None
        if V >= 4:
            if "StmF" not in enc and "StrF" not in enc:
                cfm = "Identity"
            else:
                name = enc["StmF"]
                cfm = "Identity" if name == "Identity" else enc["CF"][name]["CFM"]
        keylen = 256 if V == 5 else 128 if V == 4 else enc.get("Length", 40) if R >= 3 else 40
        s = cls(V, R, keylen, cfm, enc.get("EncryptMetadata", True), enc["P"], id0, user_pw=None)
        s.O, s.U, s.OE, s.UE = enc["O"], enc["U"], enc.get("OE"), enc.get("UE")
        try:
            pw = prepare_password(R, password)
        except Unencodable:
            return None
        if R <= 4:
            k = s._key_r234(pw)
            if s._u_ok(k):
                s.key = k
                return s
            h = md5(pw)                                        # algorithm 7
            if R >= 3:
                for _ in range(50):
                    h = md5(h)
            ok = h[: (5 if R == 2 else s.n)]
            up = s.O
            if R == 2:
                up = rc4(ok, up)
            else:
                for i in range(19, -1, -1):
                    up = rc4(bytes(c ^ i for c in ok), up)
            k = s._key_r234(up)
            if s._u_ok(k):
                s.key = k
                return s
            return None
        H = hash_r5 if R == 5 else hash_r6
        U, O = s.U[:48], s.O[:48]
        if H(pw, O[32:40], U) == O[:32]:
            s.key = aes_cbc_decrypt(H(pw, O[40:48], U), b"\0" * 16, s.OE[:32], unpad=False)
            return s
        if H(pw, U[32:40]) == U[:32]:
            s.key = aes_cbc_decrypt(H(pw, U[40:48]), b"\0" * 16, s.UE[:32], unpad=False)
            return s
        return None

    def _u_ok(self, key):
        u = self._u_r234(key)
        return u == self.U if self.R == 2 else u[:16] == self.U[:16]

    # --- per-object keys and data
    def object_key(self, n, g, aes):
        # algorithm 1
        k = md5(self.key, struct.pack("<L", n)[:3], struct.pack("<L", g)[:2], b"sAlT" if aes else b"")
        return k[: min(len(self.key) + 5, 16)]

    def encrypt(self, n, g, data, iv=None):
        a = self.alg
        if a == "ID":
            return data
        if a == "RC4":
            return rc4(self.object_key(n, g, False), data)
        if iv is None:
            self._ivc += 1
            iv = det_bytes(16, "iv", self.seed, n, g, self._ivc)
        key = self.object_key(n, g, True) if a == "AES128" else self.key
        return iv + aes_cbc_encrypt(key, iv, data)

    def decrypt(self, n, g, data):
        a = self.alg
        if a == "ID":
            return data
        if a == "RC4":
            return rc4(self.object_key(n, g, False), data)
        key = self.object_key(n, g, True) if a == "AES128" else self.key
        return aes_cbc_decrypt(key, data[:16], data[16:])

    # --- document side
    def encrypt_dict(self, p_unsigned=False, length_entry=True, variant="plain"):
        """variant (V >= 4 only): how entries that do not matter for this V/R are spelled -
        len40 / len64: a top-level /Length (which only V 2 and 3 give a meaning to) of 40 / 64; nolen: none;
        alt: the crypt filter is not called StdCF, its /Length is given in bits, /EncryptMetadata is written out"""
        from .pdfwriter import Name
        cfname = "VerifCF" if variant == "alt" else "StdCF"
        d = {"Filter": Name("Standard"), "V": self.V, "R": self.R, "O": self.O, "U": self.U,
             "P": (self.P & 0xFFFFFFFF) if p_unsigned else self.P}
        if self.V in (2, 3) or (self.V == 1 and self.R == 3 and self.keylen != 40):
            if length_entry:
                d["Length"] = self.keylen
        if self.V >= 4:
            if self.cfm == "IdentityDefault":
                pass
            elif self.cfm == "Identity":
                d["StmF"] = Name("Identity")
                d["StrF"] = Name("Identity")
            else:
                nbytes = 32 if self.V == 5 else 16
                d["CF"] = {cfname: {"Type": Name("CryptFilter"), "CFM": Name(self.cfm), "AuthEvent": Name("DocOpen"),
                                    "Length": nbytes * 8 if variant == "alt" else nbytes}}
                d["StmF"] = Name(cfname)
                d["StrF"] = Name(cfname)
            if variant in ("len40", "len64"):
                d["Length"] = 40 if variant == "len40" else 64
            elif variant != "nolen":
                d["Length"] = self.keylen
            if not self.encrypt_metadata or variant == "alt":
                d["EncryptMetadata"] = bool(self.encrypt_metadata)
        if self.V < 4:
            # entries only V >= 4 gives a meaning to, written out all the same (they change nothing)
            if variant in ("emfalse", "emtrue"):
                d["EncryptMetadata"] = variant == "emtrue"
            elif variant == "cfnoise":
                d["CF"] = {"StdCF": {"Type": Name("CryptFilter"), "CFM": Name("V2"), "AuthEvent": Name("DocOpen"), "Length": 16}}
                d["StmF"] = Name("StdCF")
                d["StrF"] = Name("StdCF")
            elif variant == "len40" and self.V == 1:
                d["Length"] = 40
        if self.V == 5:
            d["OE"], d["UE"], d["Perms"] = self.OE, self.UE, self.Perms
        return d

    def transform_for(self, exempt=(), metadata=(), log=None):
        """-> callable for pdfwriter.build(transform_for=...).  exempt: objids written in clear (the Encrypt
        dictionary); metadata: objids of metadata streams (their data stays clear when EncryptMetadata is false,
        V>=4).  log: optional list receiving (n, g, kind, plain, cipher) for everything encrypted."""
        def tf(n, g):
            if n in exempt:
                return None

            def tr(kind, data):
                if kind == "stream" and n in metadata and self.V >= 4 and not self.encrypt_metadata:
                    return data
                c = self.encrypt(n, g, data)
                if log is not None:
                    log.append((n, g, kind, data, c))
                return c
            return tr
        return tf


# ------------------------------------------------------------------------------------------- self check
SAMPLE_PW = {
    "rc4-40.pdf": ("foo", "baz"), "rc4-128.pdf": ("foo", "baz"), "aes-128.pdf": ("foo", "baz"),
    "aes-128-m.pdf": ("foo", "baz"), "aes-256.pdf": ("foo", "baz"), "aes-256-m.pdf": ("foo", "baz"),
    "aes-256-r6.pdf": ("usersecret", "ownersecret"), "encrypted_doc_no_id.pdf": ("", None),
}
SAMPLES = "/repo/samples/encryption"


def raw_document(path_or_bytes):
    """pdfminer's parser with deciphering switched off: -> (doc, enc dict as plain values or None, id0)."""
    import io
    from pdfminer.pdfdocument import PDFDocument
    from pdfminer.pdfparser import PDFParser
    from pdfminer.pdftypes import dict_value, resolve1
    from pdfminer.psparser import PSLiteral

    class RawDoc(PDFDocument):
        def _initialize_password(self, password=""):
            assert self._parser is not None
            self._parser.fallback = False
            self.decipher = None

    fp = open(path_or_bytes, "rb") if isinstance(path_or_bytes, str) else io.BytesIO(path_or_bytes)
    doc = RawDoc(PDFParser(fp))
    if doc.encryption is None:
        return doc, None, b""

    def plain(v):
        v = resolve1(v)
        if isinstance(v, PSLiteral):
            return v.name
        if isinstance(v, dict):
            return {k: plain(x) for k, x in v.items()}
        if isinstance(v, list):
            return [plain(x) for x in v]
        return v

    ids, enc = doc.encryption
    enc = plain(dict_value(enc))
    id0 = bytes(ids[0]) if ids else b""
    return doc, enc, id0


def walk_plain(doc, root, decrypt=None, exempt_ids=()):
    """Canonical traversal from `root` following references: -> list of (path, kind, bytes) for every string
    and stream payload (raw, before filters).  decrypt(n, g, kind, data, attrs) is applied to the
    strings/streams of body objects (objects in object streams are never passed through it)."""
    from pdfminer.pdftypes import PDFObjRef, PDFStream
    out = []
    seen = set()

    def loc_of(objid):
        for x in doc.xrefs:
            try:
                return x.get_pos(objid)
            except KeyError:
                continue
        return None

    def rec(v, path, ctx):
        # ctx = (n, g) of the enclosing body object, or None (object stream content / trailer)
        if isinstance(v, PDFObjRef):
            if v.objid in seen:
                return
            seen.add(v.objid)
            pos = loc_of(v.objid)
            if pos is None:
                return
            strmid, _, genno = pos
            try:
                o = doc.getobj(v.objid)
            except Exception:
                return
            rec(o, path, None if (strmid is not None or v.objid in exempt_ids) else (v.objid, genno))
        elif isinstance(v, bytes):
            out.append((path, "string", decrypt(ctx[0], ctx[1], "string", v, None) if (decrypt and ctx and v) else v))
        elif isinstance(v, list):
            for i, x in enumerate(v):
                rec(x, path + "[%d]" % i, ctx)
        elif isinstance(v, dict):
            for k in sorted(v):
                if k in ("Parent", "P", "Prev"):
                    continue
                rec(v[k], path + "/" + k, ctx)
        elif isinstance(v, PDFStream):
            for k in sorted(v.attrs):
                if k in ("Length", "Parent"):
                    continue
                rec(v.attrs[k], path + "/" + k, ctx)
            raw = v.rawdata if v.rawdata is not None else v.data
            out.append((path + "<stream>", "stream",
                        decrypt(ctx[0], ctx[1], "stream", raw, v.attrs) if (decrypt and ctx) else raw))
    rec(root, "", None)
    return out


_checked = False


def self_check(force=False):
    """Round trip of every algorithm through this module's own reader side, then: decrypt the repository's
    encrypted samples with this module and compare every string/stream with base.pdf.  Any failure is a
    MachineryError (the reference itself is broken), never a verdict about pdfminer."""
    global _checked
    if _checked and not force:
        return
    import os
    # 1. own writer -> own reader
    lng = "a" + "\u00e9" * 70
    for rr in (5, 6):
        if prepare_password(rr, lng) != lng.encode("utf-8")[:127] or len(prepare_password(rr, lng)) != 127:
            raise MachineryError("reference encryptor: R%d password is not truncated to 127 BYTES of its UTF-8 encoding" % rr)
    if prepare_password(3, "B" * 33) != b"B" * 32 or prepare_password(3, "B" * 31) != b"B" * 31 + PAD[:1]:
        raise MachineryError("reference encryptor: R3 password is not padded/truncated to 32 bytes")
    assert rc4(b"Key", b"Plaintext").hex() == "bbf316e8d940af0ad3", "RC4 test vector"
    for (V, R, kl, cfm) in [(1, 2, 40, None), (2, 3, 40, None), (2, 3, 128, None), (4, 4, 128, "V2"), (4, 4, 128, "AESV2"),
                            (5, 5, 256, "AESV3"), (5, 6, 256, "AESV3")]:
        for em in (True, False):
            w = StdSec(V, R, kl, cfm, em, -1852, b"0123456789abcdef", "us\xe9r", "own" * 20, seed=3)
            plain = {"V": V, "R": R, "O": w.O, "U": w.U, "OE": w.OE, "UE": w.UE, "P": w.P, "Length": kl,
                     "EncryptMetadata": em}
            if V >= 4:
                plain.update({"StmF": "StdCF", "StrF": "StdCF", "CF": {"StdCF": {"CFM": cfm}}})
            for pw, ok in (("us\xe9r", True), ("own" * 20, True), ("nope", False), ("", False)):
                r = StdSec.from_dict(plain, b"0123456789abcdef", pw)
                if (r is not None) != ok or (ok and r.key != w.key):
                    raise MachineryError("reference encryptor: own round trip failed for V%d R%d %r pw=%r" % (V, R, cfm, pw))
            for data in (b"", b"x", b"0123456789abcdef", b"0123456789abcdefg"):
                if w.decrypt(7, 2, w.encrypt(7, 2, data)) != data:
                    raise MachineryError("reference encryptor: data round trip failed")
                if data and w.alg != "AES256" and w.encrypt(7, 2, data, iv=b"i" * 16) == w.encrypt(8, 2, data, iv=b"i" * 16):
                    raise MachineryError("reference encryptor: object number does not enter the key")
    # 2. the repository's samples
    if not os.path.isdir(SAMPLES):
        raise MachineryError("repository samples missing: " + SAMPLES)
    base_doc, _, _ = raw_document(os.path.join(SAMPLES, "base.pdf"))
    tr = base_doc.xrefs[0].get_trailer()
    base = walk_plain(base_doc, [tr["Root"], tr["Info"]])
    base_set = sorted((k, v) for (_, k, v) in base)
    n = 0
    for fn, (upw, opw) in sorted(SAMPLE_PW.items()):
        for pw in (upw, opw):
            if pw is None:
                continue
            doc, enc, id0 = raw_document(os.path.join(SAMPLES, fn))
            sec = StdSec.from_dict(enc, id0, pw)
            if sec is None:
                raise MachineryError("reference encryptor cannot authenticate %r on sample %s" % (pw, fn))
            if StdSec.from_dict(enc, id0, pw + "x") is not None:
                raise MachineryError("reference encryptor accepts a wrong password on sample %s" % fn)
            t = doc.xrefs[0].get_trailer()

            def dec(nn, g, kind, data, attrs, sec=sec):
                if kind == "stream" and attrs is not None and sec.V >= 4 and not sec.encrypt_metadata:
                    ty = attrs.get("Type")
                    if getattr(ty, "name", None) == "Metadata":
                        return data
                return sec.decrypt(nn, g, data)
            try:
                got = walk_plain(doc, [t["Root"], t.get("Info")], dec)
            except ValueError as e:
                raise MachineryError("reference decryption of sample %s failed: %s" % (fn, e))
            n += len(got)
            if fn == "encrypted_doc_no_id.pdf" or fn == "aes-256-r6.pdf":
                # not derived from base.pdf: require that every stream inflates / every string is text
                import zlib
                for (p, k, v) in got:
                    if k == "stream" and p.endswith("/Contents<stream>"):
                        try:
                            zlib.decompress(v)
                        except zlib.error:
                            if b"BT" not in v and b" re" not in v and b"Do" not in v:
                                raise MachineryError("reference decryption of %s: content stream is not plaintext" % fn)
                continue
            if sorted((k, v) for (_, k, v) in got) != base_set:
                raise MachineryError("reference decryption of sample %s with %r differs from base.pdf" % (fn, pw))
    _checked = True
    return n
