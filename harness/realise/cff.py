"""Compact Font Format blobs for the extended coverage behind C06 (CFF.tla): a builder that lays out a complete CFF file
around given charset / encoding bytes, and an independent reader written from Adobe Technical Note 5176 (used to
self-check the builder and to read the Type1C programs of the repository samples).  The list of standard strings is DATA
and is taken from pdfminer (CFFFont.STANDARD_STRINGS), see DESIGN.md 1.1."""
from __future__ import annotations

import struct

from ..tlc import MachineryError


# ------------------------------------------------------------------------------------------------ builder
def enc_int5(v):
    return b"\x1d" + struct.pack(">i", v)


def index(items, offsize=1):
    if not items:
        return b"\0\0"
    out = struct.pack(">H", len(items)) + bytes([offsize])
    pos = 1
    for it in list(items) + [b""]:
        out += pos.to_bytes(offsize, "big")
        pos += len(it)
    return out + b"".join(items)


def build(nglyphs, charset, encoding, strings=(b"custom391", b"custom392"), name=b"VerifCFF", offsize=1, gsubrs=(b"\x0b",)):
    """a complete CFF file: header, Name / Top DICT / String / Global Subr INDEX, then encoding, charset, CharStrings.
    charset / encoding: the raw bytes of those structures (or None: the Top DICT entry is left out = predefined 0)."""
    header = bytes([1, 0, 4, offsize])
    name_idx = index([name], offsize)
    string_idx = index(list(strings), offsize)
    gsubr_idx = index(list(gsubrs), offsize)
    charstrings = index([b"\x0e"] * nglyphs, offsize)          # endchar

    def top(enc_at, cs_at, chs_at):
        d = b""
        if cs_at is not None:
            d += enc_int5(cs_at) + b"\x0f"
        if enc_at is not None:
            d += enc_int5(enc_at) + b"\x10"
        return d + enc_int5(chs_at) + b"\x11"
    # offsets are written in the fixed 5-byte form, so the layout does not depend on their values
    dlen = len(top(0 if encoding is not None else None, 0 if charset is not None else None, 0))
    pos = len(header) + len(name_idx) + len(index([b"\0" * dlen], offsize)) + len(string_idx) + len(gsubr_idx)
    enc_at = pos if encoding is not None else None
    pos += len(encoding or b"")
    cs_at = pos if charset is not None else None
    pos += len(charset or b"")
    chs_at = pos
    dict_idx = index([top(enc_at, cs_at, chs_at)], offsize)
    return header + name_idx + dict_idx + string_idx + gsubr_idx + (encoding or b"") + (charset or b"") + charstrings


# ------------------------------------------------------------------------------------------------ reader (TN 5176)
def read_index(data, pos):
    """-> (items, position after the INDEX)"""
    n = struct.unpack(">H", data[pos:pos + 2])[0]
    if n == 0:
        return [], pos + 2
    osz = data[pos + 2]
    offs = [int.from_bytes(data[pos + 3 + i * osz:pos + 3 + (i + 1) * osz], "big") for i in range(n + 1)]
    base = pos + 3 + (n + 1) * osz - 1
    return [data[base + offs[i]:base + offs[i + 1]] for i in range(n)], base + offs[n]


NIB = "0123456789.EE?-"


def read_dict(data):
    """-> {operator (int, or (12, x)): [operands]}"""
    out = {}
    stack = []
    i = 0
    while i < len(data):
        b0 = data[i]
        if b0 == 12:
            out[(12, data[i + 1])] = stack
            stack = []
            i += 2
        elif b0 <= 21:
            out[b0] = stack
            stack = []
            i += 1
        elif b0 == 28:
            stack.append(struct.unpack(">h", data[i + 1:i + 3])[0])
            i += 3
        elif b0 == 29:
            stack.append(struct.unpack(">i", data[i + 1:i + 5])[0])
            i += 5
        elif b0 == 30:
            s = ""
            i += 1
            done = False
            while not done:
                for n in (data[i] >> 4, data[i] & 15):
                    if n == 15:
                        done = True
                        break
                    s += "E-" if n == 12 else NIB[n]
                i += 1
            stack.append(float(s))
        elif 32 <= b0 <= 246:
            stack.append(b0 - 139)
            i += 1
        elif 247 <= b0 <= 250:
            stack.append((b0 - 247) * 256 + data[i + 1] + 108)
            i += 2
        elif 251 <= b0 <= 254:
            stack.append(-(b0 - 251) * 256 - data[i + 1] - 108)
            i += 2
        else:
            raise ValueError("reserved DICT byte %d" % b0)
    return out


def read_charset(data, pos, nglyphs):
    """-> [SID of glyph 1..n-1] ; pos 0/1/2 = predefined charsets (returned as the string 'predefined:<id>')"""
    if pos in (0, 1, 2):
        return "predefined:%d" % pos
    fmt = data[pos]
    sids = []
    p = pos + 1
    if fmt == 0:
        for _ in range(nglyphs - 1):
            sids.append(struct.unpack(">H", data[p:p + 2])[0])
            p += 2
    elif fmt in (1, 2):
        w = fmt
        while len(sids) < nglyphs - 1:
            first = struct.unpack(">H", data[p:p + 2])[0]
            nleft = int.from_bytes(data[p + 2:p + 2 + w], "big")
            sids.extend(range(first, first + nleft + 1))
            p += 2 + w
        sids = sids[:nglyphs - 1]
    else:
        raise ValueError("charset format %d" % fmt)
    return sids


def read_encoding(data, pos):
    """-> {code: glyph} ; pos 0/1 = predefined encodings ('predefined:<id>')"""
    if pos in (0, 1):
        return "predefined:%d" % pos
    fmt = data[pos] & 0x7F
    out = {}
    p = pos + 2
    if fmt == 0:
        for g in range(1, data[pos + 1] + 1):
            out[data[p]] = g
            p += 1
    elif fmt == 1:
        g = 1
        for _ in range(data[pos + 1]):
            first, nleft = data[p], data[p + 1]
            for c in range(first, first + nleft + 1):
                out[c] = g
                g += 1
            p += 2
    else:
        raise ValueError("encoding format %d" % fmt)
    if data[pos] & 0x80:
        for _ in range(data[p]):
            code, sid = data[p + 1], struct.unpack(">H", data[p + 2:p + 4])[0]
            out.setdefault(code, ("sid", sid))
            p += 3
    return out


def parse(data):
    """-> dict(names, top, strings, nglyphs, charset, encoding) by TN 5176"""
    hdr = data[2]
    names, p = read_index(data, hdr)
    dicts, p = read_index(data, p)
    strings, p = read_index(data, p)
    _gsubrs, p = read_index(data, p)
    top = read_dict(dicts[0])
    chs, _ = read_index(data, top[17][0])
    n = len(chs)
    return {"names": names, "top": top, "strings": strings, "nglyphs": n,
            "charset": read_charset(data, top.get(15, [0])[0], n), "encoding": read_encoding(data, top.get(16, [0])[0])}


def sid_name(sid, strings, standard):
    return standard[sid] if sid < len(standard) else strings[sid - len(standard)]


def self_check():
    cs = b"\x01" + struct.pack(">HB", 1, 1) + struct.pack(">HB", 391, 0)            # glyphs 1,2 -> SID 1,2 ; glyph 3 -> 391
    enc = bytes([0, 3, 65, 66, 32])
    blob = build(4, cs, enc, offsize=2)
    got = parse(blob)
    if got["nglyphs"] != 4 or got["charset"] != [1, 2, 391] or got["encoding"] != {65: 1, 66: 2, 32: 3} \
            or got["strings"] != [b"custom391", b"custom392"] or got["names"] != [b"VerifCFF"]:
        raise MachineryError("CFF builder/reader self-check failed: %r" % (got,))
    if read_dict(bytes([139, 247, 0, 251, 0, 28, 255, 255, 29, 0, 1, 0, 0, 30, 0xe2, 0xa2, 0x5f, 5])) != {5: [0, 108, -108, -1, 65536, -2.25]}:
        raise MachineryError("CFF DICT reader self-check failed")
    if read_index(b"\0\0\xff", 0) != ([], 2) or read_index(index([b"a", b"", b"bc"], 3) + b"z", 0)[0] != [b"a", b"", b"bc"]:
        raise MachineryError("CFF INDEX self-check failed")
