"""Realisers for C17: documents with page-label number trees, outline hierarchies, named destinations, and text
strings in both encodings; plus the harness's own transcription of PDFDocEncoding (ISO 32000-1 Annex D.2).

Every builder returns (pdf bytes, meta).  variant 0 / 1 choose between direct and indirect nodes / values, the
two text-string encodings, and omitted defaults."""
from __future__ import annotations

from .pdfwriter import HexStr, Name, Ref, Revision, build

# ------------------------------------------------------------------------------------------------ PDFDocEncoding
_DOC_SPECIAL = {
    0x18: 0x02D8, 0x19: 0x02C7, 0x1A: 0x02C6, 0x1B: 0x02D9, 0x1C: 0x02DD, 0x1D: 0x02DB, 0x1E: 0x02DA, 0x1F: 0x02DC,
    0x80: 0x2022, 0x81: 0x2020, 0x82: 0x2021, 0x83: 0x2026, 0x84: 0x2014, 0x85: 0x2013, 0x86: 0x0192, 0x87: 0x2044,
    0x88: 0x2039, 0x89: 0x203A, 0x8A: 0x2212, 0x8B: 0x2030, 0x8C: 0x201E, 0x8D: 0x201C, 0x8E: 0x201D, 0x8F: 0x2018,
    0x90: 0x2019, 0x91: 0x201A, 0x92: 0x2122, 0x93: 0xFB01, 0x94: 0xFB02, 0x95: 0x0141, 0x96: 0x0152, 0x97: 0x0160,
    0x98: 0x0178, 0x99: 0x017D, 0x9A: 0x0131, 0x9B: 0x0142, 0x9C: 0x0153, 0x9D: 0x0161, 0x9E: 0x017E, 0xA0: 0x20AC,
}
_DOC_UNDEFINED = {0x7F, 0x9F, 0xAD}


def doc_defined(b):
    """Annex D.2 assigns a character to byte b (of the controls only HT, LF, CR)"""
    return b not in _DOC_UNDEFINED and (b >= 0x18 or b in (9, 10, 13))


def doc_iso(b):
    return _DOC_SPECIAL.get(b, b)


DOC_TABLE = [doc_iso(b) if doc_defined(b) else -1 for b in range(256)]     # -1: not defined by the standard


def self_check():
    """the transcription must agree with the platform where the platform knows the answer: 0x20-0x7E is ASCII,
    0xA1-0xFF (but 0xAD) is ISO 8859-1, the 0x80-0x9E block holds the characters cp1252 and mac_roman also have"""
    for b in range(0x20, 0x7F):
        if doc_iso(b) != ord(bytes([b]).decode("ascii")):
            return "ASCII range differs at 0x%02x" % b
    for b in range(0xA1, 0x100):
        if b != 0xAD and doc_iso(b) != ord(bytes([b]).decode("latin-1")):
            return "Latin-1 range differs at 0x%02x" % b
    both = set(bytes(range(0x80, 0x100)).decode("cp1252", "ignore")) | set(bytes(range(0x80, 0x100)).decode("mac_roman"))
    for b in range(0x80, 0x9F):
        if chr(doc_iso(b)) not in both and doc_iso(b) not in (0x2212, 0x0141, 0x0142, 0x017D, 0x017E):
            return "0x%02x -> U+%04X is in neither cp1252 nor mac_roman" % (b, doc_iso(b))
    if len(set(_DOC_SPECIAL.values())) != len(_DOC_SPECIAL):
        return "two bytes share a character"
    return None


def encode_text(s, utf16):
    """a text string for the Python string s (all characters must be encodable the chosen way)"""
    if utf16:
        return b"\xfe\xff" + s.encode("utf-16-be")
    inv = {doc_iso(b): b for b in range(256) if doc_defined(b)}
    return bytes(inv[ord(c)] for c in s)


# ------------------------------------------------------------------------------------------------ documents
class _Objs:
    def __init__(self, npages):
        self.objs = {}
        self.page_ids = []
        kids = []
        for i in range(npages):
            self.objs[3 + i] = {"Type": Name("Page"), "Parent": Ref(2), "MediaBox": [0, 0, 200, 200]}
            kids.append(Ref(3 + i))
            self.page_ids.append(3 + i)
        self.objs[2] = {"Type": Name("Pages"), "Kids": kids, "Count": npages}
        self.nxt = 3 + npages

    def new(self, v):
        k = self.nxt
        self.nxt += 1
        self.objs[k] = v
        return Ref(k)

    deep = frozenset()      # the entry classes written as indirect references (variant 2; see entry_classes)

    def ind(self, v, cls):
        """v as an indirect object when its entry class is switched on (ISO 32000-1 7.3.10: any object may be an
        indirect object; the expectation of the specification does not change)"""
        return self.new(v) if cls in self.deep else v

    def reserve(self):
        k = self.nxt
        self.nxt += 1
        return k

    def finish(self, catalog, variant, broken_root=None):
        """broken_root: the page tree cannot be walked, so create_pages falls back to scanning the cross-reference
        table for /Type /Page objects: "missing" (/Pages names an object the file does not have), "untyped" (the
        root has no /Type), "other-type" (the root is not of /Type /Pages)"""
        cat = {"Type": Name("Catalog"), "Pages": Ref(2)}
        cat.update(catalog)
        if broken_root == "missing":
            cat["Pages"] = Ref(self.nxt + 40)
        elif broken_root == "untyped":
            del self.objs[2]["Type"]
        elif broken_root == "other-type":
            self.objs[2]["Type"] = Name("Catalog")
        self.objs[1] = cat
        if variant in (0, 2):
            rev = Revision(dict(sorted(self.objs.items())), root=Ref(1))
        else:
            rev = Revision(dict(sorted(self.objs.items())), form="stream", objstm=sorted(self.objs), root=Ref(1))
        return build([rev])[0]


ENTRY_CLASSES = {
    "labels": ("S", "P", "St", "key", "arr", "lim", "P-empty"),   # /S /P /St values, /Nums keys, /Nums /Kids /Limits arrays, /Limits elements
    "numtree": ("S", "P", "key", "val", "arr", "lim"),      # + the label dictionaries
    "dests": ("key", "val", "arr", "lim", "D", "k-empty"),  # /Names keys and values, arrays, /Limits elements, /D of a dictionary value
    "outline": ("Title", "Count", "A", "AS", "AD", "T-empty"),   # /Title, /Count, the action dictionary, its /S and /D
}
# the "-empty" classes are not about indirectness but about the value classes of text strings: an empty string is a
# string (written as the literal (), as the hexadecimal <>, or as the bare byte order mark <FEFF>):
#   P-empty  an empty prefix is written out as /P instead of being left out
#   k-empty  the least key of the name tree (and the name of the /Dests entry spelled like it) is the empty string
#   T-empty  every third outline item has an empty /Title


def empty_text(n):
    """the n-th spelling of an empty text string"""
    return [b"", HexStr(b""), HexStr(b"\xfe\xff")][n % 3]


def entry_classes(kind, variant, mask):
    """variant 2 writes a subset of the entry classes as indirect references: bit n of mask switches class n on;
    mask -1 = all of them"""
    if variant != 2:
        return frozenset()
    cl = ENTRY_CLASSES[kind]
    return frozenset(c for n, c in enumerate(cl) if mask < 0 or (mask >> n) & 1)


def label_dict(style, prefix, st, variant, o=None):
    o = o or _Objs(0)
    d = {}
    if style != "none":
        d["S"] = o.ind(Name(style), "S")
    if prefix != "":
        d["P"] = o.ind(encode_text(prefix, utf16=(variant == 1)), "P")
    elif "P-empty" in o.deep:
        d["P"] = o.ind(empty_text(st), "P")
    if st != 1 or variant >= 1:
        d["St"] = o.ind(st, "St")
    return d


def labels_doc(vals, npages, variant, mask=-1, broken_root=None):
    """vals: [{start, style, prefix, st}] sorted.  variant 0: one root with /Nums; variant 1: the pairs spread over
    indirect leaf nodes (with /Limits) below a root with /Kids, the label dictionaries indirect; variant 2: as 1 and
    every entry (/S /P /St, the keys in /Nums, the /Nums, /Kids and /Limits arrays and their elements) indirect."""
    o = _Objs(npages)
    o.deep = entry_classes("labels", variant, mask)
    pairs = []
    for r in vals:
        d = label_dict(r["style"], r["prefix"], r["st"], variant, o)
        pairs.append((r["start"], o.new(d) if variant >= 1 else d))

    def nums(ps):
        arr = [x for (k, v) in ps for x in (o.ind(k, "key"), v)]
        return o.ind(arr, "arr")
    if variant == 0 or len(pairs) < 2:
        tree = {"Nums": nums(pairs)}
    else:
        kids = []
        for chunk in (pairs[:1], pairs[1:]):
            lim = o.ind([o.ind(chunk[0][0], "lim"), o.ind(chunk[-1][0], "lim")], "arr")
            kids.append(o.new({"Limits": lim, "Nums": nums(chunk)}))
        tree = {"Kids": o.ind(kids, "arr")}
    return o.finish({"PageLabels": tree if variant == 0 else o.new(tree)}, variant, broken_root), {"pages": o.page_ids, "deep": o.deep}


def _num_node(o, t, value_of, variant, root=False):
    d = {}
    if t["leaf"]:
        d["Nums"] = [x for k in t["keys"] for x in (o.ind(k, "key"), o.ind(value_of(k), "val"))]
        if variant == 1:
            d["Nums"] = o.new(d["Nums"])
        d["Nums"] = o.ind(d["Nums"], "arr") if variant == 2 else d["Nums"]
    else:
        kids = [_num_node(o, c, value_of, variant) for c in t["kids"]]
        d["Kids"] = o.ind([k if (variant == 1 and i % 2 == 1) else o.new(k) for i, k in enumerate(kids)], "arr")
    if not root:
        ks = keys_of(t)
        d["Limits"] = o.ind([o.ind(ks[0], "lim"), o.ind(ks[-1], "lim")], "arr")
    return d


def keys_of(t):
    if t["leaf"]:
        return list(t["keys"])
    out = []
    for c in t["kids"]:
        out += keys_of(c)
    return out


def numtree_doc(tree, npages, variant, mask=-1):
    """a /PageLabels number tree of the given shape; key k labels pages from index k with prefix "k<k>-" in
    decimal (the tree's keys are used as page indices as they are; NKeys <= npages)"""
    o = _Objs(npages)
    o.deep = entry_classes("numtree", variant, mask)
    root = _num_node(o, tree, lambda k: {"S": o.ind(Name("D"), "S"), "P": o.ind(b"k%d-" % k, "P")}, variant, root=True)
    return o.finish({"PageLabels": o.new(root) if variant >= 1 else root}, variant), {"pages": o.page_ids, "deep": o.deep}


KEY_BYTES = {1: b"A", 2: b"Aa", 3: b"B", 4: b"Ba", 5: b"C", 6: b"a", 7: b"aa", 8: b"b"}      # ascending in byte order


def key_bytes(k, deep):
    return b"" if (k == 1 and "k-empty" in deep) else KEY_BYTES[k]


def _name_node(o, t, value_of, variant, root=False):
    KEY_BYTES = {k: key_bytes(k, o.deep) for k in globals()["KEY_BYTES"]}
    d = {}
    if t["leaf"]:
        d["Names"] = [x for k in t["keys"] for x in (o.ind(HexStr(b"") if (KEY_BYTES[k] == b"" and o.nxt % 2) else KEY_BYTES[k], "key"), o.ind(value_of(k), "val"))]
        if variant == 1:
            d["Names"] = o.new(d["Names"])
        d["Names"] = o.ind(d["Names"], "arr") if variant == 2 else d["Names"]
    else:
        kids = [_name_node(o, c, value_of, variant) for c in t["kids"]]
        d["Kids"] = o.ind([k if (variant == 1 and i % 2 == 1) else o.new(k) for i, k in enumerate(kids)], "arr")
    if not root:
        ks = keys_of(t)
        d["Limits"] = o.ind([o.ind(KEY_BYTES[ks[0]], "lim"), o.ind(KEY_BYTES[ks[-1]], "lim")], "arr")
    return d


def dests_doc(tree, hastree, dictkeys, hasdict, variant, nkeys=8, mask=-1):
    """named destinations: the name tree /Names /Dests (string keys KEY_BYTES[k]) and the PDF 1.1 /Dests dictionary
    (name keys spelled like the strings).  The destination of key k found in the tree shows page k, the one
    found in the dictionary page nkeys + k."""
    o = _Objs(2 * nkeys + 1)
    o.deep = entry_classes("dests", variant, mask)

    def tree_value(k):
        dest = [Ref(o.page_ids[k]), Name("Fit")]
        return {"D": o.ind(dest, "D")} if (variant >= 1 and k % 2 == 0) else dest

    cat = {}
    if hastree:
        root = _name_node(o, tree, tree_value, variant, root=True)
        names = {"Dests": o.new(root)}
        cat["Names"] = o.new(names) if variant >= 1 else names
    if hasdict:
        d = {key_bytes(k, o.deep).decode(): o.ind([Ref(o.page_ids[nkeys + k]), Name("XYZ"), 0, 0, 0], "val") for k in sorted(dictkeys)}
        cat["Dests"] = o.new(d) if variant >= 1 else d
    return o.finish(cat, variant), {"pages": o.page_ids, "nkeys": nkeys, "deep": o.deep, "keys": {k: key_bytes(k, o.deep) for k in KEY_BYTES}}


TITLE_EXTRA = ["", "•", "Ł", "€"]      # characters PDFDocEncoding has outside Latin-1


def outline_title(i, variant, deep=frozenset()):
    if "T-empty" in deep and i % 3 == 1:
        return ""
    return "T%d%s" % (i, TITLE_EXTRA[i % 4] if variant >= 1 else "")


def title_value(i, variant, deep):
    t = outline_title(i, variant, deep)
    return empty_text(i // 3) if t == "" else encode_text(t, utf16=(variant >= 1 and i % 2 == 0))


def outline_doc(n, lev, tgt, variant, mask=-1):
    """an outline hierarchy with the preorder level sequence lev (1-based list) and targets tgt"""
    o = _Objs(max(1, n))
    o.deep = entry_classes("outline", variant, mask)
    root_id = o.reserve()
    ids = [None] + [o.reserve() for _ in range(n)]
    levs = [0] + list(lev)

    def first(i):
        return i + 1 if i < n and levs[i + 1] == levs[i] + 1 else 0

    def nxt(i):
        for j in range(i + 1, n + 1):
            if levs[j] < levs[i]:
                return 0
            if levs[j] == levs[i]:
                return j
        return 0

    def children(i):
        c = first(i)
        out = []
        while c:
            out.append(c)
            c = nxt(c)
        return out

    def parent(i):
        for j in range(i - 1, 0, -1):
            if levs[j] == levs[i] - 1:
                return j
        return 0

    prev = {}
    for i in range(1, n + 1):
        x = nxt(i)
        if x:
            prev[x] = i
    for i in range(0, n + 1):
        ch = children(i)
        d = {"Type": Name("Outlines")} if i == 0 else {
            "Title": o.ind(title_value(i, variant, o.deep), "Title"),
            "Parent": Ref(ids[parent(i)] if parent(i) else root_id)}
        if ch:
            d["First"] = Ref(ids[ch[0]])
            d["Last"] = Ref(ids[ch[-1]])
            d["Count"] = o.ind(len(ch), "Count")
        if i:
            if nxt(i):
                d["Next"] = Ref(ids[nxt(i)])
            if i in prev:
                d["Prev"] = Ref(ids[prev[i]])
            dest = [Ref(o.page_ids[0]), Name("XYZ"), 0, i, 0]
            if tgt[i - 1] == "Dest":
                d["Dest"] = dest if variant == 0 else o.new(dest)
            elif tgt[i - 1] == "A":
                act = {"S": o.ind(Name("GoTo"), "AS"), "D": o.ind(dest, "AD")}
                d["A"] = o.ind(act, "A")
        o.objs[root_id if i == 0 else ids[i]] = d
    return o.finish({"Outlines": Ref(root_id)}, variant), {"ids": ids, "deep": o.deep}


# ------------------------------------------------------------------------------------------------ dumpoutline cases
def dumpoutline_doc(dest, action, nv, npages=2):
    """A document for one terminal state of specs/nav/DumpPdf.tla: outline item 1 ("One") has the /Dest and /A given
    by the value records `dest` and `action`; the name they may mention ("nm", as string and as name object) stands
    for `nv`; item 2 ("Two") simply shows the last page, so that a run that is cut short at item 1 is visible."""
    o = _Objs(npages)
    root_id, one, two = o.reserve(), o.reserve(), o.reserve()

    def value(v):
        k = v["k"]
        if k == "none":
            return None
        if k == "arr":
            pg = v["pg"]
            first = Ref(o.page_ids[pg - 1]) if pg >= 1 else Ref(2) if pg == -1 else 0
            return [first, Name("XYZ"), 0, 0, 0]
        if k == "str":
            return b"nm"
        if k == "lit":
            return Name("nm")
        if k == "dict":
            return {"D": value(v["d"])} if v["d"]["k"] != "noD" else {"Other": 1}
        if k == "ref":
            return o.new(value(v["v"]))
        if k == "act":
            d = {"S": Name(v["s"])}
            if v["d"]["k"] != "none":
                d["D"] = value(v["d"])
            if v["s"] == "URI":
                d["URI"] = b"http://example.invalid/"
            return d
        raise ValueError(v)

    item = {"Title": b"One", "Parent": Ref(root_id), "Next": Ref(two)}
    if dest["k"] != "none":
        item["Dest"] = value(dest)
    if action["k"] != "none":
        item["A"] = value(action)
    o.objs[root_id] = {"Type": Name("Outlines"), "First": Ref(one), "Last": Ref(two), "Count": 2}
    o.objs[one] = item
    o.objs[two] = {"Title": b"Two", "Parent": Ref(root_id), "Prev": Ref(one), "Dest": [Ref(o.page_ids[-1]), Name("Fit")]}
    cat = {"Outlines": Ref(root_id)}
    names = [b"aa", [Ref(o.page_ids[0]), Name("Fit")]]
    dests = {"aa": [Ref(o.page_ids[0]), Name("Fit")]}
    if nv["k"] != "absent":
        names += [b"nm", value(nv)]
        dests["nm"] = value(nv)
    names += [b"zz", [Ref(o.page_ids[0]), Name("Fit")]]
    cat["Names"] = {"Dests": o.new({"Names": names})}
    cat["Dests"] = dests
    return o.finish(cat, 0)


def objects_doc(secs, objs, variant=0):
    """A document for the dumpallobjs loop of specs/nav/DumpXml.tla: test object i of the model is object 10 + i of
    the file; secs (newest first) say which test objects each cross-reference section lists.  The oldest section
    also holds the catalog and one page.  -> (pdf bytes, build(object record) hook is the caller's)"""
    from .pdfwriter import Raw
    revs = []
    order = list(reversed(secs))            # oldest first
    for n, sec in enumerate(order):
        body = {}
        if n == 0:
            body[1] = {"Type": Name("Catalog"), "Pages": Ref(2)}
            body[2] = {"Type": Name("Pages"), "Kids": [Ref(3)], "Count": 1}
            body[3] = {"Type": Name("Page"), "Parent": Ref(2), "MediaBox": [0, 0, 10, 10]}
        else:
            body[3] = {"Type": Name("Page"), "Parent": Ref(2), "MediaBox": [0, 0, 10 + n, 10]}
        for i in sec["ids"]:
            body[10 + i] = objs[i - 1]
        revs.append(Revision(dict(sorted(body.items())), root=Ref(1)))
    return build(revs)[0]
