"""Realiser for C12 (specs/purity/Purity.tla): the adversarially sharing document pool.

Every document of the pool has the SAME object numbers, the same font resource names (/F1 -> object 5, /F2 -> object 6,
/F3 -> object 18; the Type0 fonts 6 and 18 share the descendant CIDFont dictionary, object 9), the same BaseFont names, the same base encoding (/WinAnsiEncoding), the same CIDSystemInfo (Adobe-Japan1), the same
colour-space resource name (/CS0) and the same page texts (character codes); they DIFFER only in what those shared
things mean:

  dA   F1: /Encoding /WinAnsiEncoding (the shared table itself), Widths 500 600      F2: /Encoding /H   DW 1000   CS0: 3 components
       dA is written in TWO revisions: revision 1 packs objects 6 and 18 into an object stream (18 there = a copy of 6, with the
       ToUnicode); revision 2 redefines 18.  F2 alone carries a ToUnicode (CIDs of CODE1, CODE2 -> "T", "U"); F3 is F2 without it
  dB   F1: BaseEncoding WinAnsi + Differences [66 /g1234 65 /Omega] (the array STARTS with a glyph name that has no Unicode
       value: code 66 is removed from the font's table and shows as (cid:66)),  Widths 700 600      F2: /Encoding /V   (vertical) CS0: 1 component
  dC   F1: /WinAnsiEncoding + ToUnicode (66 -> "Y", `/H usecmap`), Widths 500 800    F2: /Encoding /H   DW 400    CS0: not defined
       dC is RC4-encrypted with an empty user password (decipher_all runs on every parsed object)

page 1 lists F1 F2 and shows <41 42> with F1, CODE1 CODE2 with F2; page 2 lists F1 F3 and shows <42 41> with F1,
CODE1 CODE2 with F3.  Page 2 of every document also paints an inline image; page 1 of dB also shows a 3 x 3 grid of
identical one-glyph text boxes at pairwise equal distances, and defines and paints a form /Fm1 (object 20).  Page 2 of dB has
an EMPTY /Resources dictionary yet says /CS0 cs, /F1 Tf and /Fm1 Do: those names are undefined there.  The two pages of dC
share one indirect /Contents array (two streams), one inherited indirect /Resources, an indirect /Font dictionary and /Fm1.
The tables of the model (what WinAnsi gives for 0x41/0x42, which CID H and V give for CODE1/CODE2, what
to-unicode-Adobe-Japan1 gives for those CIDs) are constants read from the pdfminer package at run time.
"""
from __future__ import annotations

from . import encryptor as E
from .pdfwriter import HexStr, Name, Ref, Revision, Stream, build
from .fontpdf import fontfile_stream, tounicode_cmap, type1_header
from ..tlc import MachineryError

DOCS = ("dA", "dB", "dC")
CODE1 = b"\x21\x22"      # H -> CID 634, V -> CID 7887 (vertical variant)
CODE2 = b"\x30\x21"      # H and V -> CID 1125
C1, C2 = 0x41, 0x42      # the two single-byte codes shown with F1
CID_H1, CID_2 = 634, 1125   # H.decode(CODE1), H.decode(CODE2) = V.decode(CODE2); token_table() checks them

WIDTHS = {"dA": (500, 600), "dB": (700, 600), "dC": (550, 800)}
CMAPNAME = {"dA": "H", "dB": "V", "dC": "H"}
DW = {"dA": 1000, "dB": 1000, "dC": 400}
CSN = {"dA": 3, "dB": 1, "dC": 0}


def objects(d):
    w1, w2 = WIDTHS[d]
    objs = {}
    objs[1] = {"Type": Name("Catalog"), "Pages": Ref(2)}
    objs[2] = {"Type": Name("Pages"), "Kids": [Ref(3), Ref(4)], "Count": 2, "MediaBox": [0, 0, 300, 800]}
    res1 = {"Font": {"F1": Ref(5), "F2": Ref(6)}}
    res2 = {"Font": {"F1": Ref(5), "F3": Ref(18)}}
    cs = {"CS0": [Name("ICCBased"), Ref(16)]} if CSN[d] else None
    col = b"0.25 0.5 0.75 sc" if CSN[d] == 3 else b"0.25 sc"
    if cs:
        res1["ColorSpace"] = cs
        res2["ColorSpace"] = dict(cs)
    if d == "dA":
        # HasDirect: the /Font dictionaries mix indirect and direct entries - page 1: /F1 5 0 R, then the DIRECT /F4, then /F2;
        # page 2: the direct /F4 first.  /F4 is /F1's font with other widths.
        f4 = {"Type": Name("Font"), "Subtype": Name("TrueType"), "BaseFont": Name("VerifSans"), "FirstChar": C1, "LastChar": C2,
              "Widths": [900, 300], "FontDescriptor": Ref(10), "Encoding": Name("WinAnsiEncoding")}
        res1["Font"] = {"F1": Ref(5), "F4": f4, "F2": Ref(6)}
        res2["Font"] = {"F4": dict(f4), "F1": Ref(5), "F3": Ref(18)}
    if d == "dB":
        # page 1 defines (and paints) a form /Fm1; page 2 has an EMPTY /Resources dictionary
        res1["XObject"] = {"Fm1": Ref(20)}
        res2 = {}
    objs[3] = {"Type": Name("Page"), "Parent": Ref(2), "Resources": res1, "Contents": Ref(7)}
    objs[4] = {"Type": Name("Page"), "Parent": Ref(2), "Resources": res2, "Contents": Ref(8)}
    f1 = {"Type": Name("Font"), "Subtype": Name("TrueType"), "BaseFont": Name("VerifSans"), "FirstChar": C1, "LastChar": C2,
          "Widths": Ref(14), "FontDescriptor": Ref(10)}
    if d == "dB":
        f1["Encoding"] = Ref(13)
    else:
        f1["Encoding"] = Name("WinAnsiEncoding")
    if d == "dC":
        # HasBuiltin: a Type 1 font WITHOUT /Encoding; its embedded program (object 23) says StandardEncoding def, dup 65 /Delta put
        f1["ToUnicode"] = Ref(11)
        f1["Subtype"] = Name("Type1")
        del f1["Encoding"]
    objs[5] = f1
    objs[6] = {"Type": Name("Font"), "Subtype": Name("Type0"), "BaseFont": Name("VerifMincho"),
               "Encoding": Name(CMAPNAME[d]), "DescendantFonts": [Ref(9)]}
    objs[18] = dict(objs[6])
    if d == "dA":
        objs[6]["ToUnicode"] = Ref(19)
    two = (CODE1 + CODE2).hex().encode()
    grid = b""
    if d == "dB":
        # HasTie: nine identical one-glyph boxes at pairwise equal distances (the grouping order needs a tie-break)
        grid = b" /F1 10 Tf " + b" ".join(b"1 0 0 1 %d %d Tm <42> Tj" % (60 + 60 * j, 400 - 60 * i)
                                          for i in range(3) for j in range(3))
    direct = b" /F4 10 Tf 1 0 0 1 50 500 Tm <4142> Tj" if d == "dA" else b""
    objs[7] = Stream({}, b"/CS0 cs " + col + b" BT /F1 10 Tf 1 0 0 1 50 700 Tm <4142> Tj /F2 10 Tf 1 0 0 1 50 600 Tm <"
                     + two + b"> Tj" + direct + grid + b" ET" + (b" /Fm1 Do" if d == "dB" else b""))
    # HasInline: page 2 of every document carries an inline image
    if d == "dB":
        # the names /CS0 /F1 /Fm1 are NOT defined on this page (empty /Resources): default colour space, default font, no form
        objs[8] = Stream({}, b"q 20 0 0 20 200 700 cm BI /W 1 /H 1 /BPC 8 /CS /G /F /AHx ID 7f> EI Q\n/CS0 cs " + col
                         + b" BT /F1 10 Tf 1 0 0 1 50 700 Tm <4241> Tj ET /Fm1 Do")
    else:
        objs[8] = Stream({}, b"q 20 0 0 20 200 700 cm BI /W 1 /H 1 /BPC 8 /CS /G /F /AHx ID 7f> EI Q\n/CS0 cs " + col
                         + b" BT /F1 10 Tf 1 0 0 1 50 700 Tm <4241> Tj /F3 10 Tf 1 0 0 1 50 600 Tm <" + two + b"> Tj" + direct + b" ET")
    cid = {"Type": Name("Font"), "Subtype": Name("CIDFontType0"), "BaseFont": Name("VerifMincho"),
           "CIDSystemInfo": {"Registry": b"Adobe", "Ordering": b"Japan1", "Supplement": 2},
           "FontDescriptor": Ref(12), "DW": DW[d]}
    if d == "dB":
        cid["DW2"] = [880, -1000]
        cid["W2"] = [7887, [-500, 500, 880]]
    elif d == "dA":
        cid["W"] = [634, [Ref(15), 1000]]
    else:
        # IndirectW: as in dA the width of CID 634 is the indirect element 15 0 R - whose value differs from dA's
        cid["W"] = [634, [Ref(15)]]
    objs[9] = cid
    objs[10] = {"Type": Name("FontDescriptor"), "FontName": Name("VerifSans"), "Flags": 32, "FontBBox": [0, -200, 1000, 800],
                "ItalicAngle": 0, "Ascent": 800, "Descent": -200, "CapHeight": 700, "StemV": 80, "MissingWidth": 333}
    objs[23] = Stream({}, b"% unused in this document\n")
    if d == "dC":
        objs[10]["FontFile"] = Ref(23)
        objs[23] = fontfile_stream(type1_header([(C1, "Delta")], fontname="VerifSans", standard=True))
    if d == "dC":
        objs[11] = Stream({}, tounicode_cmap([("bfchar", [(C2, "Y")])], usecmap="H"))
    else:
        objs[11] = Stream({}, b"% unused in this document\n")
    objs[12] = {"Type": Name("FontDescriptor"), "FontName": Name("VerifMincho"), "Flags": 4, "FontBBox": [0, -120, 1000, 880],
                "ItalicAngle": 0, "Ascent": 880, "Descent": -120, "CapHeight": 700, "StemV": 80}
    if d == "dB":
        objs[13] = {"Type": Name("Encoding"), "BaseEncoding": Name("WinAnsiEncoding"), "Differences": [C2, Name("g1234"), C1, Name("Omega")]}
    else:
        objs[13] = {"Type": Name("Encoding"), "BaseEncoding": Name("WinAnsiEncoding")}
    objs[14] = [Ref(15), w2]
    objs[15] = w1
    objs[16] = Stream({"N": max(CSN[d], 1)}, b"\0" * 8)
    objs[17] = {"Unused": True}
    objs[21] = [Ref(7)]
    objs[22] = {"F1": Ref(5)}
    if d == "dC":
        # SharedPages: the two pages of dC share every indirect object the interpreter walks - ONE indirect /Contents array of
        # two streams, ONE indirect /Resources dictionary inherited from the /Pages node, an indirect /Font dictionary, and
        # the form /Fm1; so both pages list F1 F2 F3 and show the same codes
        objs[2]["Resources"] = Ref(17)
        objs[17] = {"Font": Ref(22), "XObject": {"Fm1": Ref(20)}}
        objs[22] = {"F1": Ref(5), "F2": Ref(6), "F3": Ref(18)}
        objs[21] = [Ref(7), Ref(8)]
        objs[3] = {"Type": Name("Page"), "Parent": Ref(2), "Contents": Ref(21)}
        objs[4] = {"Type": Name("Page"), "Parent": Ref(2), "Contents": Ref(21)}
        # (the inline image sits in the FIRST stream: pdfminer loses the operator after EI when the image is in a later
        # stream of a /Contents array - deterministic, a matter for C18, kept out of this pool)
        objs[7] = Stream({}, b"q 20 0 0 20 200 700 cm BI /W 1 /H 1 /BPC 8 /CS /G /F /AHx ID 7f> EI Q\n/CS0 cs " + col
                         + b" BT /F1 10 Tf 1 0 0 1 50 700 Tm <4142> Tj /F2 10 Tf 1 0 0 1 50 600 Tm <" + two + b"> Tj ET")
        objs[8] = Stream({}, b"BT /F3 10 Tf 1 0 0 1 50 500 Tm <" + two + b"> Tj ET /Fm1 Do")
    # a form without /Resources of its own (it uses the page's): one glyph with the page's /F1
    objs[20] = Stream({"Type": Name("XObject"), "Subtype": Name("Form"), "BBox": [0, 0, 300, 800]},
                      b"BT /F1 10 Tf 1 0 0 1 200 300 Tm <41> Tj ET")
    objs[24] = Stream({}, b"% unused in this document\n")
    if d == "dB":
        # FormCycle: /Fm1 (object 20) paints /Fm2 (object 24); /Fm2 paints /Fm1 again AND itself.  Each paints one glyph.
        fres = {"Font": {"F1": Ref(5)}, "XObject": {"Fm1": Ref(20), "Fm2": Ref(24)}}
        objs[20] = Stream({"Type": Name("XObject"), "Subtype": Name("Form"), "BBox": [0, 0, 300, 800], "Resources": fres},
                          b"BT /F1 10 Tf 1 0 0 1 200 300 Tm <41> Tj ET /Fm2 Do")
        objs[24] = Stream({"Type": Name("XObject"), "Subtype": Name("Form"), "BBox": [0, 0, 300, 800], "Resources": dict(fres)},
                          b"BT /F1 10 Tf 1 0 0 1 200 250 Tm <41> Tj ET /Fm1 Do /Fm2 Do")
    if d == "dA":
        objs[19] = Stream({}, tounicode_cmap([("bfchar", [(CID_H1, "T"), (CID_2, "U")])], codelen=2))
    else:
        objs[19] = Stream({}, b"% unused in this document\n")
    return objs


def build_doc(d):
    objs = dict(sorted(objects(d).items()))
    if d == "dA":
        # two revisions: revision 1 (cross-reference stream) packs the Type0 fonts 6 and 18 into one object stream, and
        # there object 18 still carries F2's /ToUnicode; revision 2 (classic table) redefines object 18 directly
        old = dict(objs)
        old[18] = dict(objs[6])
        if old[18] == objs[18]:
            raise MachineryError("C12 pool: the stale and the current object 18 of dA do not differ")
        return build([Revision(old, form="stream", objstm=[6, 18], root=Ref(1)), Revision({18: objs[18]}, form="table")])[0]
    if d != "dC":
        return build([Revision(objs, form="table", root=Ref(1))])[0]
    id0 = E.det_bytes(16, "c12-id0")
    sec = E.StdSec(2, 3, 128, None, True, -4, id0, "", None, seed=12)
    te = {"ID": [HexStr(id0), HexStr(id0)], "Encrypt": sec.encrypt_dict()}
    return build([Revision(objs, form="table", root=Ref(1), trailer_extra=te)], transform_for=sec.transform_for())[0]


def pool():
    """-> {doc name: bytes}; self-check: the three files have the same object numbers and differ in bytes"""
    out = {d: build_doc(d) for d in DOCS}
    if len(set(out.values())) != len(DOCS):
        raise MachineryError("C12 pool: two documents of the pool are byte-identical")
    keys = {d: sorted(objects(d)) for d in DOCS}
    if len({tuple(v) for v in keys.values()}) != 1:
        raise MachineryError("C12 pool: the documents do not share their object numbers")
    return out


def token_table(part):
    """Concrete strings of the model's text tokens, read from the library's tables (constants of the model).
    part 'h': the encoding tokens and the horizontal unicode map; part 'v': the vertical unicode map.  The two parts are
    asked of two different fresh processes (a process must not be able to confuse the two writing modes).
    Self-checks the assumptions the model makes about the chosen codes."""
    from pdfminer.cmapdb import CMapDB
    from pdfminer.encodingdb import EncodingDB, name2unicode
    H, V = CMapDB.get_cmap("H"), CMapDB.get_cmap("V")
    h1, h2 = list(H.decode(CODE1 + CODE2))
    v1, v2 = list(V.decode(CODE1 + CODE2))
    if not (h2 == v2 and h1 != v1 and h1 == CID_H1 and h2 == CID_2 and V.is_vertical() and not H.is_vertical()):
        raise MachineryError("C12 pool: the chosen two-byte codes no longer behave as the model assumes under H / V")
    if part == "v":
        uv = CMapDB.get_unicode_map("Adobe-Japan1", True)
        return {"J11v": uv.get_unichr(h1), "J12v": uv.get_unichr(h2), "J21v": uv.get_unichr(v1)}
    uh = CMapDB.get_unicode_map("Adobe-Japan1", False)
    win = EncodingDB.encodings["WinAnsiEncoding"]
    return {"A": win[C1], "B": win[C2], "Omega": name2unicode("Omega"), "Y": "Y", "T": "T", "U": "U", "Delta": name2unicode("Delta"), "cid?": "(cid:%d)" % C2,
            "J11h": uh.get_unichr(h1), "J12h": uh.get_unichr(h2), "J21h": uh.get_unichr(v1)}


def merge_tokens(h, v):
    tab = dict(h)
    tab.update(v)
    if tab["J21h"] == tab["J21v"]:
        raise MachineryError("C12 pool: horizontal and vertical unicode maps agree on the vertical variant CID")
    return tab
