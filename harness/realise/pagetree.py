"""Realiser for C04: turns a document graph of specs/pages/PageTree.tla into a real PDF file.

A graph is a list of node records {kind, own, nk, kids} (label = index + 1, catalog /Pages -> label 1).
The value an attribute has when it is written in node x is unique to x ("source" x), so that the source of an
inherited value can be read back from the concrete value pdfminer reports:
  Resources  a font dictionary whose /F1 is a standard-14 font chosen by the source
  MediaBox   a box of the PageGeom.tla domain (lower-left (x,y), size (w,h), in units of SCALE points)
  CropBox    a box chosen by the source
  Rotate     a raw /Rotate value of the PageGeom.tla domain with a residue mod 360 chosen by the source
Attributes that are not in play in the configuration are written on every page itself (Resources, MediaBox,
Rotate) or left out (CropBox).  Each page shows one marker glyph (the letter of its label) at a known point.

blank: {label: "none" | "empty-array" | "empty-stream"} - pages without content (no marker glyph).
variant 0: attribute values, /Kids arrays direct; object numbers ascending with the labels; classic xref table.
variant 1: attribute values (and some of the numbers inside the boxes) and /Kids arrays indirect; object
           numbers descending with the labels; cross-reference stream with the dictionaries in an object stream.
"""
from __future__ import annotations

from .pdfwriter import Name, Ref, Revision, Stream, build, type1_font

SCALE = 100
CAT = -1
INHERITABLE = ("Resources", "MediaBox", "CropBox", "Rotate")
LETTER = (0.0, 0.0, 612.0, 792.0)

FONT_TABLE = ["Times-BoldItalic", "Helvetica", "Courier", "Times-Roman", "Helvetica-Bold", "Courier-Bold", "Times-Bold",
              "Helvetica-Oblique", "Courier-Oblique", "Times-Italic"]
# raw /Rotate values with pairwise different residues mod 360 (all members of RotatesSmall in MC_PageGeom.tla)
ROT_TABLE = [91, 90, 180, -90, 45, 361, -361]
# (x, y, w, h) in units: members of XsSmall x YsSmall x {2,3} x {2,5}
BOX_TABLE = [(0, 0, 2, 5), (-1, -2, 3, 2), (2, 1, 2, 2), (0, 1, 3, 5), (-1, 0, 2, 5), (2, -2, 3, 5), (0, -2, 2, 2),
             (2, 0, 3, 2), (-1, 1, 3, 5), (0, 0, 3, 2)]
MARK_TABLE = [(1, 1), (0, 2)]


def slot(src, shift, size):
    """index into a value table for source `src` (CAT or a label >= 1)"""
    base = 0 if src == CAT else src
    return (base + shift) % size


class Values:
    """the concrete value of attribute a written at source src, and the way back"""

    def __init__(self, n, shift=0, rotate_in_play=True):
        self.n = n
        self.shift = shift
        if n + 1 > len(BOX_TABLE) or n + 1 > len(FONT_TABLE):
            raise ValueError("too many nodes for the value tables: %d" % n)
        self.rot_ok = n + 1 <= len(ROT_TABLE)
        if rotate_in_play and not self.rot_ok:
            raise ValueError("Rotate in play with more than %d nodes" % (len(ROT_TABLE) - 1))

    def font(self, src):
        return FONT_TABLE[slot(src, self.shift, len(FONT_TABLE))]

    def rotate(self, src):
        return ROT_TABLE[slot(src, self.shift, len(ROT_TABLE))]

    def box_units(self, src):
        x, y, w, h = BOX_TABLE[slot(src, self.shift, len(BOX_TABLE))]
        return (x, y, x + w, y + h)

    def mediabox(self, src):
        return tuple(SCALE * v for v in self.box_units(src))

    def cropbox(self, src):
        k = slot(src, self.shift, 16)
        return (10 + k, 20 + 2 * k, 110 + 3 * k, 220 + 5 * k)

    def mark_units(self, label, box_src):
        """absolute position (units) of the marker of page `label` inside the MediaBox of source box_src"""
        x, y, _, _ = self.box_units(box_src)
        dx, dy = MARK_TABLE[(label + self.shift) % len(MARK_TABLE)]
        return (x + dx, y + dy)

    def sources(self):
        return [CAT] + list(range(1, self.n + 1))

    # ---- the way back: from what pdfminer reports to the source
    def src_of_font(self, name):
        for s in self.sources():
            if self.font(s) == name:
                return s
        return ("?", name)

    def src_of_mediabox(self, box):
        for s in self.sources():
            if tuple(float(v) for v in self.mediabox(s)) == tuple(box):
                return s
        return ("?", tuple(box))

    def src_of_cropbox(self, box):
        for s in self.sources():
            if tuple(float(v) for v in self.cropbox(s)) == tuple(box):
                return s
        return ("?", tuple(box))

    def src_of_rotate(self, rot, rotate_of_raw):
        """rot: what PDFPage.rotate reports; rotate_of_raw: raw -> normalised value according to the model"""
        if rot == 0:
            return 0
        for s in self.sources():
            if rotate_of_raw(self.rotate(s)) == rot:
                return s
        return ("?", rot)


def realise(g, cat, attrs, variant=0, shift=0, mark_box_src=None, labels=False, blank=None):
    """-> (pdf bytes, meta).   g: list of node dicts; cat: attribute kinds written in the catalog;
    attrs: attribute kinds in play.   meta: objid_of[label], label_of[objid], values, own[label] (set of the
    inheritable keys written in the node's own dictionary)."""
    n = len(g)
    vals = Values(n, shift, rotate_in_play=("Rotate" in attrs))
    indirect = variant == 1
    objs = {}
    objid_of = {}
    for lab in range(1, n + 1):
        objid_of[lab] = 1 + (lab if variant == 0 else n + 1 - lab)
    nxt = [n + 2]

    def new(v):
        k = nxt[0]
        nxt[0] += 1
        objs[k] = v
        return Ref(k)

    fonts = {}

    def font_ref(src):
        if src not in fonts:
            fonts[src] = new(type1_font(vals.font(src)))
        return fonts[src]

    def box_value(box):
        if not indirect:
            return list(box)
        return new([new(box[0]), box[1], new(box[2]), box[3]])

    def attr_value(a, src):
        if a == "Resources":
            d = {"Font": {"F1": font_ref(src)}}
            return new(d) if indirect else d
        if a == "MediaBox":
            return box_value(vals.mediabox(src))
        if a == "CropBox":
            return box_value(vals.cropbox(src))
        if a == "Rotate":
            return new(vals.rotate(src)) if indirect else vals.rotate(src)
        raise KeyError(a)

    annot_src = {}

    def annots_value(src):
        a = new({"Type": Name("Annot"), "Subtype": Name("Text"), "Rect": [10, 10, 30, 30], "Contents": b"note of node %d" % src})
        annot_src[a.n] = src
        return new([a]) if indirect else [a]

    own_written = {}
    catalog = {"Type": Name("Catalog"), "Pages": Ref(objid_of[1]) if n else Ref(n + 50)}
    for a in sorted(cat):
        catalog[a] = attr_value(a, CAT)
    if labels:
        # page index i is labelled "p<i+1>" (index 0..2) / "q<i-2>" (from index 3 on)
        tree = {"Nums": [0, {"S": Name("D"), "P": b"p"}, 3, {"S": Name("D"), "P": b"q"}]}
        catalog["PageLabels"] = new(tree) if indirect else tree
    objs[1] = catalog
    for lab in range(1, n + 1):
        node = g[lab - 1]
        kind = node["kind"]
        kids = [Ref(objid_of[k]) for k in node["kids"]]
        own = set(node["own"])
        d = {}
        if kind == "Pages":
            d["Type"] = Name("Pages")
            d["Kids"] = new(kids) if indirect else kids
            d["Count"] = len(kids) if variant == 0 else 7
        elif kind == "Page":
            d["Type"] = Name("Page")
        else:
            style = (lab + shift) % 3
            if style == 0:      # a dictionary without /Type whose /Kids lead back to the root
                d = {"Kids": [Ref(objid_of[1])], "Rotate": 90, "Count": 1}
            elif style == 1:    # a dictionary of another type
                d = {"Type": Name("Catalog"), "Pages": Ref(objid_of[1])}
            else:               # not a dictionary at all
                objs[objid_of[lab]] = 42 + lab
                own_written[lab] = None
                continue
            objs[objid_of[lab]] = d
            own_written[lab] = {k for k in d if k in INHERITABLE}
            continue
        for a in INHERITABLE:
            if a in attrs:
                if a in own:
                    d[a] = attr_value(a, lab)
            elif kind == "Page" and a != "CropBox":
                if a != "Rotate" or vals.rot_ok:
                    d[a] = attr_value(a, lab)
        if "Annots" in attrs and "Annots" in own:
            d["Annots"] = annots_value(lab)
        if kind == "Page":
            # marker: the MediaBox in force is not known to the realiser when MediaBox is in play (that is the
            # model's business); the caller passes the source the model derived (mark_box_src[label])
            bsrc = lab if "MediaBox" not in attrs else (mark_box_src or {}).get(lab, 0)
            if bsrc == 0:
                px, py = 100, 100
            else:
                ux, uy = vals.mark_units(lab, bsrc)
                px, py = SCALE * ux, SCALE * uy
            content = b"BT /F1 10 Tf 1 0 0 1 %d %d Tm (%c) Tj ET" % (px, py, 64 + lab)
            form = (blank or {}).get(lab)
            if form is None:
                d["Contents"] = new(Stream({}, content))
            elif form == "empty-array":         # a blank page: /Contents [] ...
                d["Contents"] = []
            elif form == "empty-stream":        # ... or an array holding one empty stream ...
                d["Contents"] = [new(Stream({}, b""))]
            # ... or no /Contents at all ("none")
        objs[objid_of[lab]] = d
        own_written[lab] = {k for k in d if k in INHERITABLE}
    if variant == 0:
        rev = Revision(dict(sorted(objs.items())), root=Ref(1))
    else:
        packed = [k for k, v in sorted(objs.items()) if not isinstance(v, Stream)]
        rev = Revision(dict(sorted(objs.items())), form="stream", objstm=packed, root=Ref(1))
    data, _ = build([rev])
    meta = {"objid_of": objid_of, "label_of": {v: k for k, v in objid_of.items()}, "values": vals, "own": own_written,
            "annot_src": annot_src}
    return data, meta


def label_of_index(i):
    """the label the /PageLabels tree written by realise(labels=True) gives page index i"""
    return "p%d" % (i + 1) if i < 3 else "q%d" % (i - 2)


def self_check():
    """the writer's output must read back (through pdfminer's object layer only: getobj) as the graph given"""
    from io import BytesIO

    from pdfminer.pdfdocument import PDFDocument
    from pdfminer.pdfparser import PDFParser
    from pdfminer.pdftypes import PDFObjRef, resolve1
    g = [{"kind": "Pages", "own": ["Rotate"], "nk": 3, "kids": [2, 3, 2]},
         {"kind": "Page", "own": [], "nk": 0, "kids": []},
         {"kind": "Pages", "own": ["MediaBox"], "nk": 2, "kids": [1, 4]},
         {"kind": "Page", "own": ["Rotate", "MediaBox"], "nk": 0, "kids": []}]
    for variant in (0, 1):
        data, meta = realise(g, ["Rotate"], ("Rotate", "MediaBox"), variant, shift=variant, mark_box_src={2: 0, 4: 4})
        doc = PDFDocument(PDFParser(BytesIO(data)))
        if resolve1(doc.catalog["Rotate"]) != meta["values"].rotate(CAT):
            return "catalog Rotate does not read back (variant %d)" % variant
        for lab, node in enumerate(g, 1):
            d = doc.getobj(meta["objid_of"][lab])
            kids = [k.objid for k in resolve1(d.get("Kids", []))]
            if kids != [meta["objid_of"][k] for k in node["kids"]]:
                return "Kids of node %d do not read back (variant %d)" % (lab, variant)
            for a in ("Rotate", "MediaBox"):
                if (a in d) != (a in node["own"]):
                    return "own attribute %s of node %d does not read back (variant %d)" % (a, lab, variant)
                if a in d and isinstance(d[a], PDFObjRef) != (variant == 1):
                    return "directness of %s wrong (variant %d)" % (a, variant)
            if "MediaBox" in node["own"]:
                got = tuple(resolve1(v) for v in resolve1(d["MediaBox"]))
                if got != meta["values"].mediabox(lab):
                    return "MediaBox value of node %d does not read back" % lab
    return None
