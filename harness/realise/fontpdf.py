"""Realisers for font dictionaries (C06 simple fonts, C07 composite fonts): abstract model records -> real PDFs,
and the projection LTChar -> (text, adv, matrix, bbox) used to compare with the model.

Everything here is deterministic.  Table contents (glyph list, latin_enc, fontmetrics, pickled CMaps) are read from
the pdfminer package as data - they are constants of the models, see DESIGN.md 1.1."""
from __future__ import annotations

import io
import struct

from .pdfwriter import HexStr, Name, Ref, Stream, simple_doc
from ..tlc import MachineryError


def quiet():
    """pdfminer logs a warning for every odd construct the generated fonts contain on purpose; keep the check's output readable"""
    import logging
    logging.disable(logging.WARNING)


# ------------------------------------------------------------------------------------------------ projection
def chars_of(pdf, caching=True):
    """-> [[(text, adv, matrix, bbox, fontname)] per page] through the real interpreter with laparams=None."""
    from pdfminer.converter import PDFPageAggregator
    from pdfminer.layout import LTChar
    from pdfminer.pdfinterp import PDFPageInterpreter, PDFResourceManager
    from pdfminer.pdfpage import PDFPage

    rm = PDFResourceManager(caching=caching)
    dev = PDFPageAggregator(rm, laparams=None)
    it = PDFPageInterpreter(rm, dev)
    out = []
    for pg in PDFPage.get_pages(io.BytesIO(pdf)):
        it.process_page(pg)
        lay = dev.get_result()
        out.append([(o.get_text(), o.adv, tuple(o.matrix), tuple(o.bbox), o.fontname) for o in lay
                    if isinstance(o, LTChar)])
    return out


def first_font(pdf):
    """the PDFFont object bound to /F1 on page 1 (for direct to_unichr / char_width / decode calls)"""
    from pdfminer.pdfdevice import PDFDevice
    from pdfminer.pdfinterp import PDFPageInterpreter, PDFResourceManager
    from pdfminer.pdfpage import PDFPage

    rm = PDFResourceManager()
    it = PDFPageInterpreter(rm, PDFDevice(rm))
    for pg in PDFPage.get_pages(io.BytesIO(pdf)):
        it.init_resources(pg.resources)
        return it.fontmap["F1"]
    raise MachineryError("realised document has no page")


# ------------------------------------------------------------------------------------------------ content streams
def show_codes(codes, font="F1", fs=10, x=10, y=700):
    """one Tj per single-byte code, in order, on one line"""
    parts = [b"BT /%s %d Tf 1 0 0 1 %d %d Tm" % (font.encode(), fs, x, y)]
    for c in codes:
        parts.append(b"<%02x> Tj" % c)
    parts.append(b"ET")
    return b"\n".join(parts)


def show_strings(strings, font="F1", fs=10, x=100, y=700, per_string_tm=True):
    """strings: list of bytes; each is shown with its own Tm (so positions restart) as a hex string"""
    parts = [b"BT /%s %d Tf" % (font.encode(), fs)]
    for i, s in enumerate(strings):
        if per_string_tm or i == 0:
            parts.append(b"1 0 0 1 %d %d Tm" % (x, y))
        parts.append(b"<" + s.hex().encode() + b"> Tj")
    parts.append(b"ET")
    return b"\n".join(parts)


# ------------------------------------------------------------------------------------------------ ToUnicode CMaps
def u16(s):
    return s.encode("utf-16-be")


def hexs(b):
    return b"<" + bytes(b).hex().upper().encode() + b">"


CMAP_HEAD = (b"/CIDInit /ProcSet findresource begin\n12 dict begin\nbegincmap\n"
             b"/CIDSystemInfo << /Registry (Adobe) /Ordering (UCS) /Supplement 0 >> def\n"
             b"/CMapName /Adobe-Identity-UCS def\n/CMapType 2 def\n")
CMAP_TAIL = b"endcmap\nCMapName currentdict /CMap defineresource pop\nend\nend\n"


def tounicode_cmap(sections, codelen=1, usecmap=None, head=True):
    """sections: list of ('bfchar', [(code:int|bytes, text:str|bytes)]) /
                         ('bfrange', [(lo, hi, text:str|bytes)])   increment form /
                         ('bfrange_arr', [(lo, hi, [text, ...])])  array form
    codes are ints (written with `codelen` bytes) or explicit bytes; texts are str (UTF-16BE) or raw bytes."""
    def code(c):
        return hexs(c.to_bytes(codelen, "big") if isinstance(c, int) else c)

    def txt(t):
        return hexs(u16(t) if isinstance(t, str) else t)

    out = bytearray(CMAP_HEAD if head else b"")
    if usecmap:
        out += b"/" + usecmap.encode() + b" usecmap\n"
    out += b"1 begincodespacerange\n" + code(0) + b" " + code((1 << (8 * codelen)) - 1) + b"\nendcodespacerange\n"
    for kind, ents in sections:
        if kind == "bfchar":
            out += b"%d beginbfchar\n" % len(ents)
            for c, t in ents:
                out += code(c) + b" " + txt(t) + b"\n"
            out += b"endbfchar\n"
        elif kind == "bfrange":
            out += b"%d beginbfrange\n" % len(ents)
            for lo, hi, t in ents:
                out += code(lo) + b" " + code(hi) + b" " + txt(t) + b"\n"
            out += b"endbfrange\n"
        elif kind == "bfrange_arr":
            out += b"%d beginbfrange\n" % len(ents)
            for lo, hi, ts in ents:
                out += code(lo) + b" " + code(hi) + b" [" + b" ".join(txt(t) for t in ts) + b"]\n"
            out += b"endbfrange\n"
        else:
            raise MachineryError("unknown ToUnicode section kind %r" % kind)
    out += CMAP_TAIL if head else b""
    return bytes(out)


# ------------------------------------------------------------------------------------------------ Type 1 program header
def type1_header(entries, fontname="VerifFont", standard=False):
    """Clear-text portion of a Type 1 font program whose built-in encoding is given by
    `dup <code> /<name> put` entries (Adobe Type 1 Font Format, section 2.2)."""
    out = bytearray(b"%!PS-AdobeFont-1.0: " + fontname.encode() + b" 001.000\n11 dict begin\n"
                    b"/FontInfo 2 dict dup begin /FullName (" + fontname.encode() + b") readonly def end readonly def\n"
                    b"/FontName /" + fontname.encode() + b" def\n/PaintType 0 def\n/FontType 1 def\n"
                    b"/FontMatrix [0.001 0 0 0.001 0 0] readonly def\n"
                    + (b"/Encoding StandardEncoding def\n" if standard else
                       b"/Encoding 256 array\n0 1 255 {1 index exch /.notdef put} for\n"))
    for code, name in entries:
        out += b"dup %d /%s put\n" % (code, name.encode())
    out += (b"" if standard else b"readonly def\n") + b"/FontBBox {0 -200 1000 800} readonly def\ncurrentdict end\ncurrentfile eexec\n"
    return bytes(out)


def fontfile_stream(header):
    body = header + b"\x00" * 16
    return Stream({"Length1": len(header), "Length2": 16, "Length3": 0}, body)


# ------------------------------------------------------------------------------------------------ minimal TrueType with a cmap
def truetype_with_cmap(char2gid, platform=3, encoding=1):
    """A TrueType file holding only a format-4 'cmap' table (what TrueTypeFont.create_unicode_map reads).
    char2gid: {unicode code point (BMP): glyph id}.  One segment per character (idRangeOffset 0, idDelta = gid-char)."""
    items = sorted(char2gid.items())
    segs = [(c, c, (g - c) & 0xFFFF) for c, g in items] + [(0xFFFF, 0xFFFF, 1)]
    n = len(segs)
    sub = bytearray()
    sub += struct.pack(">HHH", 4, 0, 0)                # format, length (patched below), language
    sub += struct.pack(">HHHH", 2 * n, 0, 0, 0)        # segCountX2, searchRange.. (unused by the reader)
    sub += b"".join(struct.pack(">H", e) for (_, e, _) in segs)
    sub += b"\0\0"
    sub += b"".join(struct.pack(">H", s) for (s, _, _) in segs)
    sub += b"".join(struct.pack(">H", d) for (_, _, d) in segs)
    sub += b"".join(struct.pack(">H", 0) for _ in segs)
    struct.pack_into(">H", sub, 2, len(sub))
    cmap = struct.pack(">HH", 0, 1) + struct.pack(">HHL", platform, encoding, 12) + bytes(sub)
    head = b"\x00\x01\x00\x00" + struct.pack(">HHHH", 1, 16, 0, 0)
    offset = len(head) + 16
    directory = struct.pack(">4sLLL", b"cmap", 0, offset, len(cmap))
    return head + directory + cmap


# ------------------------------------------------------------------------------------------------ documents
def doc_with_font(fontdict, contents, extra_objects=None, fonts_extra=None):
    fonts = {"F1": fontdict}
    if fonts_extra:
        fonts.update(fonts_extra)
    pdf, _ = simple_doc(contents, fonts=fonts, extra_objects=extra_objects)
    return pdf


__all__ = ["chars_of", "first_font", "show_codes", "show_strings", "tounicode_cmap", "type1_header", "fontfile_stream",
           "truetype_with_cmap", "doc_with_font", "u16", "hexs", "Name", "Ref", "Stream", "HexStr"]
