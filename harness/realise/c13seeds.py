"""The feature-covering seed documents of C13, described structurally (harness/realise/faultdoc.SeedDoc).

Each seed is small (2-6 KiB) and valid; together they exercise every traversal and decoder the three extraction entry
points reach: classic / stream / hybrid cross-references, object streams, incremental revisions, each stream filter and
both predictor families, simple fonts (Differences, ToUnicode, Widths, descriptors, embedded programs, Type3),
composite fonts (Identity-H, predefined and embedded CMaps, W / W2), page labels (number tree with Kids), outlines and
named destinations, annotations, form and image XObjects, inline images, colour spaces, marked content, and the
standard security handler (RC4-128, AES-128, AES-256).  self_check() opens every undamaged seed through the three entry
points and requires the expected text.
"""
from __future__ import annotations

import io
import zlib

from ..tlc import MachineryError
from . import codecs
from .faultdoc import Content, Rev, SeedDoc, assemble
from .fontpdf import fontfile_stream, tounicode_cmap, truetype_with_cmap, type1_header
from .pdfwriter import HexStr, Name, Ref, Stream

N = Name
MB = [0, 0, 612, 792]


def helv(**kw):
    d = {"Type": N("Font"), "Subtype": N("Type1"), "BaseFont": N("Helvetica"), "Encoding": N("WinAnsiEncoding")}
    d.update(kw)
    return d


def text(s, x=72, y=700, font="F1", size=12):
    return b"BT /%s %d Tf %d %d Td (%s) Tj ET\n" % (font.encode(), size, x, y, s.encode())


def basic(objs, contents_id=5, page_extra=None, res=None, text_=b"", kids=None):
    """catalog 1, pages 2, page 3, font 4, contents 5 unless given otherwise"""
    o = {1: {"Type": N("Catalog"), "Pages": Ref(2)},
         2: {"Type": N("Pages"), "Kids": kids or [Ref(3)], "Count": len(kids or [1])},
         3: dict({"Type": N("Page"), "Parent": Ref(2), "MediaBox": list(MB),
                  "Resources": res or {"Font": {"F1": Ref(4)}}, "Contents": Ref(contents_id)}, **(page_extra or {})),
         4: helv()}
    o.update(objs)
    return dict(sorted(o.items()))


# ------------------------------------------------------------------------------------------------ the seeds
def seed_classic():
    o = {
        1: {"Type": N("Catalog"), "Pages": Ref(2), "Outlines": Ref(10), "Names": Ref(13), "PageMode": N("UseOutlines"),
            "Dests": Ref(17)},
        2: {"Type": N("Pages"), "Kids": [Ref(3), Ref(6)], "Count": 2, "MediaBox": list(MB), "Resources": Ref(9)},
        3: {"Type": N("Pages"), "Parent": Ref(2), "Kids": [Ref(4)], "Count": 1, "Rotate": 0},
        4: {"Type": N("Page"), "Parent": Ref(3), "Contents": [Ref(5), Ref(18)], "Annots": [Ref(15)],
            "CropBox": [10, 10, 600, 780]},
        5: Stream({}, b"BT /F1 12 Tf 72 700 Td (Hello) Tj"),
        18: Stream({}, b" 10 0 Td (World) Tj ET\n0.5 g 10 10 100 50 re f\n"),
        6: {"Type": N("Page"), "Parent": Ref(2), "Contents": Ref(7), "MediaBox": [0, 0, 300.5, 400], "Rotate": 90,
            "Resources": {"Font": {"F1": Ref(8)}, "ProcSet": [N("PDF"), N("Text")]}},
        7: Stream({}, text("Second page")),
        8: helv(),
        9: {"Font": {"F1": Ref(8)}},
        10: {"Type": N("Outlines"), "First": Ref(11), "Last": Ref(12), "Count": 2},
        11: {"Title": b"One", "Parent": Ref(10), "Next": Ref(12), "Dest": [Ref(4), N("Fit")]},
        12: {"Title": b"Two", "Parent": Ref(10), "Prev": Ref(11), "A": {"S": N("GoTo"), "D": b"d1"}},
        13: {"Dests": Ref(14)},
        14: {"Names": [b"d1", [Ref(6), N("XYZ"), 0, 0, None]]},
        15: {"Type": N("Annot"), "Subtype": N("Link"), "Rect": [70, 690, 200, 720], "Dest": b"d1", "Border": [0, 0, 0]},
        16: {"Title": b"Seed", "Producer": b"verif", "CreationDate": b"D:20261003000000Z"},
        17: {"old": [Ref(4), N("Fit")]},
    }
    return SeedDoc("classic", [Rev(dict(sorted(o.items())))], info=Ref(16), expect=["Hello", "World", "Second page"],
                   features=["classic xref", "nested page tree", "inherited attributes", "Contents array",
                             "outlines", "name tree", "annotations", "info"])


def seed_xrefstream():
    o = basic({5: Stream({"Filter": N("FlateDecode")}, zlib.compress(text("Stream xref") + text("objstm", y=650))),
               6: {"Producer": b"verif"}})
    return SeedDoc("xrefstream", [Rev(o, form="stream", packed=[1, 2, 3, 4, 6], xref_w=(1, 2, 1))], info=Ref(6),
                   trailer_extra={"ID": [HexStr(b"\x01" * 16), HexStr(b"\x02" * 16)]}, expect=["Stream xref", "objstm"],
                   features=["xref stream", "object stream", "FlateDecode"])


def seed_incremental():
    """three revisions: classic table, classic table (Prev), hybrid (Prev + XRefStm, object stream)"""
    r1 = basic({5: Stream({}, text("Old text")), 6: {"Producer": b"verif"}})
    r2 = {5: Stream({}, text("Mid text")), 6: {"Producer": b"verif 2"}}
    r3 = {3: {"Type": N("Page"), "Parent": Ref(2), "MediaBox": list(MB), "Resources": Ref(7), "Contents": Ref(5)},
          5: Stream({}, text("New text")),
          7: {"Font": {"F1": Ref(4)}}}
    return SeedDoc("incremental", [Rev(r1), Rev(r2), Rev(r3, form="hybrid", packed=[3, 7])], info=Ref(6),
                   expect=["New text"], features=["incremental updates", "Prev chain of classic tables", "hybrid XRefStm"])


def seed_incremental_stream():
    """three revisions, each with a cross-reference stream (Prev inside the stream dictionary); the last one packs
    the objects it rewrites into an object stream"""
    r1 = basic({5: Stream({"Filter": N("FlateDecode")}, zlib.compress(text("First text"))), 6: {"Producer": b"verif"}})
    r2 = {5: Stream({}, text("Second text"))}
    r3 = {3: {"Type": N("Page"), "Parent": Ref(2), "MediaBox": list(MB), "Resources": Ref(12), "Contents": Ref(5)},
          5: Stream({}, text("Third text")),
          12: {"Font": {"F1": Ref(4)}}}
    return SeedDoc("incremental_stream",
                   [Rev(r1, form="stream", packed=[1, 2, 3, 4]), Rev(r2, form="stream"),
                    Rev(r3, form="stream", packed=[3, 12])], info=Ref(6),
                   expect=["Third text"], features=["incremental updates with cross-reference streams", "Prev chain of streams"])


def seed_deep_tree():
    """a page tree twelve levels deep (one kid per level): valid, small, and the place where duplicating every kid
    (the dup_kids_all combination) turns the tree into a chain with 2**12 paths"""
    depth = 12
    o = {1: {"Type": N("Catalog"), "Pages": Ref(10)}, 4: helv(), 5: Stream({}, text("Deep page"))}
    for i in range(depth):
        o[10 + i] = {"Type": N("Pages"), "Kids": [Ref(11 + i)], "Count": 1}
        if i:
            o[10 + i]["Parent"] = Ref(9 + i)
    o[10]["MediaBox"] = list(MB)
    o[10]["Resources"] = {"Font": {"F1": Ref(4)}}
    o[10 + depth] = {"Type": N("Page"), "Parent": Ref(9 + depth), "Contents": Ref(5)}
    return SeedDoc("deep_tree", [Rev(dict(sorted(o.items())))], expect=["Deep page"],
                   features=["page tree 12 levels deep", "attributes inherited over 12 levels"])


def seed_big_objstm(npages=80):
    """npages pages kept in ONE object stream (plus catalog, page tree node and font): what a generated report looks
    like.  Every lookup of a member goes through the parsed-object-stream cache; if that cache fails on a damaged
    stream (payload cut by a few bytes, wrong /N) the stream is re-parsed per lookup and the work grows with the
    square of the number of members.  Pages 3..n are copies of page 1 (bulk owners: written, but only pages 1 and 2 and
    the first two /Kids elements are sites).  `double` builds the same document with 2n pages: harness/props/c13.py
    runs every fault of this seed at both sizes and requires the work to scale linearly."""
    first = 20
    o = {1: {"Type": N("Catalog"), "Pages": Ref(2)},
         2: {"Type": N("Pages"), "Kids": [Ref(first + i) for i in range(npages)], "Count": npages, "MediaBox": [0, 0, 200, 200],
             "Resources": {"Font": {"F1": Ref(4)}}},
         4: helv(),
         5: Stream({}, text("Bulk", x=10, y=100))}
    for i in range(npages):
        o[first + i] = {"Type": N("Page"), "Parent": Ref(2)}
    o[first]["Contents"] = Ref(5)
    packed = [1, 2, 4] + [first + i for i in range(npages)]

    def skip(site):
        parts = site.split("/")
        return parts[:2] == ["obj:2", "Kids"] and len(parts) > 2 and int(parts[2]) >= 2

    return SeedDoc("big_objstm", [Rev(dict(sorted(o.items())), form="stream", packed=packed, xref_w=(1, 2, 2))],
                   expect=["Bulk"], features=["object stream with %d members" % (npages + 3), "%d pages" % npages,
                                              "scaling check against the same document with twice the members"],
                   bulk_owners=["obj:%d" % (first + i) for i in range(2, npages)], fstride=4, nocache=False,
                   skip_sites=skip, double=(lambda: seed_big_objstm(2 * npages)) if npages == 80 else None)


def seed_ascii_filters():
    c1 = text("AsciiHex")
    c2 = text("Ascii85")
    c3 = text("Chained")
    o = basic({
        5: Stream({"Filter": N("ASCIIHexDecode")}, codecs.ahx_encode(c1, wrap=32)),
        6: {"Type": N("Page"), "Parent": Ref(2), "MediaBox": list(MB), "Resources": {"Font": {"F1": Ref(4)}},
            "Contents": Ref(7)},
        7: Stream({"Filter": [N("ASCII85Decode")]}, codecs.a85_encode(c2, wrap=40)),
        8: {"Type": N("Page"), "Parent": Ref(2), "MediaBox": list(MB), "Resources": {"Font": {"F1": Ref(4)}},
            "Contents": Ref(9)},
        9: Stream({"Filter": [N("ASCII85Decode"), N("FlateDecode")], "DecodeParms": [None, None]},
                  codecs.a85_encode(zlib.compress(c3))),
    }, kids=[Ref(3), Ref(6), Ref(8)])
    return SeedDoc("ascii_filters", [Rev(o)], expect=["AsciiHex", "Ascii85", "Chained"],
                   features=["ASCIIHexDecode", "ASCII85Decode", "filter chain", "DecodeParms array"])


def seed_lzw_rl():
    c1 = text("Lempel Ziv Welch " * 3)
    c2 = text("Run length   ......")
    c3 = text("Hex of LZW")
    o = basic({
        5: Stream({"Filter": N("LZWDecode"), "DecodeParms": {"EarlyChange": 1}}, codecs.lzw_encode(c1)),
        6: {"Type": N("Page"), "Parent": Ref(2), "MediaBox": list(MB), "Resources": {"Font": {"F1": Ref(4)}},
            "Contents": Ref(7)},
        7: Stream({"Filter": N("RunLengthDecode")}, codecs.rl_encode(c2)),
        8: {"Type": N("Page"), "Parent": Ref(2), "MediaBox": list(MB), "Resources": {"Font": {"F1": Ref(4)}},
            "Contents": Ref(9)},
        9: Stream({"Filter": [N("ASCIIHexDecode"), N("LZWDecode")]}, codecs.ahx_encode(codecs.lzw_encode(c3))),
    }, kids=[Ref(3), Ref(6), Ref(8)])
    return SeedDoc("lzw_rl", [Rev(o)], expect=["Lempel Ziv Welch", "Run length", "Hex of LZW"],
                   features=["LZWDecode", "RunLengthDecode"])


def _rows(data, cols):
    pad = (-len(data)) % cols
    return data + b" " * pad


def seed_predictors():
    c1 = _rows(text("PNG predictor"), 16)
    c2 = _rows(text("TIFF predictor"), 8)
    c3 = _rows(text("LZW with PNG"), 10)
    o = basic({
        5: Stream({"Filter": N("FlateDecode"), "DecodeParms": {"Predictor": 12, "Columns": 16}},
                  zlib.compress(codecs.png_predict(c1, 1, 16, 8, [2]))),
        6: {"Type": N("Page"), "Parent": Ref(2), "MediaBox": list(MB), "Resources": {"Font": {"F1": Ref(4)}},
            "Contents": Ref(7)},
        7: Stream({"Filter": N("FlateDecode"),
                   "DecodeParms": {"Predictor": 2, "Columns": 8, "Colors": 1, "BitsPerComponent": 8}},
                  zlib.compress(codecs.tiff_predict(c2, 1, 8))),
        8: {"Type": N("Page"), "Parent": Ref(2), "MediaBox": list(MB), "Resources": {"Font": {"F1": Ref(4)}},
            "Contents": Ref(9)},
        9: Stream({"Filter": [N("LZWDecode")],
                   "DecodeParms": [{"Predictor": 15, "Columns": 10, "Colors": 1, "BitsPerComponent": 8}]},
                  codecs.lzw_encode(codecs.png_predict(c3, 1, 10, 8, [0, 1, 2, 3, 4]))),
    }, kids=[Ref(3), Ref(6), Ref(8)])
    return SeedDoc("predictors", [Rev(o, form="stream", packed=[1, 2], xref_predictor=True)],
                   expect=["PNG predictor", "TIFF predictor", "LZW with PNG"],
                   features=["PNG predictors", "TIFF predictor", "xref stream with predictor"])


def seed_simple_fonts():
    tou = tounicode_cmap([("bfchar", [(0x41, "A"), (0x80, "€")]), ("bfrange", [(0x61, 0x63, "a")]),
                          ("bfrange_arr", [(0x30, 0x31, ["0", "1"])])])
    hdr = type1_header([(65, "A"), (66, "B")])
    ttf = truetype_with_cmap({0x41: 3, 0x42: 4})
    t1_rest = type1_header([(66, "B")]).split(b"\n", 1)[1]
    t1_first = b"%!PS-AdobeFont-1.0: VerifT1 001.000\ndup "
    t1c = Content([t1_first, ("tokens", {"0": 65, "1": N("A")}, b" put\n"), t1_rest, b"\x00" * 16])
    t1 = t1c.render()[:-16]
    cm_full = tounicode_cmap([], codelen=1)
    cm_head, cm_tail = cm_full.split(b"endcmap")[0], b"endcmap" + cm_full.split(b"endcmap")[1]
    o = basic({
        4: {"Type": N("Font"), "Subtype": N("Type1"), "BaseFont": N("VerifFont"), "FirstChar": 65, "LastChar": 68,
            "Widths": [600, Ref(14), 600.5, 600], "FontDescriptor": Ref(6), "ToUnicode": Ref(7),
            "Encoding": {"Type": N("Encoding"), "BaseEncoding": N("WinAnsiEncoding"),
                         "Differences": [65, N("A"), N("Euro"), 97, N("a"), N("bullet")]}},
        5: Stream({}, text("AB ab") + text("AB", y=650, font="F2") + text("ab", y=600, font="F3")
                  + text("ABCDEFG", y=550, font="F4")),
        6: {"Type": N("FontDescriptor"), "FontName": N("VerifFont"), "Flags": 32, "FontBBox": [0, -200, 1000, 800],
            "ItalicAngle": 0, "Ascent": 800, "Descent": -200, "CapHeight": 700, "StemV": 80, "MissingWidth": 500,
            "Leading": 0, "FontFile": Ref(8)},
        7: Stream({"Filter": N("FlateDecode")}, zlib.compress(tou)),
        8: Stream(fontfile_stream(hdr).attrs, fontfile_stream(hdr).data),
        9: {"Type": N("Font"), "Subtype": N("TrueType"), "BaseFont": N("VerifTT"), "FirstChar": 65, "LastChar": 66,
            "Widths": [500, 500], "FontDescriptor": Ref(10)},
        10: {"Type": N("FontDescriptor"), "FontName": N("VerifTT"), "Flags": 4, "FontBBox": [0, 0, 1000, 1000],
             "ItalicAngle": 0, "Ascent": 900, "Descent": -100, "StemV": 80, "FontFile2": Ref(11)},
        11: Stream({"Length1": len(ttf)}, ttf),
        12: {"Type": N("Font"), "Subtype": N("Type3"), "FontBBox": [0, 0, 1000, 1000],
             "FontMatrix": [0.001, 0, 0, 0.001, 0, 0], "CharProcs": {"a": Ref(13), "b": Ref(13)},
             "Encoding": {"Type": N("Encoding"), "Differences": [97, N("a"), N("b")]}, "FirstChar": 97, "LastChar": 98,
             "Widths": [1000, 1000], "Resources": {}},
        13: Stream({}, b"1000 0 0 0 1000 1000 d1 0 0 1000 1000 re f"),
        14: 610,
        # a Type 1 font without /Encoding: its built-in encoding is read from the clear-text header of the program, whose
        # first statement is an encoding entry (the operands of that `put` are token sites)
        15: {"Type": N("Font"), "Subtype": N("Type1"), "BaseFont": N("VerifT1"), "FirstChar": 65, "LastChar": 66,
             "Widths": [500, 500], "FontDescriptor": Ref(16), "ToUnicode": Ref(18)},
        16: {"Type": N("FontDescriptor"), "FontName": N("VerifT1"), "Flags": 32, "FontBBox": [0, -200, 1000, 800],
             "ItalicAngle": 0, "Ascent": 800, "Descent": -200, "StemV": 80, "FontFile": Ref(17)},
        17: Stream({"Length1": len(t1), "Length2": 16, "Length3": 0}, t1c),
        # ToUnicode CMap whose entries are token sites (one bfchar, one incrementing bfrange, one bfrange with an array
        # of hexadecimal strings, one with an array of numbers - a form pdfminer accepts)
        18: Stream({}, Content([cm_head, b"1 beginbfchar\n", ("tokens", {"0": HexStr(b"\x43"), "1": HexStr(b"\x00\x43")}, b"\nendbfchar\n"),
                                b"3 beginbfrange\n",
                                ("tokens", {"0": HexStr(b"\x41"), "1": HexStr(b"\x42"), "2": HexStr(b"\x00\x41")}, b"\n"),
                                ("tokens", {"0": HexStr(b"\x44"), "1": HexStr(b"\x45"), "2": [HexStr(b"\x00\x44"), HexStr(b"\x00\x45")]}, b"\n"),
                                ("tokens", {"0": HexStr(b"\x46"), "1": HexStr(b"\x47"), "2": [70, 71]}, b"\nendbfrange\n"),
                                cm_tail])),
    }, res={"Font": {"F1": Ref(4), "F2": Ref(9), "F3": Ref(12), "F4": Ref(15)}})
    return SeedDoc("simple_fonts", [Rev(o)], expect=["ab", "AB", "ABCDEFG"],
                   features=["Type1 Differences", "ToUnicode", "Widths", "FontDescriptor", "FontFile", "TrueType FontFile2",
                             "Type3"])


def seed_type0():
    tou = tounicode_cmap([("bfrange", [(0x0041, 0x005A, "A")]), ("bfchar", [(0x0001, "x")])], codelen=2)
    emb = (b"/CIDInit /ProcSet findresource begin 12 dict begin begincmap\n"
           b"/CIDSystemInfo << /Registry (Adobe) /Ordering (Japan1) /Supplement 2 >> def\n"
           b"/CMapName /90ms-RKSJ-V def /CMapType 1 def /WMode 1 def\n"
           b"1 begincodespacerange <00> <FF> endcodespacerange\n"
           b"1 begincidrange <20> <7E> 1 endcidrange\nendcmap end end\n")
    ttf = truetype_with_cmap({0x50: 3, 0x51: 4})       # glyphs 3 and 4 are P and Q
    o = basic({
        4: {"Type": N("Font"), "Subtype": N("Type0"), "BaseFont": N("VerifCID"), "Encoding": N("Identity-H"),
            "DescendantFonts": [Ref(6)], "ToUnicode": Ref(8)},
        5: Stream({}, b"BT /F1 12 Tf 72 700 Td <004100420001> Tj ET\n"
                      b"BT /F2 12 Tf 72 650 Td (AB) Tj ET\nBT /F3 12 Tf 300 600 Td (CD) Tj ET\n"
                      b"BT /F4 12 Tf 72 550 Td <00030004> Tj ET\n"),
        6: {"Type": N("Font"), "Subtype": N("CIDFontType2"), "BaseFont": N("VerifCID"),
            "CIDSystemInfo": {"Registry": b"Adobe", "Ordering": b"Identity", "Supplement": 0},
            "FontDescriptor": Ref(7), "DW": 1000, "W": [1, [500, 600], 65, 90, 700, 100, [Ref(16)]],
            "CIDToGIDMap": N("Identity")},
        7: {"Type": N("FontDescriptor"), "FontName": N("VerifCID"), "Flags": 4, "FontBBox": [0, -200, 1000, 800],
            "ItalicAngle": 0, "Ascent": 800, "Descent": -200, "StemV": 80},
        8: Stream({}, tou),
        9: {"Type": N("Font"), "Subtype": N("Type0"), "BaseFont": N("VerifJP"), "Encoding": N("90ms-RKSJ-H"),
            "DescendantFonts": [Ref(10)]},
        10: {"Type": N("Font"), "Subtype": N("CIDFontType0"), "BaseFont": N("VerifJP"),
             "CIDSystemInfo": Ref(11), "FontDescriptor": Ref(7), "DW": 500},
        11: {"Registry": b"Adobe", "Ordering": b"Japan1", "Supplement": 2},
        12: {"Type": N("Font"), "Subtype": N("Type0"), "BaseFont": N("VerifV"), "Encoding": Ref(13),
             "DescendantFonts": [Ref(14)]},
        13: Stream({"Type": N("CMap"), "CMapName": N("90ms-RKSJ-V"), "WMode": 1,
                    "CIDSystemInfo": {"Registry": b"Adobe", "Ordering": b"Japan1", "Supplement": 2}}, emb),
        14: {"Type": N("Font"), "Subtype": N("CIDFontType0"), "BaseFont": N("VerifV"),
             "CIDSystemInfo": Ref(11), "FontDescriptor": Ref(7), "DW": 1000, "DW2": [880, -1000],
             "W2": [1, [-1000, 500, 880], 40, 50, -900, 500, 880]},
        16: 450,
        17: {"Type": N("Font"), "Subtype": N("Type0"), "BaseFont": N("VerifTT"), "Encoding": N("Identity-H"),
             "DescendantFonts": [Ref(18)]},
        18: {"Type": N("Font"), "Subtype": N("CIDFontType2"), "BaseFont": N("VerifTT"),
             "CIDSystemInfo": {"Registry": b"Adobe", "Ordering": b"Identity", "Supplement": 0},
             "FontDescriptor": Ref(19), "DW": 600},
        19: {"Type": N("FontDescriptor"), "FontName": N("VerifTT"), "Flags": 4, "FontBBox": [0, -200, 1000, 800],
             "ItalicAngle": 0, "Ascent": 800, "Descent": -200, "StemV": 80, "FontFile2": Ref(20)},
        20: Stream({"Length1": len(ttf)}, ttf),
    }, res={"Font": {"F1": Ref(4), "F2": Ref(9), "F3": Ref(12), "F4": Ref(17)}})
    return SeedDoc("type0", [Rev(o)], expect=["ABx", "AB", "PQ"],
                   features=["Type0 Identity-H", "CIDFontType2 W", "predefined CMap", "embedded CMap", "vertical W2/DW2",
                             "embedded TrueType program (FontFile2) with cmap"])


def seed_pagelabels():
    o = basic({
        1: {"Type": N("Catalog"), "Pages": Ref(2), "PageLabels": Ref(10)},
        5: Stream({}, text("Page one")),
        6: {"Type": N("Page"), "Parent": Ref(2), "MediaBox": list(MB), "Resources": {"Font": {"F1": Ref(4)}},
            "Contents": Ref(7)},
        7: Stream({}, text("Page two")),
        8: {"Type": N("Page"), "Parent": Ref(2), "MediaBox": list(MB), "Resources": {"Font": {"F1": Ref(4)}},
            "Contents": Ref(9)},
        9: Stream({}, text("Page three")),
        10: {"Kids": [Ref(11), Ref(12)]},
        11: {"Limits": [0, 0], "Nums": [0, {"S": N("r"), "P": b"pre-"}]},
        12: {"Limits": [1, 2], "Kids": [Ref(13)]},
        13: {"Limits": [1, 2], "Nums": [1, Ref(14), 2, {"S": N("A"), "St": 3}]},
        14: {"S": N("D"), "St": 10},
    }, kids=[Ref(3), Ref(6), Ref(8)])
    return SeedDoc("pagelabels", [Rev(o, form="stream", packed=[10, 11, 12, 13, 14])],
                   expect=["Page one", "Page two", "Page three"], features=["page labels", "number tree with Kids"])


def seed_xobjects():
    form_inner = Stream({"Type": N("XObject"), "Subtype": N("Form"), "BBox": [0, 0, 100, 100],
                         "Resources": {"Font": {"F1": Ref(4)}}}, text("inner", x=5, y=5))
    content = Content([b"q 1 0 0 1 50 500 cm /Fm1 Do Q\n"
               b"q 100 0 0 100 300 500 cm /Im1 Do Q\nq 50 0 0 50 300 300 cm /Im2 Do Q\n"
               b"/CS0 cs 0.2 0.4 0.6 sc /CS1 CS 1 SC /Pat cs /P1 scn\n"
               b"/GS1 gs 1 0 0 RG 0 1 0 rg 0 0 0 1 k 2 w [3 2] 0 d 1 j 1 J 4 M 0.5 i /Perceptual ri\n"
               b"100 100 m 200 100 l 200 200 150 250 100 200 c h S 10 10 50 50 re W n\n"
               b"/Span ", ("props", {"MCID": 0, "Lang": b"en"}),
               b"BDC BT /F1 12 Tf 1 0 0 1 72 700 Tm 2 Tc 3 Tw 90 Tz 14 TL 1 Ts 0 Tr\n"
               b"[(Te) -50 (xt)] TJ T* (quote) ' 1 2 (dq) \" 5 -5 TD (td) Tj ET EMC\n"
               b"/OC /MC0 BDC EMC /Tag MP /Tag /MC0 DP /Tag ", ("props", {"K": [1, 2]}), b"DP BX EX /Sh1 sh\n",
               ("inline", {"W": 2, "H": 2, "BPC": 8, "CS": N("G"), "F": N("AHx"), "DP": {"K": 0}, "IM": False,
                           "D": [0, 1], "I": True}, b"00ff ff00>"),
               text("after image", y=100)])
    o = basic({
        5: Stream({}, content),
        6: Stream({"Type": N("XObject"), "Subtype": N("Form"), "BBox": [0, 0, 200, 200], "Matrix": [2, 0, 0, 2, 10, 10],
                   "Resources": {"Font": {"F1": Ref(4)}, "XObject": {"Fm2": Ref(7)}}, "Group": {"S": N("Transparency")}},
                  text("in form", x=10, y=10) + b"/Fm2 Do\n"),
        7: form_inner,
        8: Stream({"Type": N("XObject"), "Subtype": N("Image"), "Width": 2, "Height": 2, "BitsPerComponent": 8,
                   "ColorSpace": N("DeviceGray"), "Filter": N("ASCIIHexDecode")}, b"00ff ff00>"),
        9: Stream({"Type": N("XObject"), "Subtype": N("Image"), "Width": 2, "Height": 2, "BitsPerComponent": 8,
                   "ColorSpace": [N("Indexed"), [N("ICCBased"), Ref(10)], 1, HexStr(b"\x00\x00\x00\xff\xff\xff")],
                   "Decode": [0, 1], "SMask": Ref(8), "ImageMask": False}, b"\x00\x01\x01\x00"),
        10: Stream({"N": 3, "Alternate": N("DeviceRGB")}, b"\x00" * 16),
        11: {"Type": N("ExtGState"), "LW": 2, "CA": 0.5, "ca": 0.5, "Font": [Ref(4), 10]},
        12: {"PatternType": 2, "Shading": Ref(13)},
        13: {"ShadingType": 2, "ColorSpace": N("DeviceRGB"), "Coords": [0, 0, 1, 1],
             "Function": {"FunctionType": 2, "Domain": [0, 1], "C0": [0], "C1": [1], "N": 1}},
    }, res={"Font": {"F1": Ref(4)}, "XObject": {"Fm1": Ref(6), "Im1": Ref(8), "Im2": Ref(9)},
            "ColorSpace": {"CS0": [N("ICCBased"), Ref(10)], "CS1": [N("CalGray"), {"WhitePoint": [1, 1, 1]}],
                           "Pat": [N("Pattern")]},
            "ExtGState": {"GS1": Ref(11)}, "Pattern": {"P1": Ref(12)}, "Shading": {"Sh1": Ref(13)},
            "Properties": {"MC0": {"Type": N("OCG"), "Name": b"layer"}}, "ProcSet": [N("PDF"), N("Text"), N("ImageB")]})
    return SeedDoc("xobjects", [Rev(o)], expect=["in form", "inner", "Text", "quote", "after image"],
                   features=["form XObject", "nested form", "image XObject", "inline image", "colour spaces", "ExtGState",
                             "patterns", "marked content", "text operators", "path operators"])


def _encrypted(name, V, R, keylen, cfm, form="table", packed=()):
    from .encryptor import StdSec
    id0 = bytes(range(16))
    sec = StdSec(V=V, R=R, keylen=keylen, cfm=cfm, encrypt_metadata=True, P=-4, id0=id0, user_pw="", owner_pw="own")
    o = basic({5: Stream({"Filter": N("FlateDecode")}, zlib.compress(text("Secret " + name))),
               6: {"Title": b"Encrypted seed", "Producer": b"verif"},
               7: sec.encrypt_dict()})
    return SeedDoc(name, [Rev(o, form=form, packed=packed)], info=Ref(6),
                   trailer_extra={"ID": [HexStr(id0), HexStr(id0)], "Encrypt": Ref(7)}, sec=sec, encrypt_obj=7,
                   expect=["Secret " + name], features=["standard security handler V%d R%d %s" % (V, R, cfm or "RC4")])


def seed_enc_rc4():
    return _encrypted("enc_rc4", 2, 3, 128, None)


def seed_enc_aes128():
    return _encrypted("enc_aes128", 4, 4, 128, "AESV2", form="stream", packed=[2, 3, 4])


def seed_enc_aes256():
    return _encrypted("enc_aes256", 5, 6, 256, "AESV3")


BUILDERS = [seed_classic, seed_xrefstream, seed_incremental, seed_incremental_stream, seed_deep_tree, seed_big_objstm, seed_ascii_filters, seed_lzw_rl, seed_predictors,
            seed_simple_fonts, seed_type0, seed_pagelabels, seed_xobjects, seed_enc_rc4, seed_enc_aes128, seed_enc_aes256]


def all_seeds():
    return [b() for b in BUILDERS]


_checked = {}


def self_check(seeds=None):
    """every undamaged seed must come through the three entry points with the expected text; the reference encoders
    used to build them must pass their own self-check"""
    import logging
    logging.disable(logging.CRITICAL)
    from pdfminer.high_level import extract_pages, extract_text, extract_text_to_fp
    from pdfminer.layout import LTPage
    codecs.self_check()
    out = {}
    for s in seeds or all_seeds():
        data, lay = assemble(s)
        data2, _ = assemble(s)
        if data != data2:
            raise MachineryError("seed %s does not assemble deterministically" % s.name)
        try:
            t = extract_text(io.BytesIO(data))
            pages = list(extract_pages(io.BytesIO(data)))
            buf = io.BytesIO()
            extract_text_to_fp(io.BytesIO(data), buf, output_type="xml")
        except Exception as e:      # noqa: BLE001
            raise MachineryError("undamaged seed %s does not extract: %s: %s" % (s.name, type(e).__name__, e))
        flat = t.replace("\n", "")
        for want in s.expect:
            if want.replace(" ", "") not in flat.replace(" ", ""):
                raise MachineryError("undamaged seed %s: expected text %r missing from %r" % (s.name, want, t))
        if not pages or not all(isinstance(p, LTPage) for p in pages) or b"<pages>" not in buf.getvalue():
            raise MachineryError("undamaged seed %s: extract_pages / xml output malformed" % s.name)
        out[s.name] = (data, lay, t)
    return out
