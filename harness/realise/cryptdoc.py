"""Realiser for C10: one encrypted PDF per configuration of specs/crypt/Crypt.tla containing every item
location of the model, together with the list of items (where each lives, its plaintext, what was written).

The same document is also built unencrypted ("the original").  Item identity is (objid, path) where path is a
tuple of dictionary keys / array indices below the object, with "<data>" for a stream's payload.
"""
from __future__ import annotations

import zlib

from . import encryptor as E
from .pdfwriter import HexStr, Name, Ref, Revision, Stream, build

# concrete members of the model's password classes
PASSWORDS = {
    "e": "",
    "a": "user",
    "b": "owner",
    "L": "L" + "0123456789" * 4,                        # 41 bytes  (> 32)
    "L2": ("L" + "0123456789" * 4)[:32] + "DIFFERENT",   # same first 32 bytes as L
    "M": "M" + "abcdefghij" * 13,                        # 131 bytes (> 127)
    "M2": ("M" + "abcdefghij" * 13)[:127] + "zzzz",      # same first 127 bytes as M
    "n": "p\u00e4ssw\u00f6rd",                           # Latin-1, non-ASCII
    "n2": "pa\u0308sswo\u0308rd",                        # NFKC-equivalent spelling of n (not Latin-1)
    "w": "wrong",
    "x": "\u043f\u0430\u0440\u043e\u043b\u044c",         # not representable in PDFDocEncoding
    "c": "bad\u0007pw",                                  # contains a character SASLprep prohibits
    "s": "\u00ad",                                       # SASLprep maps it to the empty password
    # long AND non-ASCII: truncation happens on the BYTES of the encoded password
    "N": "a" + "\u00e9" * 70,                            # 71 characters, 141 UTF-8 bytes (> 127 bytes, < 127 characters)
    "N2": "a" + "\u00e9" * 63 + "\u00fc" * 10,           # same first 127 UTF-8 bytes (and first 32 Latin-1 bytes) as N
    "P": "\u00e9" * 130,                                 # 130 characters, 260 UTF-8 bytes
    # the 32-byte boundary of R2-R4 (pad or truncate to 32 bytes)
    "B31": "B" + "0123456789" * 3,                        # 31 bytes
    "B32": "B" + "0123456789" * 3 + "y",                  # 32 bytes
    "B33": "B" + "0123456789" * 3 + "yx",                 # 33 bytes: same first 32 bytes as B32
    # compatibility characters that NFKC (the normalisation of SASLprep) folds; q2 is NFC-normalised as it stands
    "q": "pass2wordIX-fi",
    "q2": "\uff50ass\u00b2word\u2168-\ufb01",             # fullwidth p, superscript two, ROMAN NUMERAL NINE, ligature fi
}
import unicodedata as _ud
assert _ud.ucd_3_2_0.normalize("NFKC", PASSWORDS["q2"]) == PASSWORDS["q"] and _ud.ucd_3_2_0.normalize("NFC", PASSWORDS["q2"]) == PASSWORDS["q2"]
assert len(PASSWORDS["N"].encode("utf-8")) == 141 and PASSWORDS["N"].encode("utf-8")[:127] == PASSWORDS["N2"].encode("utf-8")[:127]
assert [len(PASSWORDS[k]) for k in ("B31", "B32", "B33")] == [31, 32, 33]

PERM_BITS = {"print": 4, "modify": 8, "extract": 16}
# all reserved-one bits set, bits 1-2 clear, the remaining assignable bits (6, 9-12) alternate
P_BASE = -3904 + 32 + 512                                  # 0xFFFFF0C0 | annot | assemble ... still negative


def p_value(perms):
    v = P_BASE
    for p in perms:
        v |= PERM_BITS[p]
    return v


def text_of(n, tag, length):
    """deterministic plaintext of exactly `length` bytes, different for every (object, tag); avoids
    bytes that would hide padding (never ends in 0x01..0x10) and includes a high byte"""
    if length == 0:
        return b""
    seed = ("%d:%s:" % (n, tag)).encode()
    body = (seed + b"\xe9(payload)\\ " * 40)[: length - 1] if length > 1 else b""
    return body + b"Z"


def big_text(n, tag, length):
    """like text_of, for the size dimension (tens of thousands of bytes, no period of 256 or 65536)"""
    seed = ("%d:%s:" % (n, tag)).encode()
    unit = seed + b"\xe9(payload)\\ " + bytes(range(32, 127))
    return (unit * (length // len(unit) + 1))[: length - 1] + b"Z"


LENS = (0, 5, 16, 17)


def item_dict(n):
    d = {}
    for L in LENS:
        d["S%d" % L] = text_of(n, "S%d" % L, L)
    d["Hx"] = HexStr(text_of(n, "Hx", 5))
    d["Arr"] = [text_of(n, "A0", 5), [text_of(n, "A1", 16)], {"K": text_of(n, "AK", 17)}]
    return d


def _strings(v, path, out):
    if isinstance(v, (bytes, bytearray)):
        out.append((path, bytes(v)))
    elif isinstance(v, list):
        for i, x in enumerate(v):
            _strings(x, path + (i,), out)
    elif isinstance(v, dict):
        for k, x in v.items():
            _strings(x, path + (k,), out)


class CryptDoc:
    """cfg: dict(V, R, keylen, cfm, em, perms (tuple of names), id ('present'|'absent'), form ('table'|'xrefstm'),
    encplace ('direct'|'indirect'), upw, opw (class names; opw 'same' = no owner password), punsigned)"""

    DIRECT_NG = ((10, 0), (11, 3), (70001, 0))
    STREAM_BASE = 100

    def __init__(self, cfg, seed=0):
        self.cfg = dict(cfg)
        self.seed = seed
        self.items = []          # dicts: objid, gen, path, kind, loc, plain, filt, type
        self._make_objects()

    # -------------------------------------------------------------------------------- plaintext document
    def _make_objects(self):
        c = self.cfg
        objs, gens = {}, {}
        marker = "V%sR%s" % (c["V"], c["R"])
        content = ("BT /F1 12 Tf 72 700 Td (Hello C10 %s) Tj 0 -20 Td (second line \\(x\\)) Tj ET" % marker).encode()
        objs[4] = {"Type": Name("Font"), "Subtype": Name("Type1"), "BaseFont": Name("Helvetica")}
        objs[5] = Stream({}, content)
        objs[3] = {"Type": Name("Page"), "Parent": Ref(2), "MediaBox": [0, 0, 612, 792],
                   "Resources": {"Font": {"F1": Ref(4)}}, "Contents": Ref(5)}
        objs[2] = {"Type": Name("Pages"), "Kids": [Ref(3)], "Count": 1}
        objs[6] = {"Title": Ref(40), "Producer": b"\xfe\xff\x00v\x00e\x00r\x00i\x00f"}
        item_refs = []
        # indirect objects that ARE a string / an array / a name / a number (not a dictionary holding them)
        objs[40] = text_of(40, "top", 5)                       # referenced from /Info /Title
        objs[41] = text_of(41, "top", 16)
        gens[41] = 1
        objs[43] = HexStr(text_of(43, "top", 5))
        objs[42] = [text_of(42, "a0", 5), [text_of(42, "a1", 16)]]
        objs[44] = Name("VerifName")
        objs[45] = 12345
        item_refs += [Ref(40), Ref(41, 1), Ref(42), Ref(43), Ref(44), Ref(45)]
        # direct strings (several object numbers / generations)
        for (n, g) in self.DIRECT_NG:
            objs[n] = item_dict(n)
            gens[n] = g
            item_refs.append(Ref(n, g))
        # streams: every length x filter at generation 0, one with a generation, one with a 3-byte object number
        sid = self.STREAM_BASE
        stream_specs = [(sid + i, 0, L, f) for i, (L, f) in enumerate((L, f) for L in LENS for f in ("none", "flate"))]
        stream_specs += [(110, 2, 17, "none"), (70002, 0, 5, "flate"), (111, 0, 16, "flate")]
        self.stream_specs = stream_specs
        for (n, g, L, f) in stream_specs:
            plain = text_of(n, "data", L)
            attrs = {"Note": text_of(n, "Note", 5), "Tag": [text_of(n, "Tag", 16)]}
            if f == "flate":
                attrs["Filter"] = Name("FlateDecode")
                objs[n] = Stream(attrs, zlib.compress(plain))
            else:
                objs[n] = Stream(attrs, plain)
            gens[n] = g
            item_refs.append(Ref(n, g))
        # metadata stream
        xmp = b'<?xpacket begin="" id="W5M0"?><x:xmpmeta xmlns:x="adobe:ns:meta/">verif C10</x:xmpmeta><?xpacket end="w"?>'
        objs[15] = Stream({"Type": Name("Metadata"), "Subtype": Name("XML")}, xmp)
        self.meta_id = 15
        # objects that live in an object stream (cross-reference-stream and hybrid forms)
        self.packed = []
        if c["form"] in ("xrefstm", "hybrid"):
            for n in (20, 21):
                objs[n] = item_dict(n)
                self.packed.append(n)
                item_refs.append(Ref(n))
        if c.get("dv") in ("big", "huge"):
            # the size dimension: data around the 64 KiB mark (and far beyond it)
            sizes = (65535, 65536, 65537) + ((150000,) if c["dv"] == "huge" else ())
            objs[50] = {"B%d" % L: big_text(50, "B%d" % L, L) for L in sizes}
            objs[51] = Stream({}, big_text(51, "data", 65537))
            item_refs += [Ref(50), Ref(51)]
            if c["dv"] == "huge":
                objs[52] = Stream({}, big_text(52, "data", 150000))
                item_refs.append(Ref(52))
        if c["form"] == "xrefstmw0":
            # /W [1 n 0]: no generation field (every generation is 0), hence no object with another generation
            for n in [n for n, g in gens.items() if g]:
                del objs[n]
                del gens[n]
            item_refs = [r for r in item_refs if r.n in objs]
        objs[1] = {"Type": Name("Catalog"), "Pages": Ref(2), "Lang": b"de-DE", "Metadata": Ref(15), "VerifItems": item_refs}
        self.objs, self.gens = objs, gens
        self.trailer_note = b"trailer note \xe9"
        self.id_pair = [E.det_bytes(16, "id0", self.seed), E.det_bytes(16, "id1", self.seed)]
        # item table
        packed = set(self.packed)
        for n, v in sorted(objs.items()):
            g = gens.get(n, 0)
            if isinstance(v, Stream):
                st = []
                _strings({k: x for k, x in v.attrs.items()}, (), st)
                for path, b in st:
                    self.items.append(dict(objid=n, gen=g, path=path, kind="string", loc="streamdict", plain=b,
                                           type="Metadata" if n == 15 else "plain", filt=None))
                plain = zlib.decompress(v.data) if v.attrs.get("Filter") == "FlateDecode" else v.data
                self.items.append(dict(objid=n, gen=g, path=("<data>",), kind="stream",
                                       loc="metadata" if n == 15 else "streamdata", plain=plain,
                                       type="Metadata" if n == 15 else "plain",
                                       filt="flate" if v.attrs.get("Filter") == "FlateDecode" else "none", raw=v.data))
            elif n in (44, 45):
                self.items.append(dict(objid=n, gen=g, path=(), kind="atom", loc="direct", type="name" if n == 44 else "number",
                                       plain=b"/VerifName" if n == 44 else b"12345", filt=None))
            else:
                st = []
                _strings(v, (), st)
                for path, b in st:
                    self.items.append(dict(objid=n, gen=g, path=path, kind="string",
                                           loc="objstm" if n in packed else "direct", plain=b, type="plain", filt=None))

    # -------------------------------------------------------------------------------- writing
    def _revision(self, extra_trailer, extra_objs=None):
        c = self.cfg
        objs = dict(self.objs)
        if extra_objs:
            objs.update(extra_objs)
        te = {"VerifNote": self.trailer_note}
        if c["id"] == "present":
            te["ID"] = [HexStr(self.id_pair[0]), HexStr(self.id_pair[1])]
        te.update(extra_trailer)
        if c["form"] == "table":
            return Revision(dict(sorted(objs.items())), form="table", root=Ref(1), info=Ref(6), trailer_extra=te,
                            gens=self.gens)
        if c["form"] in ("xrefstmw0", "xrefstm0w"):
            # written with an ordinary cross-reference stream first; _w0() then replaces that stream by one whose third
            # field has width 0 (the shared writer always emits the free entry 0 with generation 65535)
            self._w0_trailer = dict(te, Root=Ref(1), Info=Ref(6))
            return Revision(dict(sorted(objs.items())), form="stream", objstm=[], root=Ref(1), info=Ref(6), trailer_extra=te,
                            gens=self.gens, split_index=True, xref_id=31)
        return Revision(dict(sorted(objs.items())), form="hybrid" if c["form"] == "hybrid" else "stream", objstm=self.packed,
                        root=Ref(1), info=Ref(6), trailer_extra=te, gens=self.gens, split_index=True, objstm_id=30, xref_id=31)

    def _w0(self, data, info):
        """replace the cross-reference stream (last object of the file) by one with /W [1 n 0]: no generation field"""
        if self.cfg["form"] not in ("xrefstmw0", "xrefstm0w"):
            return data
        typed = self.cfg["form"] == "xrefstmw0"        # xrefstm0w: /W [0 n 2] - no type field (every entry is type 1)
        from .pdfwriter import ser
        pos = info["xref_pos"][0]
        body = data[:pos]
        ent = {31: (1, pos, 0)}
        if typed:
            ent[0] = (0, 0, 0)
        for n, off in info["offsets"][0].items():
            ent[n] = (1, off, self.gens.get(n, 0))
        nb = 2 if pos < 65536 else 3
        keys = sorted(ent)
        runs = []
        for k in keys:
            if runs and runs[-1][0] + runs[-1][1] == k:
                runs[-1][1] += 1
            else:
                runs.append([k, 1])
        if typed:
            rows = b"".join(bytes([ent[k][0]]) + ent[k][1].to_bytes(nb, "big") for k in keys)
        else:
            rows = b"".join(ent[k][1].to_bytes(nb, "big") + ent[k][2].to_bytes(2, "big") for k in keys)
        d = {"Type": Name("XRef"), "Size": keys[-1] + 1, "W": [1, nb, 0] if typed else [0, nb, 2], "Index": [x for r in runs for x in r],
             "Filter": Name("FlateDecode")}
        d.update(self._w0_trailer)
        return body + b"31 0 obj\n" + ser(Stream(d, zlib.compress(rows))) + b"\nendobj\nstartxref\n%d\n%%%%EOF\n" % pos

    def original(self):
        data, info = build([self._revision({})])
        return self._w0(data, info)

    def encrypted(self):
        """-> (bytes, sec, log)  log: list of (n, g, kind, plain, cipher) actually encrypted by the writer"""
        c = self.cfg
        id0 = self.id_pair[0] if c["id"] == "present" else b""
        upw = PASSWORDS[c["upw"]]
        opw = None if c["opw"] == "same" else PASSWORDS[c["opw"]]
        sec = E.StdSec(c["V"], c["R"], c["keylen"], c["cfm"], c["em"], p_value(c["perms"]), id0, upw, opw,
                       seed=self.seed)
        ed = sec.encrypt_dict(p_unsigned=c.get("punsigned", False), length_entry=c.get("length_entry", True),
                              variant=c.get("dv", "plain"))
        log = []
        if c["encplace"] == "indirect":
            rev = self._revision({"Encrypt": Ref(16)}, {16: ed})
            exempt = {16}
        else:
            rev = self._revision({"Encrypt": ed})
            exempt = set()
        data, info = build([rev], transform_for=sec.transform_for(exempt=exempt, metadata={self.meta_id}, log=log))
        data = self._w0(data, info)
        self.encrypt_objid = 16 if c["encplace"] == "indirect" else None
        self.objstm_id = info["objstm_ids"][0]
        self.xref_id = info["xref_ids"][0]
        return data, sec, log


# ------------------------------------------------------------------------------------------------ direction B
VALID_ALGS = [(1, 2, 40, None), (1, 3, 40, None), (2, 3, 40, None), (2, 3, 56, None), (2, 3, 96, None), (2, 3, 128, None),
              (4, 4, 128, "V2"), (4, 4, 128, "AESV2"), (4, 4, 128, "Identity"), (5, 5, 256, "AESV3"), (5, 6, 256, "AESV3"),
              (5, 6, 256, "Identity")]


def _rand_pw(rng, R):
    kind = rng.choice(["empty", "ascii", "long", "latin"])
    if kind == "empty":
        return ""
    if kind == "ascii":
        return "".join(rng.choice("abcXYZ019 _-") for _ in range(rng.randint(1, 20)))
    if kind == "long":
        return "".join(rng.choice("abcdefghijklmnopqrstuvwxyz0123456789") for _ in range(rng.randint(33, 140)))
    return "".join(rng.choice("abc\u00e4\u00f6\u00fc\u00e9\u00df") for _ in range(rng.randint(1, 12)))


def _rand_bytes(rng, n):
    return bytes(rng.getrandbits(8) for _ in range(n))


def _rand_value(rng, depth=0):
    r = rng.random()
    if r < 0.45 or depth >= 3:
        L = rng.choice([0, 1, 2, 15, 16, 17, 31, 32, 33, rng.randint(0, 200)])
        b = _rand_bytes(rng, L)
        return HexStr(b) if rng.random() < 0.3 else b
    if r < 0.55:
        return rng.choice([None, True, 7, -3, 2.5, Name("Nm")])
    if r < 0.78:
        return [_rand_value(rng, depth + 1) for _ in range(rng.randint(0, 4))]
    return {"K%d" % i: _rand_value(rng, depth + 1) for i in range(rng.randint(0, 4))}


def big_doc(rng, index=0):
    """A large random encrypted document far outside the bounded model: 40-120 objects with random (3-byte) object
    numbers and generations, strings of 0..200 bytes at random depth, streams up to 4 KiB (plain / Flate) whose
    dictionaries hold strings too, 1-3 incremental revisions, object streams in the cross-reference-stream form.
    -> (bytes, StdSec, info)"""
    V, Rv, kl, cfm = rng.choice(VALID_ALGS)
    em = rng.random() < 0.6 if V >= 4 else True
    upw, opw = _rand_pw(rng, Rv), _rand_pw(rng, Rv)
    if Rv == 6:
        # stay inside what SASLprep leaves unchanged on both sides
        upw, opw = E.saslprep(upw), E.saslprep(opw)
    perms = [p for p in PERM_BITS if rng.random() < 0.5]
    has_id = rng.random() < 0.8
    id_pair = [_rand_bytes(rng, 16), _rand_bytes(rng, 16)]
    form = rng.choice(["table", "stream", "stream", "hybrid"])
    nrev = rng.choice([1, 1, 2, 3])
    sec = E.StdSec(V, Rv, kl, cfm, em, p_value(perms), id_pair[0] if has_id else b"", upw, opw, seed=rng.getrandbits(30))
    content = b"BT /F1 12 Tf 72 700 Td (big doc %d) Tj ET" % index
    objs = {1: None, 2: {"Type": Name("Pages"), "Kids": [Ref(3)], "Count": 1},
            3: {"Type": Name("Page"), "Parent": Ref(2), "MediaBox": [0, 0, 612, 792], "Resources": {"Font": {"F1": Ref(4)}},
                "Contents": Ref(5)},
            4: {"Type": Name("Font"), "Subtype": Name("Type1"), "BaseFont": Name("Helvetica")},
            5: Stream({}, content), 6: {"Title": _rand_bytes(rng, rng.randint(0, 40)), "Author": b"verif"},
            7: Stream({"Type": Name("Metadata"), "Subtype": Name("XML")}, b"<x:xmpmeta>" + _rand_bytes(rng, rng.randint(0, 300)).hex().encode() + b"</x:xmpmeta>")}
    gens = {}
    used = set(objs) | {8}                    # 8 = Encrypt
    revs_objs = [dict() for _ in range(nrev)]
    packed = [[] for _ in range(nrev)]
    refs = []
    for _ in range(rng.randint(40, 120)):
        while True:
            n = rng.choice([rng.randint(9, 400), rng.randint(256, 70000), rng.randint(65536, 3000000)])
            if n not in used:
                break
        used.add(n)
        rv = rng.randrange(nrev)
        if rng.random() < 0.35:
            L = rng.choice([0, 1, 15, 16, 17, rng.randint(0, 4096)])
            data = _rand_bytes(rng, L) if rng.random() < 0.5 else (b"stream text %d " % n) * (L // 12)
            attrs = {"Info": _rand_value(rng, 2), "Tags": [_rand_value(rng, 2)]}
            if rng.random() < 0.5:
                attrs["Filter"] = Name("FlateDecode")
                data = zlib.compress(data)
            revs_objs[rv][n] = Stream(attrs, data)
            if form == "table" or rng.random() < 0.7:
                gens[n] = rng.choice([0, 0, 1, 2, 255, 256, 65534])
        else:
            v = _rand_value(rng, 0)
            if not isinstance(v, (dict, list)):
                v = [v]
            revs_objs[rv][n] = v
            if form != "table" and rng.random() < 0.5:
                packed[rv].append(n)
            else:
                gens[n] = rng.choice([0, 0, 0, 1, 3, 999, 65534])
        refs.append(Ref(n, gens.get(n, 0)))
    objs[1] = {"Type": Name("Catalog"), "Pages": Ref(2), "Metadata": Ref(7), "Lang": b"en-GB", "VerifItems": refs}
    revs_objs[0].update(objs)
    te = {"Encrypt": Ref(8)}
    if has_id:
        te["ID"] = [HexStr(id_pair[0]), HexStr(id_pair[1])]
    revs_objs[0][8] = sec.encrypt_dict()
    top = max(used) + 1
    revs = []
    for i in range(nrev):
        kw = {}
        if form != "table":
            kw = dict(objstm=packed[i], split_index=True, objstm_id=top + 2 * i, xref_id=top + 2 * i + 1)
        if i > 0 and not revs_objs[i]:
            revs_objs[i][6] = {"Title": b"revised %d" % i}
        revs.append(Revision(dict(sorted(revs_objs[i].items())), form=form, root=Ref(1), info=Ref(6), trailer_extra=te,
                             gens=gens, **kw))
    log = []
    data, info = build(revs, transform_for=sec.transform_for(exempt={8}, metadata={7}, log=log))
    return data, sec, {"user_pw": upw, "owner_pw": opw, "form": form, "nobj": len(used), "nrev": nrev,
                       "nenc": sum(1 for x in log if len(x[4]) > 0), "perms": perms}
