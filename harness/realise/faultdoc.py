"""Structural seed documents for C13 and the application of one fault to their object graph BEFORE serialisation.

A SeedDoc is a list of revisions; each revision is {objid: value} (values as in pdfwriter: None, bool, int, float,
Name, bytes, HexStr, list, dict, Ref, Stream) plus the physical form (classic table / cross-reference stream /
hybrid) and the set of objects packed into an object stream.  assemble() lays the file out itself (pdfwriter.ser does
the object syntax) so that the structures a writer normally derives - every stream's /Length, the object-stream
dictionary, the cross-reference-stream dictionary, the trailer, the startxref value, the cross-reference entries -
are first-class *owners* with sites of their own:

    obj:<n>            an indirect object (root site = the whole value)
    objstm:<k>         dictionary / payload of revision k's object stream
    xref:<k>           dictionary / payload of revision k's cross-reference stream
    trailer:<k>        trailer dictionary of revision k (table and hybrid forms)
    tail:<k>           the number after startxref
    xrefent:<k>/<n>    the cross-reference entry of object n in revision k

A site is  owner + "/" + path  (dictionary keys and array indices).  sites() enumerates them from the derived
structures of the undamaged document; this is what harness/props/c13.py hands to specs/robust/Faults.tla as the
abstract seed, and apply-by-name of every fault TLC enumerates is done here.
"""
from __future__ import annotations

import copy
import zlib

from ..tlc import MachineryError
from .pdfwriter import HexStr, Name, Raw, Ref, Stream, ser

DIRECT_KINDS = ["null", "bool", "int", "real", "name", "string", "array", "dict"]
BASE_KINDS = DIRECT_KINDS + ["stream"]
# representative replacement values per kind and variant
REPR = {
    ("null", 0): None,
    ("bool", 0): True, ("bool", 1): False,
    ("int", 0): 7, ("int", 1): -1,
    ("real", 0): 1.5, ("real", 1): 0.0,
    ("name", 0): Name("Xq"), ("name", 1): Name("FlateDecode"), ("name", 2): Name(""),
    ("string", 0): b"xy", ("string", 1): b"",
    ("array", 0): [], ("array", 1): [7, Name("Xq")],
    ("dict", 0): {}, ("dict", 1): {"Type": Name("Xq"), "K": 7},
}
SINGLE_VARIANT = ("null", "stream")      # kinds with one representative only
EMPTY = {"array": [], "dict": {}, "string": b"", "name": Name("")}
# boundary values of the kind that is there (content-class sites): first code point past Unicode, a lone surrogate,
# 2**32; a target whose increment overflows four bytes, a lone surrogate in UTF-16BE, a long string
EXTREME = {("int", 0): 0x110000, ("int", 1): 0xD800, ("int", 2): 1 << 32,
           ("string", 0): HexStr(b"\xff\xff\xff\xff"), ("string", 1): HexStr(b"\xd8\x00"), ("string", 2): HexStr(b"A" * 40)}


class Content(list):
    """structured data of a content stream: a list of parts, each either bytes (operators written out), or
    ('inline', {key: value}, image bytes)  - an inline image  BI <entries> ID <data> EI, or
    ('props', {key: value})                - a property list dictionary written in place (operand of BDC / DP), or
    ('tokens', {"0": v0, "1": v1, ..}, tail) - the operands of one operator of a PostScript-like payload (a `put` of a
                                             Type 1 header, a bfchar / bfrange entry of a CMap) followed by `tail`.
    The dictionaries are fault sites  <owner>/@<part index>/<key>  of class 'content'."""

    def render(self):
        out = bytearray()
        for part in self:
            if isinstance(part, (bytes, bytearray)):
                out += part
            elif part[0] == "inline":
                out += b"BI " + b" ".join(ser(Name(k)) + b" " + ser(v) for k, v in part[1].items()) + b" ID " + part[2] + b" EI\n"
            elif part[0] == "props":
                out += ser(part[1]) + b" "
            elif part[0] == "tokens":
                # operands of one operator, keyed "0", "1", ...: written in order, followed by the operator text
                out += b" ".join(ser(v) for _, v in sorted(part[1].items(), key=lambda kv: int(kv[0]))) + part[2]
            else:
                raise MachineryError("faultdoc: unknown content part %r" % (part[0],))
        return bytes(out)


class Off:
    """a file offset known only after layout: ('xref', k) | ('xstm', k) | ('eof', extra) | ('obj', n) | ('mid', n).
    ws: the offset of the end-of-line character just before the target instead of the target's first byte (some
    producers write such offsets, readers skip the white space)"""

    def __init__(self, what, arg=0, ws=False):
        self.what, self.arg, self.ws = what, arg, ws

    def __repr__(self):
        return "Off(%s,%s%s)" % (self.what, self.arg, ",ws" if self.ws else "")

    def __eq__(self, o):
        return isinstance(o, Off) and (o.what, o.arg, o.ws) == (self.what, self.arg, self.ws)

    def __hash__(self):
        return hash((self.what, self.arg, self.ws))


class Rev:
    def __init__(self, objects, form="table", packed=(), xref_predictor=False, xref_w=(1, 2, 2)):
        self.objects = dict(objects)
        self.form = form
        self.packed = list(packed)
        self.xref_predictor = xref_predictor
        self.xref_w = xref_w


class SeedDoc:
    def __init__(self, name, revs, root=Ref(1), info=None, trailer_extra=None, sec=None, encrypt_obj=None,
                 expect=(), features=(), bulk_owners=(), fstride=1, nocache=True, skip_sites=None, double=None):
        self.name = name
        # bulk_owners: objects that are plain copies of a described one (hundreds of identical pages): they are written
        # but contribute no sites / cross-reference entries of their own to the abstract seed;  fstride: the file is cut
        # at every fstride-th length only (long files whose every run is costly)
        self.bulk_owners = set(bulk_owners)
        self.fstride = fstride
        self.nocache = nocache            # cycle faults are also run with the entry points' caches off
        self.skip_sites = skip_sites      # predicate on site ids: sites left out of the abstract seed (copies)
        self.double = double              # () -> the same document with twice as many members (scaling check)
        self.revs = revs
        self.root = root
        self.info = info
        self.trailer_extra = dict(trailer_extra or {})
        self.sec = sec                    # encryptor.StdSec or None
        self.encrypt_obj = encrypt_obj    # objid of the Encrypt dictionary (written in clear)
        self.expect = list(expect)        # substrings extract_text must return on the undamaged document
        self.features = list(features)

    def all_objects(self):
        out = {}
        for r in self.revs:
            out.update(r.objects)
        return out

    def max_id(self):
        return max(self.all_objects())


# ------------------------------------------------------------------------------------------------ value helpers
def kind_of(v):
    if v is None:
        return "null"
    if isinstance(v, bool):
        return "bool"
    if isinstance(v, (int, Off)):
        return "int"
    if isinstance(v, float):
        return "real"
    if isinstance(v, Name):
        return "name"
    if isinstance(v, (bytes, bytearray, str)):
        return "string"
    if isinstance(v, (list, tuple)):
        return "array"
    if isinstance(v, dict):
        return "dict"
    if isinstance(v, Stream):
        return "stream"
    if isinstance(v, Ref):
        return "ref"
    raise MachineryError("faultdoc: value of unknown kind %r" % (v,))


def base_kind(v, objects, depth=0):
    """kind of the value a site holds, looking through references"""
    k = kind_of(v)
    if k != "ref":
        return k
    if depth > 8 or v.n not in objects:
        return "null"
    return base_kind(objects[v.n], objects, depth + 1)


def _walk(owner, ownerobj, v, path, objects, out, offsets=()):
    """enumerate sites below value v (v itself is reported by the caller)"""
    if isinstance(v, Stream):
        v = v.attrs
    if isinstance(v, dict):
        for k, x in v.items():
            p = path + (k,)
            out.append(_site(owner, ownerobj, p, "dict", x, objects, offsets))
            _walk(owner, ownerobj, x, p, objects, out, offsets)
    elif isinstance(v, (list, tuple)):
        for i, x in enumerate(v):
            p = path + (i,)
            out.append(_site(owner, ownerobj, p, "array", x, objects, offsets))
            _walk(owner, ownerobj, x, p, objects, out, offsets)


def _walk_content(owner, ownerobj, content, objects, out):
    for j, part in enumerate(content):
        if isinstance(part, tuple):
            sub = []
            _walk(owner, ownerobj, part[1], ("@%d" % j,), objects, sub)
            for st in sub:
                st["cls"] = "content"
            out.extend(sub)


def site_id(owner, path):
    return owner + "".join("/" + str(p) for p in path)


def _site(owner, ownerobj, path, cont, v, objects, offsets):
    cls = "offset" if (isinstance(v, Off) or (len(path) == 1 and path[0] in offsets)) else "value"
    return {"id": site_id(owner, path), "owner": owner, "ownerobj": ownerobj, "cont": cont,
            "base": base_kind(v, objects), "ind": isinstance(v, Ref), "cls": cls}


def _get_container(root, path):
    cur = root
    for p in path[:-1]:
        if isinstance(cur, Stream):
            cur = cur.attrs
        cur = cur[p if not isinstance(cur, (list, tuple)) else int(p)]
    if isinstance(cur, Stream):
        cur = cur.attrs
    return cur


DELETE = object()


def set_at(root, path, new):
    """-> new root with the value at `path` replaced (DELETE removes a dictionary key / array element)"""
    if not path:
        return new
    c = _get_container(root, path)
    last = path[-1]
    if isinstance(c, list):
        i = int(last)
        if new is DELETE:
            del c[i]
        else:
            c[i] = new
    elif isinstance(c, dict):
        if new is DELETE:
            del c[last]
        else:
            c[last] = new
    else:
        raise MachineryError("faultdoc: site %r is not inside a container" % (path,))
    return root


def parse_site(s):
    """'obj:5/Kids/0' -> ('obj:5', ['Kids', '0'])   (xrefent:0/5 keeps its entry number inside the owner)"""
    parts = s.split("/")
    if parts[0].startswith("xrefent:"):
        return parts[0] + "/" + parts[1], parts[2:]
    return parts[0], parts[1:]


# ------------------------------------------------------------------------------------------------ faults
class Fault:
    """one fault as enumerated by Faults.tla:
         cls value   : site, kind in retype|delete|ref_self|ref_missing|ref_loop1|ref_loop2|
                                     off_self|off_dangling|off_cycle|off_garbage|off_ws|off_self_ws|off_cycle_ws|rawstr|
                                     empty (to: the kind, 'r_' + kind behind a reference),  to (retype: target kind,
                                     'x' direct / 'r_x' through a reference), variant
         cls payload : site = owner of the stream, kind corrupt|truncate|setfield, pos, mode (corrupt: flip|low;
                       setfield: zero|max|beyond, variant = width of the field)
         cls file    : kind truncate, pos = number of bytes kept
         cls multi   : kind dup_kids_all (every /Kids element written twice at every level)
         mode nocache (cycle faults and dup_kids_all): the entry points are run with their caches off
         cls xrefent : site = xrefent:k/n, kind ent_dangling|ent_other|ent_mid|ent_free|ent_in_self|ent_in_cycle2|ent_in_missing|
                                                ent_in_nonstream|ent_idx_big"""

    def __init__(self, d):
        self.d = dict(d)
        self.cls = d["cls"]
        self.site = d.get("site", "")
        self.kind = d["kind"]
        self.to = d.get("to", "")
        self.variant = int(d.get("variant", 0))
        self.pos = int(d.get("pos", 0))
        self.mode = d.get("mode", "")
        self.owner, self.path = parse_site(self.site) if self.site else ("", [])
        self.nocache = self.mode == "nocache"       # run the entry points with their caches off

    def label(self):
        x = self.kind
        if self.kind == "retype":
            x += "->%s.%d" % (self.to, self.variant)
        if self.kind == "rawstr":
            x += ".%d" % self.variant
        if self.kind == "empty":
            x += "->" + self.to
        if self.kind == "extreme":
            x += ".%d" % self.variant
        if self.cls in ("payload", "file"):
            x += "@%d%s" % (self.pos, ("." + self.mode) if self.mode else "")
        elif self.nocache:
            x += ".nocache"
        return x

    def key(self):
        return "%s|%s" % (self.site or "file", self.label())


def plan(f, base):
    """-> (helper objects {objid: value} the fault needs, make(ownerobj, k) -> the value planted at the site).
    Helper objects are numbered above everything in use and are written as ordinary objects of the last revision."""
    helpers = {}

    def add(v):
        n = base + 1 + len(helpers)
        helpers[n] = v
        return Ref(n)

    if f is None or f.cls != "value":
        return helpers, None
    if f.kind == "delete":
        fixed = DELETE
    elif f.kind == "retype":
        ind = f.to.startswith("r_")
        kind = f.to[2:] if ind else f.to
        if kind == "stream":
            v = Stream({"Type": Name("Xq")}, b"q Q")
            ind = True
        else:
            v = copy.deepcopy(REPR[(kind, 0 if kind in SINGLE_VARIANT else f.variant)])
        fixed = add(v) if ind else v
    elif f.kind == "empty":
        ind = f.to.startswith("r_")
        v = copy.deepcopy(EMPTY[f.to[2:] if ind else f.to])
        fixed = add(v) if ind else v
    elif f.kind == "extreme":
        fixed = copy.deepcopy(EXTREME[(f.to, f.variant)])
    elif f.kind == "rawstr":
        # encrypted documents: a string whose bytes in the file are no ciphertext (Raw bypasses the encryption
        # transform of the serialiser) and are shorter than an AES initialization vector
        fixed = Raw(b"(abc)") if f.variant == 0 else add(Raw(b"<4142>"))
    elif f.kind == "ref_missing":
        fixed = Ref(base + 40)
    elif f.kind == "ref_loop1":
        n = base + 1
        helpers[n] = Ref(n)
        fixed = Ref(n)
    elif f.kind == "ref_loop2":
        n = base + 1
        helpers[n] = Ref(n + 1)
        helpers[n + 1] = Ref(n)
        fixed = Ref(n)
    elif f.kind == "off_dangling":
        fixed = Off("eof", 1000)
    elif f.kind == "off_cycle":
        fixed = Off("xref", -1)          # the newest section: every chain that reaches it starts over
    elif f.kind == "off_cycle_ws":
        fixed = Off("xref", -1, ws=True)
    elif f.kind == "off_garbage":
        fixed = Off("mid", 0)
    elif f.kind in ("ref_self", "off_self", "off_self_ws", "off_ws"):
        fixed = None
    else:
        raise MachineryError("faultdoc: unknown fault kind %r" % f.kind)

    def make(ownerobj, k):
        if f.kind == "ref_self":
            if not ownerobj:
                raise MachineryError("faultdoc: ref_self at a site without an enclosing object: %s" % f.site)
            return Ref(ownerobj)
        if f.kind == "off_self":
            return Off("xref", k)
        if f.kind == "off_self_ws":
            return Off("xref", k, ws=True)
        return copy.deepcopy(fixed) if fixed is not DELETE else DELETE

    return helpers, make


# ------------------------------------------------------------------------------------------------ assembling
def _resolve_offs(v, lay):
    """replace Off sentinels by fixed-width numbers (second pass: real offsets)"""
    if isinstance(v, Off):
        return Raw(b"%010d" % lay.offset_of(v))
    if isinstance(v, Stream):
        return Stream(_resolve_offs(v.attrs, lay), v.data)
    if isinstance(v, dict):
        return {k: _resolve_offs(x, lay) for k, x in v.items()}
    if isinstance(v, (list, tuple)):
        return [_resolve_offs(x, lay) for x in v]
    return v


class Layout:
    def __init__(self):
        self.obj_off = {}       # objid -> offset of its newest direct definition
        self.xref_pos = []      # per revision
        self.xstm_pos = {}      # revision -> offset of its hybrid cross-reference stream
        self.size = 0
        self.derived = {}       # owner -> (ownerobj, value) of the (possibly damaged) document
        self.payloads = {}      # owner -> payload bytes as written
        self.contents = {}      # owner -> Content (structured content streams)
        self.entries = []       # per revision: {objid: (t, a, b)}
        self.first_obj = None

    def fingerprint(self):
        return (self.size, tuple(self.xref_pos), tuple(sorted(self.obj_off.items())), tuple(sorted(self.xstm_pos.items())))

    def offset_of(self, o):
        if o.ws:
            exact = self.offset_of(Off(o.what, o.arg))
            return exact - 1 if exact > 0 else 0
        if o.what == "xref":
            if not self.xref_pos:
                return 0
            k = o.arg if o.arg >= 0 else len(self.xref_pos) + o.arg
            return self.xref_pos[k] if k < len(self.xref_pos) else 0
        if o.what == "xstm":
            return self.xstm_pos.get(o.arg, 0)
        if o.what == "eof":
            return self.size + o.arg
        if o.what == "obj":
            return self.obj_off.get(o.arg, 0)
        if o.what == "mid":
            return (self.obj_off.get(self.first_obj, 0) + 12) if self.first_obj else 7
        raise MachineryError("faultdoc: bad offset sentinel %r" % (o,))


def font_program_header(owner, data, fontfiles):
    """-> (hdr, fields) for Faults.tla: length of the binary header of an embedded font program and its fields
    [offset, width].  TrueType / OpenType: offset table (12 bytes, numTables at 4) + 16-byte directory records (offset
    at +8, length at +12) + 8 bytes; any other program: its first 32 bytes, no fields."""
    if owner not in fontfiles or not data:
        return 0, []
    if data[:4] in (b"\x00\x01\x00\x00", b"true", b"OTTO", b"typ1") and len(data) >= 12:
        n = int.from_bytes(data[4:6], "big")
        n = min(n, (len(data) - 12) // 16)
        fields = [[4, 2]]
        for i in range(n):
            fields += [[12 + 16 * i + 8, 4], [12 + 16 * i + 12, 4]]
        return min(len(data), 12 + 16 * n + 8), fields
    return min(len(data), 32), []


def _payload_fault(f, data):
    if f.kind == "truncate":
        return data[:f.pos]
    if f.kind == "setfield":
        width = f.variant
        if f.pos + width > len(data):
            raise MachineryError("faultdoc: field at %d+%d outside payload of %d bytes" % (f.pos, width, len(data)))
        top = (1 << (8 * width)) - 1
        value = {"zero": 0, "max": top, "beyond": min(top - 1, len(data) + 1000)}[f.mode]
        return data[:f.pos] + value.to_bytes(width, "big") + data[f.pos + width:]
    if f.kind == "corrupt":
        if f.pos >= len(data):
            raise MachineryError("faultdoc: corrupt position %d outside payload of %d bytes" % (f.pos, len(data)))
        b = bytearray(data)
        b[f.pos] ^= 0xFF if f.mode == "flip" else 0x01
        return bytes(b)
    raise MachineryError("faultdoc: unknown payload fault %r" % f.kind)


def assemble(seed, fault=None, header=b"%PDF-1.7\n%\xe2\xe3\xcf\xd3\n"):
    """-> (bytes, Layout).  fault: Fault or None.  Laid out repeatedly until the offsets it mentions are stable."""
    f = fault
    if f is not None and f.cls == "file":
        data, lay = assemble(seed, None, header)
        return data[:f.pos], lay
    prev = None
    for _ in range(4):
        data, lay = _assemble_once(seed, f, prev, header)
        if prev is not None and prev.fingerprint() == lay.fingerprint():
            return data, lay
        prev = lay
    raise MachineryError("faultdoc: layout of %s does not reach a fixed point" % seed.name)


def _assemble_once(seed, f, prevlay, header):
    lay = Layout()
    pl = prevlay or Layout()
    out = bytearray(header)
    sec = seed.sec
    if sec is not None:
        sec._ivc = 0
    helpers, make = plan(f, seed.max_id() + 20)
    size = 1
    nrev = len(seed.revs)
    applied = [0]
    dup_applied = [0]
    all_stm_ids = []          # object numbers of the object streams written so far (all revisions)
    newest = {}
    for k, rev in enumerate(seed.revs):
        for n in rev.objects:
            newest[n] = k

    def obj_owner(n, k):
        # a fault addressed to obj:n damages the definition in force (the newest one); shadowed ones are left alone
        return "obj:%d" % n if newest.get(n, k) == k else "old:%d.%d" % (k, n)

    def value_fault(owner, ownerobj, v, k):
        """apply f to owner's derived value when it is addressed to it"""
        if make is None or f.owner != owner or (f.path and f.path[0].startswith("@")):
            return v
        applied[0] += 1
        if f.kind == "off_ws":
            # the same target, written as the offset of the white space in front of it
            cur = v if not f.path else _get_container(v, f.path)[f.path[-1]]
            if not isinstance(cur, Off):
                raise MachineryError("faultdoc: off_ws at %s, which holds no file offset" % f.site)
            return set_at(v, f.path, Off(cur.what, cur.arg, ws=True))
        return set_at(v, f.path, make(ownerobj, k))

    def payload(owner, data):
        if f is not None and f.cls == "payload" and f.owner == owner:
            data = _payload_fault(f, data)
            applied[0] += 1
        lay.payloads[owner] = data
        return data

    def transform(n):
        if sec is None or n == seed.encrypt_obj:
            return None
        return sec.transform_for(exempt={seed.encrypt_obj} if seed.encrypt_obj else ())(n, 0)

    for k, rev in enumerate(seed.revs):
        objects = copy.deepcopy(rev.objects)
        if f is not None and f.cls == "multi":
            # dup_kids_all: every element of every /Kids array is written twice, at every level at once
            for v in objects.values():
                if isinstance(v, dict) and isinstance(v.get("Kids"), list) and v["Kids"]:
                    v["Kids"] = [x for kid in v["Kids"] for x in (kid, copy.deepcopy(kid))]
                    dup_applied[0] += 1
        last = k == nrev - 1
        if last:
            objects.update(copy.deepcopy(helpers))
        entries = {}
        packed = [n for n in rev.packed if n in objects] if rev.form != "table" else []

        def emit_object(n, v, owner, encrypt=True):
            """derive /Length, damage, serialise one direct object"""
            tr = transform(n) if encrypt else None
            if isinstance(v, Stream):
                d = v.data
                if isinstance(d, Content):
                    # a fault addressed to an entry of a dictionary inside the content (<owner>/@<part>/<key>)
                    if make is not None and f.owner == owner and f.path and f.path[0].startswith("@"):
                        d = Content(copy.deepcopy(list(d)))
                        part = d[int(f.path[0][1:])]
                        set_at(part[1], f.path[1:], make(n, k))
                        applied[0] += 1
                    lay.contents[owner] = d
                    d = d.render()
                if tr is not None:
                    d = tr("stream", d)          # encrypted documents: the payload as it stands in the file is damaged
                d = payload(owner, d)
                attrs = dict(v.attrs)
                attrs["Length"] = len(d)
                v = Stream(attrs, d)
            v = value_fault(owner, n, v, k)
            lay.derived[owner] = (n, v)
            v = _resolve_offs(v, pl)
            if isinstance(v, Stream):
                # the data is already encrypted; strings of the dictionary still are to be
                return ser(v.attrs, tr) + b"\nstream\n" + v.data + b"\nendstream"
            return ser(v, tr)

        def write_direct(n, body):
            if lay.first_obj is None:
                lay.first_obj = n
            lay.obj_off[n] = len(out)
            entries[n] = (1, len(out), 0)
            out.extend(b"%d 0 obj\n" % n + body + b"\nendobj\n")

        direct = [n for n in objects if n not in packed]
        for n in direct:
            write_direct(n, emit_object(n, objects[n], obj_owner(n, k)))
        maxid = max([size - 1] + list(objects))
        stm_id = xid = None
        if packed:
            stm_id = maxid = maxid + 1
        if rev.form == "stream" or (rev.form == "hybrid" and packed):
            xid = maxid = maxid + 1
        if packed:
            bodies = []
            for n in packed:
                v = value_fault(obj_owner(n, k), n, objects[n], k)
                lay.derived[obj_owner(n, k)] = (n, v)
                bodies.append(ser(_resolve_offs(v, pl)))
            pos = 0
            head = []
            for n, b in zip(packed, bodies):
                head.append(b"%d %d" % (n, pos))
                pos += len(b) + 1
            hd = b" ".join(head) + b"\n"
            st = Stream({"Type": Name("ObjStm"), "N": len(packed), "First": len(hd), "Filter": Name("FlateDecode")},
                        zlib.compress(hd + b"\n".join(bodies) + b"\n"))
            write_direct(stm_id, emit_object(stm_id, st, "objstm:%d" % k))
            all_stm_ids.append(stm_id)
            for i, n in enumerate(packed):
                entries[n] = (2, stm_id, i)

        trailer = dict(seed.trailer_extra)
        trailer["Root"] = seed.root
        if seed.info is not None:
            trailer["Info"] = seed.info
        if k > 0:
            trailer["Prev"] = Off("xref", k - 1)

        def entry_faults(ent, top):
            if f is None or f.cls != "xrefent" or not f.owner.startswith("xrefent:%d/" % k):
                return ent
            n = int(f.owner.split("/")[1])
            applied[0] += 1
            ent = dict(ent)
            others = [m for m in sorted(ent) if m != n and ent[m][0] == 1]
            nonstream = [m for m in others if m in objects and not isinstance(objects[m], Stream)]
            if f.kind == "ent_dangling":
                ent[n] = (1, 60000, 0)          # past the end of every seed document (and fits a 2-byte field)
            elif f.kind == "ent_other":
                ent[n] = (1, ent[others[0]][1] if others else 9, 0)
            elif f.kind == "ent_mid":
                ent[n] = (1, ent[n][1] + 3, 0) if ent[n][0] == 1 else (1, 9, 0)
            elif f.kind == "ent_free":
                ent[n] = (0, 0, 1)
            elif f.kind == "ent_in_self":
                ent[n] = (2, n, 0)
            elif f.kind == "ent_in_cycle2":
                # n is "stored in" m and m "stored in" n; m: another object stream of the document when there is one
                cands = [m for m in all_stm_ids if m != n] or others or [1]
                m = cands[0]
                ent[n] = (2, m, 0)
                ent[m] = (2, n, 0)
            elif f.kind == "ent_in_missing":
                ent[n] = (2, top + 30, 0)
            elif f.kind == "ent_in_nonstream":
                ent[n] = (2, (nonstream or others or [1])[0], 0)
            elif f.kind == "ent_idx_big":
                ent[n] = (2, ent[n][1] if ent[n][0] == 2 else (stm_id or (others or [1])[0]), 200)
            else:
                raise MachineryError("faultdoc: unknown xref entry fault %r" % f.kind)
            return ent

        def xref_stream(ids, extra, owner, first):
            pos = len(out)
            w = list(rev.xref_w)
            ent = {m: entries[m] for m in ids}
            ent[xid] = (1, pos, 0)
            if first:
                ent[0] = (0, 0, (1 << (8 * w[2])) - 1)
            lo, hi = min(ent), max(ent)
            for m in range(lo, hi + 1):
                ent.setdefault(m, (0, 0, 0))
            listed = dict(ent)
            ent = entry_faults(ent, hi)
            lay.entries.append(listed if len(ent) != len(listed) else dict(ent))   # (a fault may add an entry)
            lo, hi = min(ent), max(ent)
            for m in range(lo, hi + 1):
                ent.setdefault(m, (0, 0, 0))
            rows = []
            for m in sorted(ent):
                t, a, b = ent[m]
                rows.append(t.to_bytes(w[0], "big") + (a % (1 << (8 * w[1]))).to_bytes(w[1], "big")
                            + (b % (1 << (8 * w[2]))).to_bytes(w[2], "big"))
            d = {"Type": Name("XRef"), "Size": max(hi, maxid) + 1, "W": w, "Index": [lo, hi - lo + 1],
                 "Filter": Name("FlateDecode")}
            if rev.xref_predictor:
                enc = bytearray()
                above = bytes(sum(w))
                for r in rows:
                    enc.append(2)
                    enc += bytes((x - y) & 255 for x, y in zip(r, above))
                    above = r
                raw = bytes(enc)
                d["DecodeParms"] = {"Columns": sum(w), "Predictor": 12}
            else:
                raw = b"".join(rows)
            d.update(extra)
            body = emit_object(xid, Stream(d, zlib.compress(raw)), owner, encrypt=False)
            lay.obj_off[xid] = pos
            out.extend(b"%d 0 obj\n" % xid + body + b"\nendobj\n")
            return pos

        if rev.form == "stream":
            xpos = xref_stream(list(entries), trailer, "xref:%d" % k, k == 0)
        else:
            tab = {n: e for n, e in entries.items() if e[0] != 2}
            if rev.form == "hybrid" and packed:
                cids = [n for n in entries if entries[n][0] == 2]
                lay.xstm_pos[k] = xref_stream(cids, {}, "xref:%d" % k, False)
                tab[xid] = (1, lay.xstm_pos[k], 0)
                trailer["XRefStm"] = Off("xstm", k)
            if k == 0:
                tab.setdefault(0, (0, 0, 65535))
            if not (rev.form == "hybrid" and packed):
                tab = entry_faults(tab, max(tab))
                lay.entries.append(dict(tab))
            xpos = len(out)
            out += b"xref\n"
            ids = sorted(tab)
            i = 0
            while i < len(ids):
                j = i
                while j + 1 < len(ids) and ids[j + 1] == ids[j] + 1:
                    j += 1
                out += b"%d %d\n" % (ids[i], j - i + 1)
                for m in ids[i:j + 1]:
                    t, a, b = tab[m]
                    if t == 2:          # (a damaged entry a table cannot express is written as free)
                        t, a, b = 0, 0, 0
                    out += b"%010d %05d %s \n" % (a, b, b"n" if t == 1 else b"f")
                i = j + 1
            trailer["Size"] = max(max(tab), maxid) + 1
            owner = "trailer:%d" % k
            trailer = value_fault(owner, 0, trailer, k)
            lay.derived[owner] = (0, trailer)
            out += b"trailer\n" + ser(_resolve_offs(trailer, pl)) + b"\n"
        lay.xref_pos.append(xpos)
        tail = value_fault("tail:%d" % k, 0, Off("xref", k), k)
        lay.derived["tail:%d" % k] = (0, tail)
        if tail is DELETE:
            out += b"%%EOF\n"
        else:
            tv = _resolve_offs(tail, pl)
            txt = (bytes(tv).lstrip(b"0") or b"0") if isinstance(tv, Raw) else ser(tv)
            out += b"startxref\n" + txt + b"\n%%EOF\n"
        size = maxid + 1
    lay.size = len(out)
    if f is not None and f.cls == "multi":
        if not dup_applied[0]:
            raise MachineryError("faultdoc: dup_kids_all found no /Kids array in %s" % seed.name)
    elif f is not None and f.cls != "file" and applied[0] != 1 and prevlay is not None:
        raise MachineryError("faultdoc: fault %s was applied %d times to %s" % (f.key(), applied[0], seed.name))
    return bytes(out), lay


# ------------------------------------------------------------------------------------------------ sites of a seed
OFFSET_KEYS = ("Prev", "XRefStm")


def describe(seed):
    """abstract seed for Faults.tla: value sites, stream payloads, cross-reference entries, file length"""
    data, lay = assemble(seed)
    objects = seed.all_objects()
    sites = []
    streams = []
    for owner, (ownerobj, v) in lay.derived.items():
        if owner.startswith("tail:"):
            sites.append({"id": owner, "owner": owner, "ownerobj": 0, "cont": "root", "base": "int", "ind": False,
                          "cls": "offset"})
            continue
        if owner.startswith("old:") or owner in seed.bulk_owners:
            continue
        derived_owner = not owner.startswith("obj:")
        if not derived_owner:
            sites.append(_site(owner, ownerobj, (), "root", v, objects, ()))
            sites[-1]["id"] = owner
        _walk(owner, ownerobj, v, (), objects, sites, OFFSET_KEYS if derived_owner else ())
        if owner in lay.contents:
            _walk_content(owner, ownerobj, lay.contents[owner], objects, sites)
    # embedded font programs: the streams FontFile / FontFile2 / FontFile3 of a font descriptor refer to
    fontfiles = set()
    for v in objects.values():
        if isinstance(v, dict):
            for key in ("FontFile", "FontFile2", "FontFile3"):
                if isinstance(v.get(key), Ref):
                    fontfiles.add("obj:%d" % v[key].n)
    for owner, p in lay.payloads.items():
        if owner.startswith("old:"):
            continue
        hdr, fields = font_program_header(owner, p, fontfiles)
        streams.append({"id": owner, "plen": len(p), "hdr": hdr, "fields": fields})
    ents = []
    for k, e in enumerate(lay.entries):
        form = seed.revs[k].form
        for n, (t, a, b) in sorted(e.items()):
            if t != 0 and ("obj:%d" % n) not in seed.bulk_owners:
                ents.append({"id": "xrefent:%d/%d" % (k, n), "form": "table" if form == "table" else "stream",
                             "t": t})
    direct = set()
    for rev in seed.revs:
        packed = set(rev.packed) if rev.form != "table" else set()
        direct.update("obj:%d" % n for n in rev.objects if n not in packed)
        direct.difference_update("obj:%d" % n for n in rev.objects if n in packed)
    if seed.skip_sites:
        sites = [x for x in sites if not seed.skip_sites(x["id"])]
    return {"name": seed.name, "sites": sites, "streams": streams, "ents": ents, "flen": len(data),
            "nocache": seed.nocache,
            "enc": seed.sec is not None, "direct_owners": sorted(direct), "fstride": seed.fstride}, data, lay
