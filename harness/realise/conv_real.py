"""C11 - converters: the model's alphabet, a Python transcription of the reference operators of
specs/conv/ConvOps.tla (validated against TLC's own output on every enumerated tree before it is used as an
oracle), realisers (layout trees built directly from LT* objects; generated PDFs with hostile glyph text,
font names and XObject names) and the projection  real LT tree -> model tree.

Model characters are small integers (see ConvOps.tla): 1..9 classes of document characters, 10..18 further
single characters, 20..69 atomic words, 100.. opaque number renderings.
"""
import io
import logging

logging.disable(logging.CRITICAL)

from ..tlc import MachineryError  # noqa: E402
from .pdfwriter import Name, Ref, Revision, Stream, build, ser_name  # noqa: E402
from .fontpdf import tounicode_cmap  # noqa: E402

from pdfminer.converter import PDFPageAggregator, TextConverter, XMLConverter  # noqa: E402
from pdfminer.layout import (LAParams, LTAnno, LTChar, LTContainer, LTCurve, LTExpandableContainer, LTFigure,  # noqa: E402
                             LTImage, LTLine, LTPage, LTRect, LTTextBox, LTTextBoxHorizontal, LTTextBoxVertical,
                             LTTextGroup, LTTextGroupLRTB, LTTextLine, LTTextLineHorizontal)
from pdfminer.pdfcolor import PDFColorSpace  # noqa: E402
from pdfminer.pdfinterp import PDFGraphicState, PDFPageInterpreter, PDFResourceManager  # noqa: E402
from pdfminer.pdfpage import PDFPage  # noqa: E402
from pdfminer.pdftypes import PDFStream  # noqa: E402

# ------------------------------------------------------------------------------------------------ alphabet
PLAIN, LT, GT, AMP, QUOT, APOS, CTRL, NONASCII, ASTRAL = range(1, 10)
SLASH, EQ, SP, LF, SEMI, QM, FF, BOM, HASH = range(10, 19)
PLUS, TILDE, SI, SO = 19, 98, 96, 97
PCT, LBRACE, RBRACE, FMT = 32, 33, 34, 35
WIDE = 36
GARBAGE = 99
WORDS = {20: "pages", 21: "page", 22: "textbox", 23: "textline", 24: "text", 25: "figure", 26: "image", 27: "line",
         28: "rect", 29: "curve", 30: "layout", 31: "textgroup",
         40: "id", 41: "bbox", 42: "rotate", 43: "font", 44: "colourspace", 45: "ncolour", 46: "size", 47: "name",
         48: "linewidth", 49: "pts", 50: "wmode", 51: "src", 52: "width", 53: "height", 54: "version", 55: "encoding",
         56: "xml", 60: "lt", 61: "gt", 62: "amp", 63: "quot", 64: "x27", 65: "vertical", 66: "1.0", 68: ".bmp"}
SINGLE = {LT: "<", GT: ">", AMP: "&", QUOT: '"', APOS: "'", SLASH: "/", EQ: "=", SP: " ", LF: "\n", SEMI: ";", QM: "?",
          FF: "\f", BOM: "﻿", HASH: "#"}
SINGLE.update({PLUS: "+", TILDE: "~", PCT: "%", LBRACE: "{", RBRACE: "}"})
# several concrete members per class (the replay also checks that class members are treated alike)
REPS = [{PLAIN: "a", CTRL: "\x01", NONASCII: "\xe9", ASTRAL: "\U0001F600", FMT: "s", WIDE: "α"},
        {PLAIN: "Z", CTRL: "\x1f", NONASCII: "中", ASTRAL: "\U0001D11E", FMT: "d", WIDE: "中"},
        {PLAIN: "7", CTRL: "\x0b", NONASCII: "\xff", ASTRAL: "\U00010348", FMT: "0", WIDE: "€"}]
F_ID, F_BBOX, F_ROTATE, F_CS, F_NCOLOUR, F_SIZE, F_LINEWIDTH, F_PTS, F_WIDTH, F_HEIGHT = range(10)
E_PAGES, E_PAGE, E_TEXTBOX, E_TEXTLINE, E_TEXT, E_FIGURE, E_IMAGE, E_LINE, E_RECT, E_CURVE, E_LAYOUT, E_TEXTGROUP = range(20, 32)
A_ID, A_BBOX, A_ROTATE, A_FONT, A_CS, A_NCOLOUR, A_SIZE, A_NAME, A_LINEWIDTH, A_PTS, A_WMODE, A_SRC, A_WIDTH, A_HEIGHT, \
    A_VERSION, A_ENCODING, W_XML = range(40, 57)
W_LT, W_GT, W_AMP, W_QUOT, W_X27, W_VERTICAL, W_ONEZERO, W_CODEC, W_EXT = range(60, 69)
CONTAINERS = {"page", "textboxh", "textboxv", "textline", "figure", "layout", "textgroup"}
TEXTBOXES = {"textboxh", "textboxv"}
ELEM = {"page": E_PAGE, "textboxh": E_TEXTBOX, "textboxv": E_TEXTBOX, "textline": E_TEXTLINE, "char": E_TEXT, "anno": E_TEXT,
        "figure": E_FIGURE, "image": E_IMAGE, "line": E_LINE, "rect": E_RECT, "curve": E_CURVE, "layout": E_LAYOUT,
        "textgroup": E_TEXTGROUP, "boxref": E_TEXTBOX}
K_UTF8, K_UTF16, K_LATIN1, K_UTF7, K_HZ, K_ISO2022 = 1, 2, 3, 4, 5, 6
CODEC = {K_UTF8: "utf-8", K_UTF16: "utf-16", K_LATIN1: "latin-1", K_UTF7: "utf-7", K_HZ: "hz", K_ISO2022: "iso2022_jp"}
ESCAPE_CHAR = {K_UTF7: PLUS, K_HZ: TILDE}
ALLDEVS = ["FigureNameRaw", "TextSinkUtf8", "BomPerWrite", "AsciiBypass"]
# [\x00-\x08\x0b-\x0c\x0e-\x1f]: every C0 control but TAB LF CR - exactly what XML 1.0 cannot carry
CONTROL_CHARS = "".join(chr(c) for c in list(range(0, 9)) + [11, 12] + list(range(14, 32)))


def num(i, f):
    """opaque number rendering of field f of node i (as in ConvOps.tla for the small trees TLC enumerates; negative for
    the big trees of real documents, where 1000 + code point stands for an ordinary character)"""
    return [100 + 10 * i + f] if i < 90 else [-(10 * i + f)]


def numkey(i, f):
    return num(i, f)[0]


# ------------------------------------------------------------------------------------------------ reference (ConvOps.tla)
def enc(s):
    out = []
    for c in s:
        out += {LT: [AMP, W_LT, SEMI], GT: [AMP, W_GT, SEMI], AMP: [AMP, W_AMP, SEMI], QUOT: [AMP, W_QUOT, SEMI],
                APOS: [AMP, HASH, W_X27, SEMI]}.get(c, [c])
    return out


def strip_ctl(s):
    return [c for c in s if c not in (CTRL, FF) and not (c >= 1000 and chr(c - 1000) in CONTROL_CHARS)]


def attr(n, v):
    return [SP, n, EQ, QUOT] + list(v) + [QUOT]


def close_tag(e):
    return [LT, SLASH, e, GT, LF]


def xml_header(has_codec):
    return [LT, QM, W_XML] + attr(A_VERSION, [W_ONEZERO]) + (attr(A_ENCODING, [W_CODEC]) if has_codec else []) + [SP, QM, GT, LF]


def xml_open(T, i, dev, imgw):
    """i is 1-based as in the specification"""
    n = T[i - 1]
    k = n["k"]
    if k == "page":
        return [LT, E_PAGE] + attr(A_ID, num(i, F_ID)) + attr(A_BBOX, num(i, F_BBOX)) + attr(A_ROTATE, num(i, F_ROTATE)) + [GT, LF]
    if k in ("line", "rect"):
        return [LT, ELEM[k]] + attr(A_LINEWIDTH, num(i, F_LINEWIDTH)) + attr(A_BBOX, num(i, F_BBOX)) + [SP, SLASH, GT, LF]
    if k == "curve":
        return ([LT, E_CURVE] + attr(A_LINEWIDTH, num(i, F_LINEWIDTH)) + attr(A_BBOX, num(i, F_BBOX)) + attr(A_PTS, num(i, F_PTS))
                + [SLASH, GT, LF])
    if k == "figure":
        return [LT, E_FIGURE] + attr(A_NAME, n["s"] if "FigureNameRaw" in dev else enc(n["s"])) + attr(A_BBOX, num(i, F_BBOX)) + [GT, LF]
    if k == "textline":
        return [LT, E_TEXTLINE] + attr(A_BBOX, num(i, F_BBOX)) + [GT, LF]
    if k in TEXTBOXES:
        return ([LT, E_TEXTBOX] + attr(A_ID, num(i, F_ID)) + attr(A_BBOX, num(i, F_BBOX))
                + (attr(A_WMODE, [W_VERTICAL]) if k == "textboxv" else []) + [GT, LF])
    if k == "char":
        return ([LT, E_TEXT] + attr(A_FONT, enc(n["f"])) + attr(A_BBOX, num(i, F_BBOX)) + attr(A_CS, num(i, F_CS))
                + attr(A_NCOLOUR, num(i, F_NCOLOUR)) + attr(A_SIZE, num(i, F_SIZE)) + [GT])
    if k == "anno":
        return [LT, E_TEXT, GT] + list(n["s"]) + [LT, SLASH, E_TEXT, GT, LF]
    if k == "image":
        return ([LT, E_IMAGE] + (attr(A_SRC, enc(n["s"]) + [W_EXT]) if imgw else [])
                + attr(A_WIDTH, num(i, F_WIDTH)) + attr(A_HEIGHT, num(i, F_HEIGHT)) + [SP, SLASH, GT, LF])
    if k == "layout":
        return [LT, E_LAYOUT, GT, LF]
    if k == "textgroup":
        return [LT, E_TEXTGROUP] + attr(A_BBOX, num(i, F_BBOX)) + [GT, LF]
    if k == "boxref":
        return [LT, E_TEXTBOX] + attr(A_ID, num(n["a"], F_ID)) + attr(A_BBOX, num(n["a"], F_BBOX)) + [SP, SLASH, GT, LF]
    raise MachineryError("unknown node kind %r" % k)


def sub_end(T, i):
    d = T[i - 1]["d"]
    j = i
    while j < len(T) and T[j]["d"] > d:
        j += 1
    return j


def children(T, i):
    d = T[i - 1]["d"]
    return [j for j in range(i + 1, sub_end(T, i) + 1) if T[j - 1]["d"] == d + 1]


def roots(T):
    return [j for j in range(1, len(T) + 1) if T[j - 1]["d"] == 0]


def node_text(T, i):
    k = T[i - 1]["k"]
    if k in ("char", "anno"):
        return list(T[i - 1]["s"])
    if k == "layout" or k not in CONTAINERS:
        return []
    out = []
    for j in children(T, i):
        out += node_text(T, j)
    if k in TEXTBOXES:
        out.append(LF)
    if k == "page":
        out.append(FF)
    return out


def tree_text(T):
    out = []
    for j in roots(T):
        out += node_text(T, j)
    return out


def write_pieces(T, conv, strip, imgw, dev):
    """the sequence of write() calls of the serialiser machine of Converters.tla: [(text for the text sink, text for a
    binary sink)] - implementation-shaped (iterative with an explicit stack, like AEnter/ACharText/AExit/AClose)."""
    out = []
    N = len(T)
    i = 1
    stack = []
    if conv == "xml":
        out.append((xml_header(False), xml_header(True)))
        out.append(([LT, E_PAGES, GT, LF],) * 2)
    while True:
        descend = i <= N and (not stack or T[i - 1]["d"] > T[stack[-1] - 1]["d"])
        if descend:
            k = T[i - 1]["k"]
            if conv == "text":
                if k == "layout":
                    i = sub_end(T, i) + 1
                    continue
                if k in ("char", "anno"):
                    out.append((list(T[i - 1]["s"]),) * 2)
                elif k in CONTAINERS:
                    stack.append(i)
                i += 1
            else:
                out.append((xml_open(T, i, dev, imgw),) * 2)
                if k == "char":
                    s = T[i - 1]["s"]
                    out.append((enc(strip_ctl(s) if strip else s),) * 2)
                    out.append((close_tag(E_TEXT),) * 2)
                elif k in CONTAINERS:
                    stack.append(i)
                i += 1
        elif stack:
            k = T[stack.pop() - 1]["k"]
            if conv == "text":
                if k in TEXTBOXES:
                    out.append(([LF],) * 2)
                elif k == "page":
                    out.append(([FF],) * 2)
            else:
                out.append((close_tag(ELEM[k]),) * 2)
        else:
            break
    if conv == "xml":
        out.append((close_tag(E_PAGES),) * 2)
    return out


def model_chars(T, conv, strip, imgw, dev):
    out = []
    for t, _ in write_pieces(T, conv, strip, imgw, dev):
        out += t
    return out


def model_units(T, conv, strip, imgw, dev, e):
    """-> [(character, codec it was encoded with)]  (TLC's unit c + 1000 * e); shifting codecs: see model_units_shift"""
    used = K_UTF8 if (conv == "text" and "TextSinkUtf8" in dev) else e
    out = []
    first = True
    for _, b in write_pieces(T, conv, strip, imgw, dev):
        if used == K_UTF16 and (first or "BomPerWrite" in dev):
            out.append((BOM, used))
        out += [(c, used) for c in b]
        first = False
    return out


def model_units_shift(T, conv, strip, imgw, dev, e):
    """the sink of a shifting codec (utf-7, hz, iso2022_jp) as TLC's integers c + 1000*e + 100000*m (EncShift / ShiftCall)"""
    used = K_UTF8 if (conv == "text" and "TextSinkUtf8" in dev) else e
    out = []
    sh = False
    for _, b in write_pieces(T, conv, strip, imgw, dev):
        if used != e or ("AsciiBypass" in dev and all(c not in (NONASCII, WIDE, ASTRAL, BOM, GARBAGE) for c in b)):
            out += [c + 1000 * used for c in b]
            continue
        for c in b:
            sh2 = c in (NONASCII, WIDE, ASTRAL)
            if sh2 and not sh:
                out.append(SI + 1000 * e)
            elif sh and not sh2:
                out.append(SO + 1000 * e)
            out.append(c + 1000 * e + (200000 if sh2 else 100000 if c == ESCAPE_CHAR.get(e) else 0))
            sh = sh2
    return out


def reference_bytes(T, conv, strip, imgw, con, codec, errors):
    """the bytes a standard incremental encoder of `codec` produces for the model's sequence of writes (intended design)"""
    import codecs as _c
    encoder = _c.getincrementalencoder(codec)(errors)
    out = bytearray()
    for _, b in write_pieces(T, conv, strip, imgw, set()):
        out += encoder.encode(con.text(b))
    return bytes(out)


def ev(e, n, v=()):
    return (e, n, tuple(v))


def open_events(T, i, imgw):
    n = T[i - 1]
    k = n["k"]
    out = [ev("open", ELEM[k])]
    A = lambda a, v: out.append(ev("attr", a, v))  # noqa: E731
    if k == "page":
        A(A_ID, num(i, F_ID)), A(A_BBOX, num(i, F_BBOX)), A(A_ROTATE, num(i, F_ROTATE))
    elif k in ("line", "rect"):
        A(A_LINEWIDTH, num(i, F_LINEWIDTH)), A(A_BBOX, num(i, F_BBOX))
    elif k == "curve":
        A(A_LINEWIDTH, num(i, F_LINEWIDTH)), A(A_BBOX, num(i, F_BBOX)), A(A_PTS, num(i, F_PTS))
    elif k == "figure":
        A(A_NAME, n["s"]), A(A_BBOX, num(i, F_BBOX))
    elif k in ("textline", "textgroup"):
        A(A_BBOX, num(i, F_BBOX))
    elif k in TEXTBOXES:
        A(A_ID, num(i, F_ID)), A(A_BBOX, num(i, F_BBOX))
        if k == "textboxv":
            A(A_WMODE, [W_VERTICAL])
    elif k == "char":
        A(A_FONT, n["f"]), A(A_BBOX, num(i, F_BBOX)), A(A_CS, num(i, F_CS)), A(A_NCOLOUR, num(i, F_NCOLOUR)), A(A_SIZE, num(i, F_SIZE))
    elif k == "image":
        if imgw:
            A(A_SRC, list(n["s"]) + [W_EXT])
        A(A_WIDTH, num(i, F_WIDTH)), A(A_HEIGHT, num(i, F_HEIGHT))
    elif k == "boxref":
        A(A_ID, num(n["a"], F_ID)), A(A_BBOX, num(n["a"], F_BBOX))
    return out


def node_events(T, i, strip, imgw):
    k = T[i - 1]["k"]
    out = open_events(T, i, imgw)
    if k == "char":
        s = strip_ctl(T[i - 1]["s"]) if strip else T[i - 1]["s"]
        if s:
            out.append(ev("chars", 0, s))
    elif k == "anno":
        if T[i - 1]["s"]:
            out.append(ev("chars", 0, T[i - 1]["s"]))
    else:
        for j in children(T, i):
            out += node_events(T, j, strip, imgw)
    out.append(ev("close", ELEM[k]))
    return out


def tree_events(T, strip, imgw):
    out = [ev("open", E_PAGES)]
    for j in roots(T):
        out += node_events(T, j, strip, imgw)
    out.append(ev("close", E_PAGES))
    return out


# ------------------------------------------------------------------------------------------------ concretisation
class Concrete:
    """maps model characters to real ones for one realised tree: class representatives, number renderings, codec name"""

    def __init__(self, rep=0, nums=None, codec=None):
        self.rep = REPS[rep % len(REPS)]
        self.nums = nums or {}
        self.codec = codec

    def ch(self, c):
        if c in SINGLE:
            return SINGLE[c]
        if c in self.rep:
            return self.rep[c]
        if c == W_CODEC:
            return self.codec or "?"
        if c in WORDS:
            return WORDS[c]
        if c >= 1000:
            return chr(c - 1000)
        if c >= 100 or c < 0:
            return self.nums[c]
        raise MachineryError("model character %r has no concrete form" % c)

    def text(self, s):
        return "".join(self.ch(c) for c in s)

    def units(self, us):
        """as-coded byte content of a binary sink: every unit encoded with the codec the model says was used"""
        out = bytearray()
        for (c, e) in us:
            if c == BOM:
                out += b"\xff\xfe" if e == K_UTF16 else "﻿".encode(CODEC[e])
            else:
                cod = CODEC[e] if e != K_UTF16 else "utf-16-le"
                out += self.ch(c).encode(cod)
        return bytes(out)


# ------------------------------------------------------------------------------------------------ direct realisation
class StubFont:
    def __init__(self, fontname):
        self.fontname = fontname

    def is_vertical(self):
        return False

    def get_descent(self):
        return -0.25


class StubImageWriter:
    """stands for ImageWriter(output_dir): returns the file name the image would get (C18 is about the files)"""

    def export_image(self, image):
        return image.name + ".bmp"


def fmt_bbox(bb):
    return ",".join("%.3f" % v for v in bb)


def node_nums(i, obj, out):
    """number renderings of node i, computed here with plain % formatting from the real object"""
    def put(f, s):
        out[numkey(i, f)] = s
    if isinstance(obj, LTPage):
        put(F_ID, "%s" % obj.pageid), put(F_BBOX, fmt_bbox(obj.bbox)), put(F_ROTATE, "%d" % obj.rotate)
    elif isinstance(obj, LTTextBox):
        put(F_ID, "%d" % obj.index), put(F_BBOX, fmt_bbox(obj.bbox))
    elif isinstance(obj, LTChar):
        put(F_BBOX, fmt_bbox(obj.bbox)), put(F_CS, obj.ncs.name), put(F_NCOLOUR, "%s" % (obj.graphicstate.ncolor,))
        put(F_SIZE, "%.3f" % obj.size)
    elif isinstance(obj, LTImage):
        put(F_WIDTH, "%d" % obj.width), put(F_HEIGHT, "%d" % obj.height)
    elif isinstance(obj, LTCurve):
        put(F_LINEWIDTH, "%d" % obj.linewidth), put(F_BBOX, fmt_bbox(obj.bbox))
        put(F_PTS, ",".join("%.3f,%.3f" % p for p in obj.pts))
    elif isinstance(obj, (LTFigure, LTTextLine, LTTextGroup)):
        put(F_BBOX, fmt_bbox(obj.bbox))


def build_direct(T, con, size_of=None, line_y=False, page_size=None):
    """model tree -> (list of real LTPage objects, number renderings).  size_of(node, index): font size of a glyph
    (default: all different); line_y: the glyphs of one parent share their baseline"""
    objs = {}
    nums = {}
    pages = []
    gs = PDFGraphicState()
    ncs = PDFColorSpace("DeviceGray", 1)
    for i, n in enumerate(T, 1):
        k = n["k"]
        x = 10.0 * i
        if k == "page":
            o = LTPage(len(pages) + 1, (0, 0) + (page_size or (200 + i, 300 + i)))
            pages.append(o)
        elif k in TEXTBOXES:
            o = LTTextBoxHorizontal() if k == "textboxh" else LTTextBoxVertical()
            o.index = i - 1
        elif k == "textline":
            o = LTTextLineHorizontal(0.1)
        elif k == "char":
            par = max([j for j in range(1, i) if T[j - 1]["d"] == n["d"] - 1] or [0])
            o = LTChar((1, 0, 0, 1, x, 100.5 + (par if line_y else i)), StubFont(con.text(n["f"])), size_of(n, i) if size_of else 8 + i, 1, 0,
                       con.text(n["s"]), 0.5, 0, ncs, gs)
        elif k == "anno":
            o = LTAnno(con.text(n["s"]))
        elif k == "figure":
            o = LTFigure(con.text(n["s"]), (x, 5, 40, 30 + i), (1, 0, 0, 1, 0, 0))
        elif k == "image":
            o = LTImage(con.text(n["s"]), PDFStream({"W": 3, "H": 2, "BPC": 8, "CS": None}, b"\0" * 6), (x, 5, x + 3.6, 7.25))
        elif k == "line":
            o = LTLine(1.5, (x, 1), (x + 5, 1.125))
        elif k == "rect":
            o = LTRect(2, (x, 2, x + 4, 6.5))
        elif k == "curve":
            o = LTCurve(0, [(x, 0), (x + 1, 2.5), (x + 2, 0)])
        elif k == "layout":
            o = []
        elif k == "textgroup":
            o = None            # built after its children
        elif k == "boxref":
            o = objs[n["a"]]
        else:
            raise MachineryError("unknown node kind %r" % k)
        objs[i] = o
    # attach children bottom-up so that expandable containers get their boxes
    for i in range(len(T), 0, -1):
        k = T[i - 1]["k"]
        kids = [objs[j] for j in children(T, i)]
        o = objs[i]
        if k == "textgroup":
            objs[i] = LTTextGroupLRTB(kids)
        elif k == "layout":
            o.extend(kids)
        elif k in ("textboxh", "textboxv", "textline"):
            for c in kids:
                if isinstance(c, LTAnno):
                    LTContainer.add(o, c)
                else:
                    LTExpandableContainer.add(o, c)
        elif k in ("page", "figure"):
            for j, c in zip(children(T, i), kids):
                if T[j - 1]["k"] == "layout":
                    o.groups = c
                else:
                    LTContainer.add(o, c)
    for i in range(1, len(T) + 1):
        if T[i - 1]["k"] not in ("layout", "boxref", "anno"):
            node_nums(i, objs[i], nums)
    return pages, nums


TEXT_SINK_CODEC = {0: None, 1: "utf-8", 3: "latin-1", 7: "ascii", 9: ""}      # tNONE, tUTF8, tLATIN1, tASCII, tEMPTY of ConvOps.tla


def run_converter(pages, conv, sink, codec, strip, imgw, text_codec="utf-8"):
    """the real converter over real LTPage objects -> what the sink holds (str or bytes).
    text_codec: the `codec` argument TextConverter is given together with a text sink (XMLConverter insists on none)"""
    rm = PDFResourceManager()
    fp = io.StringIO() if sink == "text" else io.BytesIO()
    cod = None if sink == "text" else codec
    if conv == "text":
        dev = TextConverter(rm, fp, codec=(text_codec if sink == "text" else (cod or "utf-8")), laparams=None)
    else:
        dev = XMLConverter(rm, fp, codec=(text_codec if (sink == "text" and text_codec == "") else cod), laparams=None, imagewriter=StubImageWriter() if imgw else None, stripcontrol=strip)
    for p in pages:
        dev.receive_layout(p)
    dev.close()
    return fp.getvalue()


FILE_SINKS = {"wb": "wb", "w+b": "w+b", "ab": "ab", "a+b": "a+b", "xb": "xb", "x+b": "x+b", "w": "w", "w+": "w+", "a": "a"}
REPORTED_MODE = {"wb": "wb", "w+b": "rb+", "ab": "ab", "a+b": "ab+", "xb": "xb", "x+b": "xb+", "TemporaryFile": "rb+", "w": "w", "w+": "w+", "a": "a"}
BYTE_SINKS = {"BytesIO", "wb", "w+b", "ab", "a+b", "xb", "x+b", "TemporaryFile"}


def run_converter_on(pages, conv, kind, codec, strip, imgw, tmpdir):
    """the real converter writing to a sink of the given kind (ConvOps.tla: SinkKindsAll) -> (takes bytes?, content read back).
    Real files are opened in `tmpdir` with the given mode (text files with encoding utf-8); their reported mode must be the
    one the specification assumes (realiser self-check)."""
    import os
    import tempfile
    path = os.path.join(tmpdir, "sink_%s" % abs(hash((kind, conv, strip, imgw, id(pages)))))
    if kind == "StringIO":
        fp = io.StringIO()
    elif kind == "BytesIO":
        fp = io.BytesIO()
    elif kind == "TemporaryFile":
        fp = tempfile.TemporaryFile(dir=tmpdir)
    elif "b" in FILE_SINKS[kind]:
        fp = open(path, FILE_SINKS[kind])
    else:
        fp = open(path, FILE_SINKS[kind], encoding="utf-8", newline="")
    if kind not in ("StringIO", "BytesIO") and fp.mode != REPORTED_MODE[kind]:
        raise MachineryError("a file opened as %s reports mode %r, the specification assumes %r" % (kind, fp.mode, REPORTED_MODE[kind]))
    binary = kind in BYTE_SINKS
    rm = PDFResourceManager()
    try:
        if conv == "text":
            dev = TextConverter(rm, fp, codec=codec if binary else "utf-8", laparams=None)
        else:
            dev = XMLConverter(rm, fp, codec=codec if binary else None, laparams=None, imagewriter=StubImageWriter() if imgw else None,
                               stripcontrol=strip)
        for p in pages:
            dev.receive_layout(p)
        dev.close()
        if kind in ("StringIO", "BytesIO"):
            return binary, fp.getvalue()
        fp.flush()
        if kind == "TemporaryFile":
            fp.seek(0)
            return binary, fp.read()
        fp.close()
        with open(path, "rb") as f:
            raw = f.read()
        return binary, raw if binary else raw.decode("utf-8")
    finally:
        if kind not in ("StringIO", "BytesIO"):
            try:
                fp.close()
            except Exception:  # noqa: BLE001
                pass
            if os.path.exists(path):
                os.remove(path)


# ------------------------------------------------------------------------------------------------ projection real tree -> model tree
def classify(ch, exact=False):
    """a real character as a model character; exact: C0 controls keep their identity (Python reference only - the TLA+
    trace specification knows them as the class cCTRL)"""
    o = ord(ch)
    if ch in "<>&\"'":
        return {"<": LT, ">": GT, "&": AMP, '"': QUOT, "'": APOS}[ch]
    if ch == "\n":
        return LF
    if ch == " ":
        return SP
    if ch == "\f":
        return FF
    if ch == "+":
        return PLUS
    if ch == "~":
        return TILDE
    if o < 0x20 and ch not in "\t\r" and not exact:
        return CTRL                      # what XMLConverter.CONTROL strips and XML 1.0 cannot carry
    return 1000 + o


def encode_real(s):
    """a real string as model characters (exact: ordinary characters keep their code point)"""
    return [classify(c, True) for c in s]


def encode_trace(s):
    return [classify(c) for c in s]


def model_tree_of(T):
    """projected real tree (real strings) -> the same tree over model characters"""
    return [dict(n, s=encode_real(n["s"]), f=encode_real(n["f"])) for n in T]


def project(pages):
    """real LTPage objects -> (model tree with CONCRETE strings in s / f, list of real objects per node)"""
    T = []
    objs = []

    def add(k, d, o, s="", f="", a=0):
        T.append({"k": k, "d": d, "s": s, "f": f, "a": a})
        objs.append(o)
        return len(T)

    def walk(o, d):
        if isinstance(o, LTPage):
            me = add("page", d, o)
        elif isinstance(o, LTFigure):
            me = add("figure", d, o, s=o.name)
        elif isinstance(o, LTTextBox):
            me = add("textboxv" if isinstance(o, LTTextBoxVertical) else "textboxh", d, o)
        elif isinstance(o, LTTextLine):
            me = add("textline", d, o)
        elif isinstance(o, LTChar):
            return add("char", d, o, s=o.get_text(), f=o.fontname)
        elif isinstance(o, LTAnno):
            return add("anno", d, o, s=o.get_text())
        elif isinstance(o, LTImage):
            return add("image", d, o, s=o.name)
        elif isinstance(o, LTLine):
            return add("line", d, o)
        elif isinstance(o, LTRect):
            return add("rect", d, o)
        elif isinstance(o, LTCurve):
            return add("curve", d, o)
        else:
            raise MachineryError("layout item %r has no counterpart in the model" % type(o).__name__)
        boxes = {}
        for c in o:
            j = walk(c, d + 1)
            if isinstance(c, LTTextBox):
                boxes[id(c)] = j
        if isinstance(o, LTPage) and o.groups is not None:   # XMLConverter shows the grouping of a page only
            add("layout", d + 1, o.groups)

            def grp(g, dd):
                if isinstance(g, LTTextBox):
                    add("boxref", dd, g, a=boxes.get(id(g), 0))
                else:
                    add("textgroup", dd, g)
                    for c in g:
                        grp(c, dd + 1)
            for g in o.groups:
                grp(g, d + 2)
        return me

    for p in pages:
        walk(p, 0)
    return T, objs


class RealConcrete:
    """the concretisation for a projected real tree: strings are already real; numbers are rendered from the objects"""

    def __init__(self, objs, codec=None):
        self.nums = {}
        self.codec = codec
        for i, o in enumerate(objs, 1):
            if not isinstance(o, (list, LTAnno)):
                self._nums(i, o)

    def _nums(self, i, o):
        tmp = {}
        node_nums(i, o, tmp)
        self.nums.update(tmp)


def real_tree_text(T):
    """reference 1 on a projected real tree (strings are real strings)"""
    out = []

    def nt(i):
        k = T[i - 1]["k"]
        if k in ("char", "anno"):
            out.append(T[i - 1]["s"])
            return
        if k == "layout" or k not in CONTAINERS:
            return
        for j in children(T, i):
            nt(j)
        if k in TEXTBOXES:
            out.append("\n")
        if k == "page":
            out.append("\f")
    for j in roots(T):
        nt(j)
    return "".join(out)


_CTL = str.maketrans("", "", CONTROL_CHARS)


def strip_control(s):
    return s.translate(_CTL)


def real_tree_events(T, objs, strip, imgw, ext=".bmp"):
    """reference 3 on a projected real tree: SAX-like events with real strings; number renderings computed here.
    ext may be a callable name -> file name (the image writer's choice is C18's business)."""
    nums = {}
    for i, o in enumerate(objs, 1):
        if not isinstance(o, (list, LTAnno)):
            node_nums(i, o, nums)
    N = lambda i, f: nums[numkey(i, f)]  # noqa: E731
    out = [("open", "pages", {})]

    def ne(i):
        n = T[i - 1]
        k = n["k"]
        el = WORDS[ELEM[k]]
        if k == "page":
            at = {"id": N(i, F_ID), "bbox": N(i, F_BBOX), "rotate": N(i, F_ROTATE)}
        elif k in ("line", "rect"):
            at = {"linewidth": N(i, F_LINEWIDTH), "bbox": N(i, F_BBOX)}
        elif k == "curve":
            at = {"linewidth": N(i, F_LINEWIDTH), "bbox": N(i, F_BBOX), "pts": N(i, F_PTS)}
        elif k == "figure":
            at = {"name": n["s"], "bbox": N(i, F_BBOX)}
        elif k in ("textline", "textgroup"):
            at = {"bbox": N(i, F_BBOX)}
        elif k in TEXTBOXES:
            at = {"id": N(i, F_ID), "bbox": N(i, F_BBOX)}
            if k == "textboxv":
                at["wmode"] = "vertical"
        elif k == "char":
            at = {"font": n["f"], "bbox": N(i, F_BBOX), "colourspace": N(i, F_CS), "ncolour": N(i, F_NCOLOUR), "size": N(i, F_SIZE)}
        elif k == "image":
            at = {"width": N(i, F_WIDTH), "height": N(i, F_HEIGHT)}
            if imgw:
                at["src"] = ext(n["s"]) if callable(ext) else n["s"] + ext
        elif k == "boxref":
            at = {"id": N(n["a"], F_ID), "bbox": N(n["a"], F_BBOX)} if n["a"] else {}
        else:
            at = {}
        out.append(("open", el, at))
        if k == "char":
            s = strip_control(n["s"]) if strip else n["s"]
            if s:
                out.append(("chars", s))
        elif k == "anno":
            if n["s"]:
                out.append(("chars", n["s"]))
        else:
            for j in children(T, i):
                ne(j)
        out.append(("close", el))
    for j in roots(T):
        ne(j)
    out.append(("close", "pages"))
    return out


# ------------------------------------------------------------------------------------------------ an independent XML reader
def expat_events(text):
    """-> (events, error).  XML 1.0 cannot carry C0 controls at all: they are removed before parsing (notes/C11.md);
    attribute values are compared after the same removal.  White space between the children of a container is
    formatting; inside <text> it is data."""
    import xml.parsers.expat as X
    p = X.ParserCreate()
    p.buffer_text = True
    p.ordered_attributes = False
    evs = []
    stack = []

    def flush_ws():
        pass

    def start(name, attrs):
        evs.append(("open", name, dict(attrs)))
        stack.append(name)

    def end(name):
        evs.append(("close", name))
        stack.pop()

    def chars(data):
        if stack and stack[-1] == "text":
            if evs and evs[-1][0] == "chars":
                evs[-1] = ("chars", evs[-1][1] + data)
            else:
                evs.append(("chars", data))
        elif data.strip(" \n\r\t"):
            evs.append(("chars", data))

    p.StartElementHandler = start
    p.EndElementHandler = end
    p.CharacterDataHandler = chars
    try:
        p.Parse(strip_control(text), True)
    except X.ExpatError as e:
        return evs, "%s" % e
    return evs, None


def norm_events(evs):
    """what an XML reader may not preserve: CR / CRLF in character data read as LF; TAB CR LF in attribute values read as
    a space; C0 controls (removed before parsing).  Applied to the expected events before comparing."""
    out = []
    for e in evs:
        if e[0] == "open":
            at = {k: strip_control(v).replace("\r\n", " ").replace("\r", " ").replace("\n", " ").replace("\t", " ")
                  for k, v in e[2].items()}
            out.append(("open", e[1], at))
        elif e[0] == "chars":
            s = strip_control(e[1]).replace("\r\n", "\n").replace("\r", "\n")
            if s:
                out.append(("chars", s))
        else:
            out.append(e)
    return out


# ------------------------------------------------------------------------------------------------ generated PDFs
def pdf_name(s):
    return Name(s)


def hostile_doc(strings, shapes=True):
    """One page per string S: a font whose BaseFont/FontName is S and whose ToUnicode sends code 0x41 to S; a form XObject
    registered under the name S showing a glyph; an image XObject registered under the name S + 'i'; two text lines, and
    (shapes) a line, a rectangle and a curve.  Names are written with #xx escapes by the PDF writer."""
    objs = {1: {"Type": Name("Catalog"), "Pages": Ref(2)}}
    nxt = [3]

    def new(v):
        n = nxt[0]
        nxt[0] += 1
        objs[n] = v
        return Ref(n)

    img = new(Stream({"Type": Name("XObject"), "Subtype": Name("Image"), "Width": 2, "Height": 2, "BitsPerComponent": 8,
                      "ColorSpace": Name("DeviceGray")}, b"\x00\x40\x80\xff"))
    kids = []
    for S in strings:
        fname = S if S else "e"
        cmap = new(Stream({}, tounicode_cmap([("bfchar", [(0x41, S), (0x42, "b")])])))
        fd = new({"Type": Name("FontDescriptor"), "FontName": pdf_name(fname), "Flags": 32, "FontBBox": [0, -200, 1000, 800],
                  "ItalicAngle": 0, "Ascent": 800, "Descent": -200, "CapHeight": 700, "StemV": 80})
        font = new({"Type": Name("Font"), "Subtype": Name("Type1"), "BaseFont": pdf_name(fname), "FirstChar": 65, "LastChar": 66,
                    "Widths": [600, 500], "FontDescriptor": fd, "ToUnicode": cmap})
        form = new(Stream({"Type": Name("XObject"), "Subtype": Name("Form"), "BBox": [0, 0, 100, 50],
                           "Resources": {"Font": {"F1": font}}},
                          b"BT /F1 10 Tf 5 5 Td <41> Tj ET 0 0 m 50 0 l S"))
        xname, iname = fname, fname + "i"
        body = (b"BT /F1 12 Tf 100 700 Td <4142> Tj 30 0 Td <41> Tj 0 -14 Td <42> Tj ET "
                b"BT /F1 12 Tf 100 400 Td <4141> Tj ET "
                b"q 1 0 0 1 300 300 cm " + ser_name(xname) + b" Do Q "
                b"q 20 0 0 20 300 100 cm " + ser_name(iname) + b" Do Q ")
        if shapes:
            body += b"10 10 m 90 10 l S 10 20 30 40 re f 10 100 m 20 120 40 120 50 100 c S "
        content = new(Stream({}, body))
        kids.append(new({"Type": Name("Page"), "Parent": Ref(2), "MediaBox": [0, 0, 612, 792], "Contents": content,
                         "Resources": {"Font": {"F1": font}, "XObject": {xname: form, iname: img}}}))
    objs[2] = {"Type": Name("Pages"), "Kids": kids, "Count": len(kids)}
    return build([Revision(dict(sorted(objs.items())), root=Ref(1))])[0]


def pages_of(data, laparams):
    """the layout hierarchy of every page (PDFPageAggregator), for laparams None as well"""
    rm = PDFResourceManager()
    dev = PDFPageAggregator(rm, laparams=laparams)
    it = PDFPageInterpreter(rm, dev)
    out = []
    for pg in PDFPage.get_pages(io.BytesIO(data)):
        it.process_page(pg)
        out.append(dev.get_result())
    return out


LAPARAMS = {"none": lambda: None, "default": LAParams, "all_texts": lambda: LAParams(all_texts=True),
            "noflow": lambda: LAParams(boxes_flow=None), "vertical": lambda: LAParams(detect_vertical=True, all_texts=True)}
