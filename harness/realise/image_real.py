"""C18 - images: realisers (documents with image XObjects / inline images, content streams for the inline scanner),
a strict BMP reader written from the BMP specification, and runners around the real ImageWriter / PDFContentParser.

Sample bytes follow specs/image/ImageExport.tla: the q-th byte (from 0) of the decoded image data is 3*q+1 (mod 256),
so that a displaced, dropped or swapped byte is visible.
"""
import io
import logging
import os
import struct
import zlib

logging.disable(logging.CRITICAL)

from ..tlc import MachineryError  # noqa: E402
from . import codecs as K  # noqa: E402
from .pdfwriter import Name, Ref, Revision, Stream, build, ser_name  # noqa: E402

from pdfminer.pdfinterp import PDFContentParser  # noqa: E402
from pdfminer.pdftypes import PDFStream  # noqa: E402
from pdfminer.psparser import PSEOF, PSKeyword, PSLiteral  # noqa: E402

FILTER_NAME = {"Flate": "FlateDecode", "LZW": "LZWDecode", "A85": "ASCII85Decode", "AHx": "ASCIIHexDecode",
               "RL": "RunLengthDecode", "DCT": "DCTDecode", "JPX": "JPXDecode", "JBIG2": "JBIG2Decode", "CCITT": "CCITTFaxDecode"}
ENC = {"Flate": "Fl", "LZW": "LZW", "A85": "A85", "AHx": "AHx", "RL": "RL"}
PIX = {"bw": (1, "DeviceGray", 1), "gray": (8, "DeviceGray", 1), "rgb": (8, "DeviceRGB", 3), "cmyk": (8, "DeviceCMYK", 4)}


def sample(q):
    return (3 * q + 1) % 256


def bytes_per_line(pk, w):
    bits, _, ncomp = PIX[pk]
    return (w * bits * ncomp + 7) // 8


def image_data(pk, w, h):
    return bytes(sample(q) for q in range(bytes_per_line(pk, w) * h))


def pdf_pixels(pk, w, h, data):
    """what PDF means by the stored samples (default Decode): rows of (r, g, b)"""
    bpl = bytes_per_line(pk, w)
    rows = []
    for y in range(h):
        row = []
        for x in range(w):
            if pk == "rgb":
                row.append(tuple(data[y * bpl + 3 * x: y * bpl + 3 * x + 3]))
            elif pk == "gray":
                v = data[y * bpl + x]
                row.append((v, v, v))
            elif pk == "bw":
                b = (data[y * bpl + x // 8] >> (7 - x % 8)) & 1
                row.append((255 * b,) * 3)
            else:
                raise MachineryError("no RGB meaning defined for %s" % pk)
        rows.append(row)
    return rows


def encode_chain(chain, data, variant=0):
    """/Filter [f1 f2 ..] decodes f1 first: encode in reverse.  DCT/JPX/JBIG2/CCITT payloads are opaque blobs."""
    out = data
    for f in reversed(chain):
        if f in ENC:
            out = K.encode_layer(ENC[f], out, variant)
    return out


def image_xobject(pk, w, h, chain, variant=0):
    bits, cs, _ = PIX[pk]
    attrs = {"Type": Name("XObject"), "Subtype": Name("Image"), "Width": w, "Height": h, "BitsPerComponent": bits,
             "ColorSpace": Name(cs)}
    if len(chain) == 1:
        attrs["Filter"] = Name(FILTER_NAME[chain[0]])
    elif chain:
        attrs["Filter"] = [Name(FILTER_NAME[f]) for f in chain]
    if "JBIG2" in chain:
        raise MachineryError("JBIG2 payloads are not realised")
    return Stream(attrs, encode_chain(chain, image_data(pk, w, h), variant))


def export_doc(imgs, variant=0, pages=1):
    """imgs: [{"name", "filters", "pk", "w", "h"}] -> PDF whose page(s) paint the images in order, one XObject each.
    Equal names are distinct XObjects on successive pages (a name can be bound once per page)."""
    objs = {1: {"Type": Name("Catalog"), "Pages": Ref(2)}}
    nxt = [3]

    def new(v):
        n = nxt[0]
        nxt[0] += 1
        objs[n] = v
        return Ref(n)
    kids = []
    page_x, page_body = {}, b""

    def flush():
        nonlocal page_x, page_body
        if page_body:
            c = new(Stream({}, page_body))
            kids.append(new({"Type": Name("Page"), "Parent": Ref(2), "MediaBox": [0, 0, 200, 200], "Contents": c,
                             "Resources": {"XObject": dict(page_x)}}))
        page_x, page_body = {}, b""
    for im in imgs:
        if im["name"] in page_x:
            flush()
        page_x[im["name"]] = new(image_xobject(im["pk"], im["w"], im["h"], list(im["filters"]), variant))
        page_body += b"q 10 0 0 10 20 20 cm " + ser_name(im["name"]) + b" Do Q\n"
    flush()
    objs[2] = {"Type": Name("Pages"), "Kids": kids, "Count": len(kids)}
    return build([Revision(dict(sorted(objs.items())), root=Ref(1))])[0]


def run_export(pdf, outdir, output_type="text"):
    """extract_text_to_fp(output_dir=outdir) -> (error or None, {file name: bytes} of what is new in outdir, xml/text output)"""
    from pdfminer.high_level import extract_text_to_fp
    before = set(os.listdir(outdir))
    fp = io.StringIO()
    err = None
    try:
        extract_text_to_fp(io.BytesIO(pdf), fp, output_type=output_type, codec=None if output_type == "xml" else "utf-8",
                           output_dir=outdir)
    except Exception as e:  # noqa: BLE001
        err = "%s@%s" % (type(e).__name__, _site(e))
    files = {}
    for fn in sorted(set(os.listdir(outdir)) - before):
        with open(os.path.join(outdir, fn), "rb") as f:
            files[fn] = f.read()
    return err, files, fp.getvalue()


def _site(e):
    import traceback
    tb = traceback.extract_tb(e.__traceback__)
    for fr in reversed(tb):
        if "pdfminer" in fr.filename:
            return "%s:%s" % (os.path.basename(fr.filename), fr.name)
    return "?"


# ------------------------------------------------------------------------------------------------ strict BMP reader
class BmpError(Exception):
    pass


def read_bmp(b):
    """Reader written from the BMP file format description (BITMAPFILEHEADER + BITMAPINFOHEADER, BI_RGB, bottom-up).
    Strict: every byte of the pixel array must be present and bfSize must be the file size.
    -> (width, height, bitcount, rows of (r, g, b) from the top)"""
    if len(b) < 54:
        raise BmpError("shorter than the two headers")
    if b[0:2] != b"BM":
        raise BmpError("no BM signature")
    bf_size, _r1, _r2, off = struct.unpack_from("<IHHI", b, 2)
    (bi_size, w, h, planes, bitcount, compression, size_image, _xp, _yp, clr_used, _imp) = struct.unpack_from("<IiiHHIIiiII", b, 14)
    if bi_size != 40:
        raise BmpError("info header size %d" % bi_size)
    if planes != 1 or compression != 0:
        raise BmpError("planes %d compression %d" % (planes, compression))
    if bitcount not in (1, 8, 24) or w <= 0 or h <= 0:
        raise BmpError("unsupported bit count %d or geometry %dx%d" % (bitcount, w, h))
    ncol = 0 if bitcount > 8 else (clr_used or (1 << bitcount))
    if off < 54 + 4 * ncol:
        raise BmpError("pixel array overlaps the colour table")
    stride = ((w * bitcount + 31) // 32) * 4
    if len(b) < off + stride * h:
        raise BmpError("file has %d bytes, the pixel array needs %d" % (len(b), off + stride * h))
    if bf_size != len(b):
        raise BmpError("bfSize %d but the file has %d bytes" % (bf_size, len(b)))
    if size_image not in (0, stride * h):
        raise BmpError("biSizeImage %d, expected %d" % (size_image, stride * h))
    pal = [(b[54 + 4 * i + 2], b[54 + 4 * i + 1], b[54 + 4 * i]) for i in range(ncol)]
    rows = []
    for y in range(h):
        at = off + (h - 1 - y) * stride
        row = []
        for x in range(w):
            if bitcount == 24:
                row.append((b[at + 3 * x + 2], b[at + 3 * x + 1], b[at + 3 * x]))
            elif bitcount == 8:
                row.append(pal[b[at + x]])
            else:
                row.append(pal[(b[at + x // 8] >> (7 - x % 8)) & 1])
        rows.append(row)
    return w, h, bitcount, rows


def write_bmp(w, h, bitcount, rows):
    """independent writer used only to self-check the reader"""
    ncol = {1: 2, 8: 256, 24: 0}[bitcount]
    stride = ((w * bitcount + 31) // 32) * 4
    pal = b"".join(bytes((v, v, v, 0)) for v in ((0, 255) if bitcount == 1 else range(256))) if ncol else b""
    body = bytearray()
    for y in range(h - 1, -1, -1):
        line = bytearray(stride)
        for x, (r, g, bl) in enumerate(rows[y]):
            if bitcount == 24:
                line[3 * x:3 * x + 3] = bytes((bl, g, r))
            elif bitcount == 8:
                line[x] = r
            elif r:
                line[x // 8] |= 0x80 >> (x % 8)
        body += line
    off = 54 + len(pal)
    return (b"BM" + struct.pack("<IHHI", off + len(body), 0, 0, off)
            + struct.pack("<IiiHHIIiiII", 40, w, h, 1, bitcount, 0, len(body), 0, 0, ncol, 0) + pal + bytes(body))


_checked = False


def self_check():
    global _checked
    if _checked:
        return
    K.self_check()
    for pk, bc in (("bw", 1), ("gray", 8), ("rgb", 24)):
        for w in (1, 2, 3, 5, 8, 9, 33):
            for h in (1, 2, 5):
                rows = pdf_pixels(pk, w, h, image_data(pk, w, h))
                blob = write_bmp(w, h, bc, rows)
                if read_bmp(blob) != (w, h, bc, rows):
                    raise MachineryError("BMP reader/writer self-check failed for %s %dx%d" % (pk, w, h))
                for bad in (blob[:-1], blob[:2] + struct.pack("<I", len(blob) + 1) + blob[6:]):
                    try:
                        read_bmp(bad)
                    except BmpError:
                        continue
                    raise MachineryError("BMP reader accepted a truncated / mis-sized file")
    # 24-bit channel order against a hand-made file: one red pixel is stored as 00 00 FF
    red = (b"BM" + struct.pack("<IHHI", 58, 0, 0, 54) + struct.pack("<IiiHHIIiiII", 40, 1, 1, 1, 24, 0, 4, 0, 0, 0, 0) + b"\x00\x00\xff\x00")
    if read_bmp(red)[3] != [[(255, 0, 0)]]:
        raise MachineryError("BMP reader channel order self-check failed")
    _checked = True


# ------------------------------------------------------------------------------------------------ inline scanner, parser level
def scan_content(streams, bufsiz):
    """PDFContentParser over the given content streams with BUFSIZ=bufsiz.
    -> (error or None, [("img", rawdata, {key: repr}) | ("kw", bytes) | ("lit", str) | ("int", n) | ("str", bytes) | ...])"""
    old = PDFContentParser.BUFSIZ
    PDFContentParser.BUFSIZ = bufsiz
    out = []
    err = None
    try:
        p = PDFContentParser([PDFStream({}, s) for s in streams])
        while True:
            try:
                _, obj = p.nextobject()
            except PSEOF:
                break
            if isinstance(obj, PDFStream):
                out.append(("img", bytes(obj.rawdata), {k: repr(v) for k, v in obj.attrs.items()}))
            elif isinstance(obj, PSKeyword):
                out.append(("kw", bytes(obj.name)))
            elif isinstance(obj, PSLiteral):
                out.append(("lit", obj.name if isinstance(obj.name, bytes) else str(obj.name).encode()))
            elif isinstance(obj, bool):
                out.append(("bool", obj))
            elif isinstance(obj, int):
                out.append(("int", b"%d" % obj))
            elif isinstance(obj, float):
                out.append(("real", repr(obj).encode()))
            elif isinstance(obj, bytes):
                out.append(("str", obj))
            else:
                out.append(("other", repr(obj).encode()))
    except Exception as e:  # noqa: BLE001
        err = "%s@%s" % (type(e).__name__, _site(e))
    finally:
        PDFContentParser.BUFSIZ = old
    return err, out


def split_content(content, cutpos):
    return [content] if not cutpos else [content[:cutpos], content[cutpos:]]


# ------------------------------------------------------------------------------------------------ inline images, document level
def inline_doc(cases):
    """cases: [(content bytes from `BI` on, cut offset or 0)]: one page each:
    q 10 0 0 10 50 50 cm <content> ... the followers are part of the content; a glyph is shown by a second stream."""
    objs = {1: {"Type": Name("Catalog"), "Pages": Ref(2)},
            3: {"Type": Name("Font"), "Subtype": Name("Type1"), "BaseFont": Name("Helvetica")}}
    nxt = 4
    kids = []
    for content, cutpos in cases:
        refs = []
        head = b"q 10 0 0 10 50 50 cm\n"
        parts = split_content(content, cutpos)
        parts[0] = head + parts[0]
        parts.append(b"\nBT /F1 12 Tf 20 20 Td (Z) Tj ET\n")
        for part in parts:
            objs[nxt] = Stream({}, part)
            refs.append(Ref(nxt))
            nxt += 1
        objs[nxt] = {"Type": Name("Page"), "Parent": Ref(2), "MediaBox": [0, 0, 200, 200], "Contents": refs,
                     "Resources": {"Font": {"F1": Ref(3)}}}
        kids.append(Ref(nxt))
        nxt += 1
    objs[2] = {"Type": Name("Pages"), "Kids": kids, "Count": len(kids)}
    return build([Revision(dict(sorted(objs.items())), root=Ref(1))])[0]


def inline_pages(pdf, bufsiz):
    """-> per page ([(rawdata, srcsize, bits, colorspace repr)] of LTImage items, glyph text)"""
    from pdfminer.converter import PDFPageAggregator
    from pdfminer.layout import LTChar, LTFigure, LTImage
    from pdfminer.pdfinterp import PDFPageInterpreter, PDFResourceManager
    from pdfminer.pdfpage import PDFPage
    old = PDFContentParser.BUFSIZ
    PDFContentParser.BUFSIZ = bufsiz
    out = []
    try:
        rm = PDFResourceManager()
        dev = PDFPageAggregator(rm, laparams=None)
        it = PDFPageInterpreter(rm, dev)
        for pg in PDFPage.get_pages(io.BytesIO(pdf)):
            it.process_page(pg)
            lay = dev.get_result()
            imgs, text = [], []

            def walk(o):
                for c in o:
                    if isinstance(c, LTImage):
                        imgs.append((bytes(c.stream.rawdata), tuple(c.srcsize), c.bits, repr(c.colorspace)))
                    elif isinstance(c, LTChar):
                        text.append(c.get_text())
                    elif isinstance(c, LTFigure):
                        walk(c)
            walk(lay)
            out.append((imgs, "".join(text)))
    finally:
        PDFContentParser.BUFSIZ = old
    return out
