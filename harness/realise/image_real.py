"""C18 - images: realisers (documents with image XObjects / inline images, content streams for the inline scanner),
a strict BMP reader written from the BMP specification, and runners around the real ImageWriter / PDFContentParser.

Sample bytes follow specs/image/ImageExport.tla: the q-th byte (from 0) of the decoded image data is 3*q+1 (mod 256),
so that a displaced, dropped or swapped byte is visible.
"""
import io
import logging
import os
import struct
import zlib

logging.disable(logging.CRITICAL)

from ..tlc import MachineryError  # noqa: E402
from . import codecs as K  # noqa: E402
from .pdfwriter import Name, Ref, Revision, Stream, build, ser_name  # noqa: E402

from pdfminer.pdfinterp import PDFContentParser  # noqa: E402
from pdfminer.pdftypes import PDFStream  # noqa: E402
from pdfminer.psparser import PSEOF, PSKeyword, PSLiteral  # noqa: E402

PREDICTOR_FILTERS = {"FlatePNG": ("Fl", "png"), "FlateTIFF": ("Fl", "tiff"), "LZWPNG": ("LZW", "png"), "LZWTIFF": ("LZW", "tiff")}
LZW_EARLY = {"LZWE0": 0, "LZWE1": 1}
FILTER_NAME = {"LZWE0": "LZWDecode", "LZWE1": "LZWDecode", "FlatePNG": "FlateDecode", "FlateTIFF": "FlateDecode", "LZWPNG": "LZWDecode", "LZWTIFF": "LZWDecode", "Flate": "FlateDecode", "LZW": "LZWDecode", "A85": "ASCII85Decode", "AHx": "ASCIIHexDecode",
               "RL": "RunLengthDecode", "DCT": "DCTDecode", "JPX": "JPXDecode", "JBIG2": "JBIG2Decode", "CCITT": "CCITTFaxDecode"}
ENC = {"Flate": "Fl", "LZW": "LZW", "A85": "A85", "AHx": "AHx", "RL": "RL"}
PIX = {"bw": (1, "DeviceGray", 1), "gray": (8, "DeviceGray", 1), "rgb": (8, "DeviceRGB", 3), "cmyk": (8, "DeviceCMYK", 4)}


def sample(q, w=1, h=1):
    """Sample(im, q) of ImageOps.tla"""
    if w * h <= 25:
        return (3 * q + 1) % 256
    if w % 2 == 0:
        return ((q * q + 7 * q + 11) % 65521) % 256
    return ((q // 150) * 37 + 5) % 256


def bytes_per_line(pk, w):
    bits, _, ncomp = PIX[pk]
    return (w * bits * ncomp + 7) // 8


def image_data(pk, w, h):
    return bytes(sample(q, w, h) for q in range(bytes_per_line(pk, w) * h))


def pdf_pixels(pk, w, h, data):
    """what PDF means by the stored samples (default Decode): rows of (r, g, b)"""
    bpl = bytes_per_line(pk, w)
    rows = []
    for y in range(h):
        row = []
        for x in range(w):
            if pk == "rgb":
                row.append(tuple(data[y * bpl + 3 * x: y * bpl + 3 * x + 3]))
            elif pk == "gray":
                v = data[y * bpl + x]
                row.append((v, v, v))
            elif pk == "bw":
                b = (data[y * bpl + x // 8] >> (7 - x % 8)) & 1
                row.append((255 * b,) * 3)
            else:
                raise MachineryError("no RGB meaning defined for %s" % pk)
        rows.append(row)
    return rows


def encode_chain(chain, data, variant=0, geom=None, row_types=None):
    """/Filter [f1 f2 ..] decodes f1 first: encode in reverse.  DCT/JPX/JBIG2/CCITT payloads are opaque blobs.
    -> (encoded bytes, [DecodeParms or None per filter]).  A filter with a predictor (PREDICTOR_FILTERS) predicts what its
    decoding stage outputs: the image rows (geom = (colors, columns, bits)) when it is the last filter of the chain, else the
    intermediate bytes taken as one row of 8-bit single-colour samples."""
    out = data
    parms = [None] * len(chain)
    for q in range(len(chain) - 1, -1, -1):
        f = chain[q]
        if f in PREDICTOR_FILTERS:
            codec, kind = PREDICTOR_FILTERS[f]
            colors, columns, bits = geom if q == len(chain) - 1 else (1, len(out), 8)
            if kind == "png":
                types = row_types if (row_types and q == len(chain) - 1) else [0, 1, 2, 3, 4]
                out = K.png_predict(out, colors, columns, bits, types) if columns else out
                parms[q] = {"Predictor": 10 + (variant + q) % 6, "Colors": colors, "BitsPerComponent": bits, "Columns": max(columns, 1)}
            else:
                if bits != 8:
                    raise MachineryError("TIFF predictor is realised for 8-bit samples only")
                out = K.tiff_predict(out, colors, columns) if columns else out
                parms[q] = {"Predictor": 2, "Colors": colors, "BitsPerComponent": 8, "Columns": max(columns, 1)}
            out = K.encode_layer(codec, out, variant)
        elif f in LZW_EARLY:
            # the reference encoder's code stream packed with the width schedule of the declared /EarlyChange
            out = K.lzw_pack(K.lzw_codes(out), ec=LZW_EARLY[f])
            parms[q] = {"EarlyChange": LZW_EARLY[f]}
        elif f in ENC:
            out = K.encode_layer(ENC[f], out, variant)
    return out, parms


ABBREV = {"FlateDecode": "Fl", "LZWDecode": "LZW", "ASCII85Decode": "A85", "ASCIIHexDecode": "AHx", "RunLengthDecode": "RL",
          "DCTDecode": "DCT", "CCITTFaxDecode": "CCF"}
PLAIN_SPELLING = ("name", "direct", "name", "direct")


def image_xobject(pk, w, h, chain, variant=0, row_types=None, samples=None, spelling=None, new=None):
    """spelling = (filter, parms, colour space, geometry) - how the stream dictionary spells its entries:
       filter   name | abbr (abbreviated names) | arr1 (always an array) | indirect (/Filter n 0 R) | arrind (array of n 0 R)
       parms    direct | indirect (/DecodeParms n 0 R) | arr (always an array)
       cs       name | indirect | array ([/DeviceGray])
       geometry direct | indirect (/Width /Height /BitsPerComponent n 0 R)
    new(value) -> Ref creates the indirect objects."""
    fsp, psp, csp, gsp = spelling or PLAIN_SPELLING
    if (fsp in ("indirect", "arrind") or psp == "indirect" or csp == "indirect" or gsp == "indirect") and new is None:
        raise MachineryError("indirect spellings need an object allocator")
    bits, cs, ncomp = PIX[pk]
    ind = (lambda v: new(v)) if gsp == "indirect" else (lambda v: v)
    attrs = {"Type": Name("XObject"), "Subtype": Name("Image"), "Width": ind(w), "Height": ind(h), "BitsPerComponent": ind(bits),
             "ColorSpace": new(Name(cs)) if csp == "indirect" else [Name(cs)] if csp == "array" else Name(cs)}
    names = [Name(ABBREV.get(FILTER_NAME[f], FILTER_NAME[f]) if fsp == "abbr" else FILTER_NAME[f]) for f in chain]
    if chain:
        if fsp in ("name", "abbr"):
            attrs["Filter"] = names[0] if len(chain) == 1 else names
        elif fsp == "arr1":
            attrs["Filter"] = names
        elif fsp == "indirect":
            attrs["Filter"] = new(names[0] if len(chain) == 1 else names)
        else:
            attrs["Filter"] = [new(nm) for nm in names]
    if "JBIG2" in chain:
        raise MachineryError("JBIG2 payloads are not realised")
    data = samples if samples is not None else image_data(pk, w, h)
    enc, parms = encode_chain(chain, data, variant, geom=(ncomp, w, bits), row_types=row_types)
    if any(parms):
        shaped = parms if (psp == "arr" or len(chain) > 1) else parms[0]
        attrs["DecodeParms"] = new(shaped) if psp == "indirect" else shaped
    if chain and chain[-1] in LZW_EARLY and len(K.lzw_codes(data)) < 300:
        raise MachineryError("realiser self-check: a %dx%d %s image gives too few LZW codes for the width switch" % (w, h, pk))
    if len(data) > 4000 and w % 2 == 0 and chain == ["LZW"]:
        # realiser self-check: the stream must hold a clear-table code in mid-stream (the table filled up)
        if K.lzw_codes(data).count(256) < 2:
            raise MachineryError("realiser self-check: the LZW stream of a %dx%d %s image has no table-full clear" % (w, h, pk))
    return Stream(attrs, enc)


def build_doc(objs, encrypt=None):
    """objs -> PDF bytes; encrypt: None | "RC4" (V 2, R 3, 128 bit) | "AESV2" (V 4, R 4) - the standard security handler of
    harness/realise/encryptor.py (C10) with an empty user password; strings and streams are encrypted by the writer"""
    if not encrypt:
        return build([Revision(dict(sorted(objs.items())), root=Ref(1))])[0]
    from . import encryptor as E
    from .pdfwriter import HexStr
    E.self_check()
    id0 = bytes(range(16))
    sec = E.StdSec(2, 3, 128, None, True, -4, id0, "", None) if encrypt == "RC4" else E.StdSec(4, 4, 128, "AESV2", True, -4, id0, "", None)
    te = {"Encrypt": sec.encrypt_dict(), "ID": [HexStr(id0), HexStr(id0)]}
    rev = Revision(dict(sorted(objs.items())), root=Ref(1), trailer_extra=te)
    return build([rev], transform_for=sec.transform_for())[0]


def export_doc(imgs, variant=0, pages=1, encrypt=None):
    """imgs: [{"name", "filters", "pk", "w", "h"}] -> PDF whose page(s) paint the images in order, one XObject each.
    Equal names are distinct XObjects on successive pages (a name can be bound once per page)."""
    objs = {1: {"Type": Name("Catalog"), "Pages": Ref(2)}}
    nxt = [3]

    def new(v):
        n = nxt[0]
        nxt[0] += 1
        objs[n] = v
        return Ref(n)
    kids = []
    page_x, page_body = {}, b""

    def flush():
        nonlocal page_x, page_body
        if page_body:
            c = new(Stream({}, page_body))
            kids.append(new({"Type": Name("Page"), "Parent": Ref(2), "MediaBox": [0, 0, 200, 200], "Contents": c,
                             "Resources": {"XObject": dict(page_x)}}))
        page_x, page_body = {}, b""
    for im in imgs:
        if im["name"] in page_x:
            flush()
        page_x[im["name"]] = new(image_xobject(im["pk"], im["w"], im["h"], list(im["filters"]), variant, im.get("row_types"), im.get("samples"),
                                                  tuple(im["sp"]) if im.get("sp") else None, new))
        page_body += b"q 10 0 0 10 20 20 cm " + ser_name(im["name"]) + b" Do Q\n"
    flush()
    objs[2] = {"Type": Name("Pages"), "Kids": kids, "Count": len(kids)}
    return build_doc(objs, encrypt)


def run_export(pdf, outdir, output_type="text"):
    """extract_text_to_fp(output_dir=outdir) -> (error or None, {file name: bytes} of what is new in outdir, xml/text output)"""
    from pdfminer.high_level import extract_text_to_fp
    before = set(os.listdir(outdir))
    fp = io.StringIO()
    err = None
    try:
        extract_text_to_fp(io.BytesIO(pdf), fp, output_type=output_type, codec=None if output_type == "xml" else "utf-8",
                           output_dir=outdir)
    except Exception as e:  # noqa: BLE001
        err = "%s@%s" % (type(e).__name__, _site(e))
    files = {}
    for fn in sorted(set(os.listdir(outdir)) - before):
        with open(os.path.join(outdir, fn), "rb") as f:
            files[fn] = f.read()
    return err, files, fp.getvalue()


def _site(e):
    import traceback
    tb = traceback.extract_tb(e.__traceback__)
    for fr in reversed(tb):
        if "pdfminer" in fr.filename:
            return "%s:%s" % (os.path.basename(fr.filename), fr.name)
    return "?"


# ------------------------------------------------------------------------------------------------ strict BMP reader
class BmpError(Exception):
    pass


def read_bmp(b):
    """Reader written from the BMP file format description (BITMAPFILEHEADER + BITMAPINFOHEADER, BI_RGB, bottom-up).
    Strict: every byte of the pixel array must be present and bfSize must be the file size.
    -> (width, height, bitcount, rows of (r, g, b) from the top)"""
    if len(b) < 54:
        raise BmpError("shorter than the two headers")
    if b[0:2] != b"BM":
        raise BmpError("no BM signature")
    bf_size, _r1, _r2, off = struct.unpack_from("<IHHI", b, 2)
    (bi_size, w, h, planes, bitcount, compression, size_image, _xp, _yp, clr_used, _imp) = struct.unpack_from("<IiiHHIIiiII", b, 14)
    if bi_size != 40:
        raise BmpError("info header size %d" % bi_size)
    if planes != 1 or compression != 0:
        raise BmpError("planes %d compression %d" % (planes, compression))
    if bitcount not in (1, 8, 24) or w <= 0 or h <= 0:
        raise BmpError("unsupported bit count %d or geometry %dx%d" % (bitcount, w, h))
    ncol = 0 if bitcount > 8 else (clr_used or (1 << bitcount))
    if off < 54 + 4 * ncol:
        raise BmpError("pixel array overlaps the colour table")
    stride = ((w * bitcount + 31) // 32) * 4
    if len(b) < off + stride * h:
        raise BmpError("file has %d bytes, the pixel array needs %d" % (len(b), off + stride * h))
    if bf_size != len(b):
        raise BmpError("bfSize %d but the file has %d bytes" % (bf_size, len(b)))
    if size_image not in (0, stride * h):
        raise BmpError("biSizeImage %d, expected %d" % (size_image, stride * h))
    pal = [(b[54 + 4 * i + 2], b[54 + 4 * i + 1], b[54 + 4 * i]) for i in range(ncol)]
    rows = []
    for y in range(h):
        at = off + (h - 1 - y) * stride
        row = []
        for x in range(w):
            if bitcount == 24:
                row.append((b[at + 3 * x + 2], b[at + 3 * x + 1], b[at + 3 * x]))
            elif bitcount == 8:
                row.append(pal[b[at + x]])
            else:
                row.append(pal[(b[at + x // 8] >> (7 - x % 8)) & 1])
        rows.append(row)
    return w, h, bitcount, rows


def write_bmp(w, h, bitcount, rows):
    """independent writer used only to self-check the reader"""
    ncol = {1: 2, 8: 256, 24: 0}[bitcount]
    stride = ((w * bitcount + 31) // 32) * 4
    pal = b"".join(bytes((v, v, v, 0)) for v in ((0, 255) if bitcount == 1 else range(256))) if ncol else b""
    body = bytearray()
    for y in range(h - 1, -1, -1):
        line = bytearray(stride)
        for x, (r, g, bl) in enumerate(rows[y]):
            if bitcount == 24:
                line[3 * x:3 * x + 3] = bytes((bl, g, r))
            elif bitcount == 8:
                line[x] = r
            elif r:
                line[x // 8] |= 0x80 >> (x % 8)
        body += line
    off = 54 + len(pal)
    return (b"BM" + struct.pack("<IHHI", off + len(body), 0, 0, off)
            + struct.pack("<IiiHHIIiiII", 40, w, h, 1, bitcount, 0, len(body), 0, 0, ncol, 0) + pal + bytes(body))


_checked = False


def self_check():
    global _checked
    if _checked:
        return
    K.self_check()
    for pk, bc in (("bw", 1), ("gray", 8), ("rgb", 24)):
        for w in (1, 2, 3, 5, 8, 9, 33):
            for h in (1, 2, 5):
                rows = pdf_pixels(pk, w, h, image_data(pk, w, h))
                blob = write_bmp(w, h, bc, rows)
                if read_bmp(blob) != (w, h, bc, rows):
                    raise MachineryError("BMP reader/writer self-check failed for %s %dx%d" % (pk, w, h))
                for bad in (blob[:-1], blob[:2] + struct.pack("<I", len(blob) + 1) + blob[6:]):
                    try:
                        read_bmp(bad)
                    except BmpError:
                        continue
                    raise MachineryError("BMP reader accepted a truncated / mis-sized file")
    # 24-bit channel order against a hand-made file: one red pixel is stored as 00 00 FF
    red = (b"BM" + struct.pack("<IHHI", 58, 0, 0, 54) + struct.pack("<IiiHHIIiiII", 40, 1, 1, 1, 24, 0, 4, 0, 0, 0, 0) + b"\x00\x00\xff\x00")
    if read_bmp(red)[3] != [[(255, 0, 0)]]:
        raise MachineryError("BMP reader channel order self-check failed")
    _checked = True


# ------------------------------------------------------------------------------------------------ inline scanner, parser level
def scan_content(streams, bufsiz):
    """PDFContentParser over the given content streams with BUFSIZ=bufsiz.
    -> (error or None, [("img", rawdata, {key: repr}) | ("kw", bytes) | ("lit", str) | ("int", n) | ("str", bytes) | ...])"""
    old = PDFContentParser.BUFSIZ
    PDFContentParser.BUFSIZ = bufsiz
    out = []
    err = None
    try:
        p = PDFContentParser([PDFStream({}, s) for s in streams])
        while True:
            try:
                _, obj = p.nextobject()
            except PSEOF:
                break
            if isinstance(obj, PDFStream):
                out.append(("img", bytes(obj.rawdata), {k: repr(v) for k, v in obj.attrs.items()}))
            elif isinstance(obj, PSKeyword):
                out.append(("kw", bytes(obj.name)))
            elif isinstance(obj, PSLiteral):
                out.append(("lit", obj.name if isinstance(obj.name, bytes) else str(obj.name).encode()))
            elif isinstance(obj, bool):
                out.append(("bool", obj))
            elif isinstance(obj, int):
                out.append(("int", b"%d" % obj))
            elif isinstance(obj, float):
                out.append(("real", repr(obj).encode()))
            elif isinstance(obj, bytes):
                out.append(("str", obj))
            else:
                out.append(("other", repr(obj).encode()))
    except Exception as e:  # noqa: BLE001
        err = "%s@%s" % (type(e).__name__, _site(e))
    finally:
        PDFContentParser.BUFSIZ = old
    return err, out


def split_content(content, cutpos):
    return [content] if not cutpos else [content[:cutpos], content[cutpos:]]


# ------------------------------------------------------------------------------------------------ inline images, document level
def lead_stream(n):
    """a harmless content stream of exactly n bytes that ends in white space (streams are joined without a delimiter)"""
    body = b"q Q " * (n // 4)
    return body + b" " * (n - len(body)) if n >= 4 else (b"q " + b" " * (n - 2) if n >= 2 else b" " * n)


def lead_streams(lead):
    return [lead_stream(n) for n in lead]


def inline_doc(cases):
    """cases: [(content bytes from `BI` on, cut offset or 0[, lengths of preceding streams])]: one page each:
    [preceding streams] q 10 0 0 10 50 50 cm <content> ... ; a glyph is shown by a last stream."""
    objs = {1: {"Type": Name("Catalog"), "Pages": Ref(2)},
            3: {"Type": Name("Font"), "Subtype": Name("Type1"), "BaseFont": Name("Helvetica")}}
    nxt = 4
    kids = []
    for case in cases:
        content, cutpos = case[0], case[1]
        lead = list(case[2]) if len(case) > 2 else []
        refs = []
        head = b"q 10 0 0 10 50 50 cm\n"
        parts = split_content(content, cutpos)
        if lead:
            # the image's stream starts with BI (offsets as in the specification); the matrix goes into a stream of its own
            parts = [head] + lead_streams(lead) + parts
        else:
            parts[0] = head + parts[0]
        parts.append(b"\nBT /F1 12 Tf 20 20 Td (Z) Tj ET\n")
        for part in parts:
            objs[nxt] = Stream({}, part)
            refs.append(Ref(nxt))
            nxt += 1
        objs[nxt] = {"Type": Name("Page"), "Parent": Ref(2), "MediaBox": [0, 0, 200, 200], "Contents": refs,
                     "Resources": {"Font": {"F1": Ref(3)}}}
        kids.append(Ref(nxt))
        nxt += 1
    objs[2] = {"Type": Name("Pages"), "Kids": kids, "Count": len(kids)}
    return build([Revision(dict(sorted(objs.items())), root=Ref(1))])[0]


def inline_pages(pdf, bufsiz):
    """-> per page ([(rawdata, srcsize, bits, colorspace repr)] of LTImage items, glyph text)"""
    from pdfminer.converter import PDFPageAggregator
    from pdfminer.layout import LTChar, LTFigure, LTImage
    from pdfminer.pdfinterp import PDFPageInterpreter, PDFResourceManager
    from pdfminer.pdfpage import PDFPage
    old = PDFContentParser.BUFSIZ
    PDFContentParser.BUFSIZ = bufsiz
    out = []
    try:
        rm = PDFResourceManager()
        dev = PDFPageAggregator(rm, laparams=None)
        it = PDFPageInterpreter(rm, dev)
        for pg in PDFPage.get_pages(io.BytesIO(pdf)):
            it.process_page(pg)
            lay = dev.get_result()
            imgs, text = [], []

            def walk(o):
                for c in o:
                    if isinstance(c, LTImage):
                        imgs.append((bytes(c.stream.rawdata), tuple(c.srcsize), c.bits, repr(c.colorspace)))
                    elif isinstance(c, LTChar):
                        text.append(c.get_text())
                    elif isinstance(c, LTFigure):
                        walk(c)
            walk(lay)
            out.append((imgs, "".join(text)))
    finally:
        PDFContentParser.BUFSIZ = old
    return out


# ------------------------------------------------------------------------------------------------ JBIG2 (extended coverage)
# An independent encoder / parser of JBIG2 segment headers and the sequential file organisation, written from
# ITU-T T.88 7.2 and annex D (not from pdfminer/jbig2.py and not from the TLA+ text); both are checked against each other
# and against the bytes TLC's EncStd emits before they are used.
JB2_FILE_ID = b"\x97JB2\r\n\x1a\n"


def jb2_ref_width(num):
    return 1 if num <= 256 else 2 if num <= 65536 else 4


def jb2_encode(seg):
    """seg: {num, type, deferred, palong, page, refs, retain (0/1, one for the segment + one per ref), data}"""
    n = len(seg["refs"])
    out = bytearray(struct.pack(">LB", seg["num"], seg["type"] | (0x40 if seg["palong"] else 0) | (0x80 if seg["deferred"] else 0)))
    bits = list(seg["retain"])
    if n <= 4:
        out.append((n << 5) | sum(b << i for i, b in enumerate(bits)))
    else:
        out += struct.pack(">L", 0xE0000000 | n)
        nb = (n + 1 + 7) // 8
        bits += [0] * (8 * nb - len(bits))
        out += bytes(sum(bits[8 * j + i] << i for i in range(8)) for j in range(nb))
    w = jb2_ref_width(seg["num"])
    for r in seg["refs"]:
        out += r.to_bytes(w, "big")
    out += struct.pack(">L", seg["page"]) if seg["palong"] else bytes([seg["page"]])
    out += struct.pack(">L", len(seg["data"])) + bytes(seg["data"])
    return bytes(out)


def jb2_parse(b, pos=0):
    """-> list of segments (same shape as jb2_encode takes); raises ValueError on a malformed stream"""
    segs = []
    while pos < len(b):
        if pos + 6 > len(b):
            raise ValueError("truncated segment header at %d" % pos)
        num, fl = struct.unpack_from(">LB", b, pos)
        r0 = b[pos + 5]
        p = pos + 6
        if r0 >> 5 < 7:
            n = r0 >> 5
            bits = [(r0 >> i) & 1 for i in range(5)]
        else:
            n = struct.unpack_from(">L", b, pos + 5)[0] & 0x1FFFFFFF
            p = pos + 9
            nb = (n + 1 + 7) // 8
            bits = [(b[p + i // 8] >> (i % 8)) & 1 for i in range(8 * nb)]
            p += nb
        w = jb2_ref_width(num)
        refs = [int.from_bytes(b[p + w * i:p + w * (i + 1)], "big") for i in range(n)]
        p += w * n
        palong = bool(fl & 0x40)
        if palong:
            page = struct.unpack_from(">L", b, p)[0]
            p += 4
        else:
            page = b[p]
            p += 1
        dlen = struct.unpack_from(">L", b, p)[0]
        p += 4
        if p + dlen > len(b):
            raise ValueError("segment %d: data runs past the end" % num)
        segs.append({"num": num, "type": fl & 0x3F, "deferred": bool(fl & 0x80), "palong": palong, "page": page, "refs": refs,
                     "retain": bits[:n + 1], "data": list(b[p:p + dlen])})
        pos = p + dlen
    return segs


def jb2_parse_file(b):
    if b[:8] != JB2_FILE_ID or len(b) < 13:
        raise ValueError("no JBIG2 file header")
    if b[8] & 1 != 1 or b[8] & 2:
        raise ValueError("not a sequential file with a known number of pages")
    return struct.unpack_from(">L", b, 9)[0], jb2_parse(b, 13)


def jb2_expected_file(segs):
    """what the exported file must hold: the embedded segments, an end-of-page segment if a page is still open, end of file"""
    cur = 0
    for s in segs:
        cur = 0 if s["type"] == 49 else (s["page"] or cur)
    out = [dict(s, data=list(s["data"])) for s in segs]
    last = segs[-1]["num"] if segs else 0
    if cur and segs:
        out.append({"num": last + 1, "type": 49, "deferred": False, "palong": cur > 255, "page": cur, "refs": [], "retain": [0], "data": []})
    out.append({"num": last + 2, "type": 51, "deferred": False, "palong": False, "page": 0, "refs": [], "retain": [0], "data": []})
    return out


def jb2_self_check():
    import itertools
    for num, n, palong, page, data in itertools.product((0, 256, 257, 65536, 65537), (0, 1, 4, 5, 9, 20), (False, True), (0, 1, 255), (b"", b"\n", b"ab")):
        seg = {"num": num, "type": 6, "deferred": n % 2 == 1, "palong": palong, "page": page, "refs": list(range(1, n + 1)),
               "retain": [(i * 5 + num) % 2 for i in range(n + 1)], "data": list(data)}
        enc = jb2_encode(seg) + jb2_encode(dict(seg, num=num + 1))
        back = jb2_parse(enc)
        if back != [seg, dict(seg, num=num + 1)]:
            raise MachineryError("JBIG2 reference encoder/parser do not invert each other for %r" % (seg,))
    # a hand-assembled header (T.88 7.2: number 32, type 0, one referred-to segment 5 retained, page 3, 2 data bytes)
    hand = bytes([0, 0, 0, 32, 0x00, 0x22, 5, 3, 0, 0, 0, 2, 0xAA, 0xBB])
    if jb2_parse(hand) != [{"num": 32, "type": 0, "deferred": False, "palong": False, "page": 3, "refs": [5], "retain": [0, 1], "data": [0xAA, 0xBB]}]:
        raise MachineryError("JBIG2 reference parser fails on the hand-assembled header")


def jbig2_doc(image_bytes, globals_bytes=None, name="Im1", encrypt=None):
    objs = {1: {"Type": Name("Catalog"), "Pages": Ref(2)}, 2: {"Type": Name("Pages"), "Kids": [Ref(3)], "Count": 1}}
    at = {"Type": Name("XObject"), "Subtype": Name("Image"), "Width": 8, "Height": 1, "BitsPerComponent": 1, "ColorSpace": Name("DeviceGray"),
          "Filter": Name("JBIG2Decode")}
    if globals_bytes is not None:
        objs[6] = Stream({}, globals_bytes)
        at["DecodeParms"] = {"JBIG2Globals": Ref(6)}
    objs[5] = Stream(at, image_bytes)
    objs[4] = Stream({}, b"q 10 0 0 10 20 20 cm " + ser_name(name) + b" Do Q")
    objs[3] = {"Type": Name("Page"), "Parent": Ref(2), "MediaBox": [0, 0, 200, 200], "Contents": Ref(4), "Resources": {"XObject": {name: Ref(5)}}}
    return build_doc(objs, encrypt)


def jbig2_direct(x, mode):
    """the real reader and writer on the byte string x -> (status, reader dictionaries, bytes written)"""
    from pdfminer.jbig2 import JBIG2StreamReader, JBIG2StreamWriter
    try:
        segs = JBIG2StreamReader(io.BytesIO(x)).get_segments()
    except Exception as e:  # noqa: BLE001
        return "read:" + ("struct.error" if type(e).__name__ == "error" else type(e).__name__), [], b""
    o = io.BytesIO()
    try:
        w = JBIG2StreamWriter(o)
        if mode == "roundtrip":
            w.write_segments(segs, fix_last_page=False)
        else:
            w.write_file(segs)
    except Exception as e:  # noqa: BLE001
        return "write:" + ("struct.error" if type(e).__name__ == "error" else type(e).__name__), segs, o.getvalue()
    return "ok", segs, o.getvalue()


def jbig2_dict_view(d):
    """a reader dictionary in the shape of JBIG2Ops.tla's Dict"""
    rf = d["retention_flags"]
    return {"number": d["number"], "deferred": bool(d["flags"]["deferred"]), "palong": bool(d["flags"]["page_assoc_long"]), "type": d["flags"]["type"],
            "ref_count": rf["ref_count"], "retain": [int(bool(v)) for v in rf["retain_segments"]], "refs": list(rf["ref_segments"]),
            "page": d["page_assoc"], "dlen": d["data_length"], "hasdata": "raw_data" in d, "data": list(d.get("raw_data", b""))}
