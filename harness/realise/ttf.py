"""TrueType 'cmap' tables for C07 (clause "or the embedded TrueType cmap"): byte-level writer for the structures the model
TrueTypeCMap.tla enumerates (formats 0, 2, 4 and opaque subtables of other formats), an independent byte-level READER
written from the OpenType specification (used to self-check the writer and to turn the cmap tables of real fonts into the
field-level records TrueTypeCMapTrace.tla validates), and the minimal font file around a cmap table."""
from __future__ import annotations

import struct

from ..tlc import MachineryError


# ------------------------------------------------------------------------------------------------ writer
def write_format4(segs, gia, language=0):
    """segs: [{sc, ec, idd (any int, stored modulo 65536), idr (bytes)}] including the FFFF terminator; gia: [uint16]"""
    n = len(segs)
    body = struct.pack(">HHHH", 2 * n, 0, 0, 0)
    body += b"".join(struct.pack(">H", s["ec"]) for s in segs) + b"\0\0"
    body += b"".join(struct.pack(">H", s["sc"]) for s in segs)
    body += b"".join(struct.pack(">H", s["idd"] % 65536) for s in segs)
    body += b"".join(struct.pack(">H", s["idr"]) for s in segs)
    body += b"".join(struct.pack(">H", g) for g in gia)
    return struct.pack(">HHH", 4, 6 + len(body), language) + body


def write_format0(table):
    """table: {code < 256: glyph < 256}"""
    return struct.pack(">HHH", 0, 262, 0) + bytes(table.get(c, 0) for c in range(256))


def write_format2(keys, subs, gia):
    """keys: {byte: subheader index}; subs: [{first, count, delta (signed), roff (bytes)}]; gia: [uint16]"""
    body = b"".join(struct.pack(">H", 8 * keys.get(b, 0)) for b in range(256))
    body += b"".join(struct.pack(">HHhH", s["first"], s["count"], s["delta"], s["roff"]) for s in subs)
    body += b"".join(struct.pack(">H", g) for g in gia)
    return struct.pack(">HHH", 2, 6 + len(body), 0) + body


def write_format12(groups):
    """groups: [(startChar, endChar, startGlyph)] - only there to be skipped by a reader that does not support it"""
    body = b"".join(struct.pack(">LLL", *g) for g in groups)
    return struct.pack(">HHLLL", 12, 0, 16 + len(body), 0, len(groups)) + body


def write_format6(first, glyphs):
    return struct.pack(">HHHHH", 6, 10 + 2 * len(glyphs), 0, first, len(glyphs)) + b"".join(struct.pack(">H", g) for g in glyphs)


def cmap_table(subtables):
    """subtables: [(platform, encoding, bytes)] -> the cmap table"""
    n = len(subtables)
    off = 4 + 8 * n
    head = struct.pack(">HH", 0, n)
    body = b""
    for (p, e, data) in subtables:
        head += struct.pack(">HHL", p, e, off + len(body))
        body += data + (b"\0" if len(data) % 2 else b"")
    return head + body


def font_file(tables):
    """tables: [(tag, bytes)] -> a TrueType file with just these tables (sorted directory, 4-byte aligned)"""
    tables = sorted(tables)
    n = len(tables)
    out = b"\x00\x01\x00\x00" + struct.pack(">HHHH", n, 16, 0, 0)
    off = 12 + 16 * n
    bodies = b""
    for tag, data in tables:
        out += struct.pack(">4sLLL", tag, 0, off + len(bodies), len(data))
        bodies += data + b"\0" * (-len(data) % 4)
    return out + bodies


# ------------------------------------------------------------------------------------------------ reader (OpenType spec)
def read_tables(data):
    if len(data) < 12:
        return {}
    n = struct.unpack(">H", data[4:6])[0]
    out = {}
    for i in range(n):
        rec = data[12 + 16 * i:28 + 16 * i]
        if len(rec) < 16:
            break
        tag, _cs, off, ln = struct.unpack(">4sLLL", rec)
        out[tag] = (off, ln)
    return out


def u16(data, pos):
    if pos < 0 or pos + 2 > len(data):
        raise IndexError(pos)
    return struct.unpack(">H", data[pos:pos + 2])[0]


def parse_cmap(data, base):
    """-> [{'p','e','fmt', ...fields}] for every subtable of the cmap table at `base` (fields for formats 0, 2, 4)"""
    _ver, n = struct.unpack(">HH", data[base:base + 4])
    out = []
    for i in range(n):
        p, e, off = struct.unpack(">HHL", data[base + 4 + 8 * i:base + 12 + 8 * i])
        pos = base + off
        fmt = u16(data, pos)
        st = {"p": p, "e": e, "fmt": fmt, "pos": pos}
        if fmt == 0:
            st["table"] = list(data[pos + 6:pos + 262])
        elif fmt == 4:
            n2 = u16(data, pos + 6) // 2
            a = pos + 14
            st["ec"] = [u16(data, a + 2 * k) for k in range(n2)]
            a += 2 * n2 + 2
            st["sc"] = [u16(data, a + 2 * k) for k in range(n2)]
            a += 2 * n2
            st["idd"] = [u16(data, a + 2 * k) for k in range(n2)]
            a += 2 * n2
            st["idr"] = [u16(data, a + 2 * k) for k in range(n2)]
            st["idr_pos"] = a
            ln = u16(data, pos + 2)
            end = min(len(data), max(pos + ln, a + 2 * n2))
            st["words"] = [u16(data, q) for q in range(a, end - 1, 2)]      # idRangeOffset[] followed by glyphIdArray[]
        elif fmt == 2:
            st["keys"] = [u16(data, pos + 6 + 2 * b) // 8 for b in range(256)]
            nsub = max(st["keys"]) + 1
            a = pos + 518
            st["subs"] = []
            for k in range(nsub):
                first, count, delta, roff = struct.unpack(">HHhH", data[a + 8 * k:a + 8 * k + 8])
                st["subs"].append({"first": first, "count": count, "delta": delta, "roff": roff, "roff_pos": a + 8 * k + 6})
            st["data"] = data
        out.append(st)
    return out


def is_unicode(p, e):
    return p == 0 or (p == 3 and e in (1, 10))


def ref_glyph4(st, c):
    """OpenType cmap format 4: glyph of character code c"""
    for i, ec in enumerate(st["ec"]):
        if ec >= c:
            if st["sc"][i] > c:
                return 0
            idd, idr = st["idd"][i], st["idr"][i]
            if idr == 0:
                return (c + idd) % 65536
            w = i + idr // 2 + (c - st["sc"][i])
            if w >= len(st["words"]):
                raise IndexError(w)
            g = st["words"][w]
            return 0 if g == 0 else (g + idd) % 65536
    return 0


def ref_pairs(st):
    """{char: glyph != 0} a subtable defines, by the OpenType specification (formats 0, 2, 4; None for other formats)"""
    fmt = st["fmt"]
    out = {}
    if fmt == 0:
        for c, g in enumerate(st["table"]):
            if g:
                out[c] = g
    elif fmt == 4:
        for i, ec in enumerate(st["ec"]):
            for c in range(st["sc"][i], ec + 1):
                if i and c <= st["ec"][i - 1]:
                    continue
                g = ref_glyph4(st, c)
                if g:
                    out[c] = g
    elif fmt == 2:
        data = st["data"]
        for b in range(256):
            k = st["keys"][b]
            s = st["subs"][k]
            if k == 0:
                if s["first"] <= b < s["first"] + s["count"]:
                    g = u16(data, s["roff_pos"] + s["roff"] + 2 * (b - s["first"]))
                    if g:
                        out[b] = (g + s["delta"]) % 65536
            else:
                for j in range(s["count"]):
                    g = u16(data, s["roff_pos"] + s["roff"] + 2 * j)
                    if g:
                        out[(b << 8) + s["first"] + j] = (g + s["delta"]) % 65536
    else:
        return None
    return out


def ref_unicode_pairs(data):
    """per usable (Unicode platform, supported format) subtable of a font file, in file order: {char: glyph != 0};
    None when the file has no cmap table"""
    tabs = read_tables(data)
    if b"cmap" not in tabs:
        return None
    out = []
    for st in parse_cmap(data, tabs[b"cmap"][0]):
        if is_unicode(st["p"], st["e"]):
            p = ref_pairs(st)
            if p is not None:
                out.append(p)
    return out


def self_check():
    """writer and reader (two independent readings of the OpenType layout) must agree on hand-made examples"""
    segs = [{"sc": 32, "ec": 34, "idd": 0, "idr": 6}, {"sc": 36, "ec": 36, "idd": 65505, "idr": 0},
            {"sc": 65535, "ec": 65535, "idd": 1, "idr": 0}]
    f4 = write_format4(segs, [7, 0, 9])
    f0 = write_format0({65: 3, 66: 1})
    f2 = write_format2({0x81: 1}, [{"first": 0x41, "count": 2, "delta": 0, "roff": 2 * (8 - 3)},
                                   {"first": 0x40, "count": 2, "delta": 3, "roff": 2 * (8 + 2 - 7)}], [5, 0, 65534, 6])
    font = font_file([(b"cmap", cmap_table([(1, 0, f0), (3, 1, f4), (0, 3, f2)]))])
    if ref_unicode_pairs(font) != [{32: 7, 34: 9, 36: 5}, {0x41: 5, 0x8140: 1, 0x8141: 9}]:
        raise MachineryError("TrueType cmap reader self-check failed (subtable selection)")
    got = {(s["p"], s["e"]): ref_pairs(s) for s in parse_cmap(font, read_tables(font)[b"cmap"][0])}
    want = {(1, 0): {65: 3, 66: 1}, (3, 1): {32: 7, 34: 9, 36: 5}, (0, 3): {0x41: 5, 0x8140: 1, 0x8141: 9}}
    if got != want:
        raise MachineryError("TrueType cmap writer/reader self-check failed: %r != %r" % (got, want))
