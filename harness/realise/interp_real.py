"""Realiser + projection for the content-stream interpreter (C05, C16).

Programs are token sequences emitted by specs/interp/ContentInterp.tla; each becomes one page of a generated
document; a traced PDFPageInterpreter (generated wrappers with the original arities around every do_* method)
snapshots the interpreter state after each top-level operator; PDFPageAggregator(laparams=None) collects the
glyphs and shapes.
"""
import io
import logging
import os
import re

logging.disable(logging.CRITICAL)

from ..tlc import SPECS, MachineryError  # noqa: E402
from .pdfwriter import HexStr, Name, Ref, Revision, Stream, build, ser_string  # noqa: E402

from pdfminer.converter import PDFPageAggregator  # noqa: E402
from pdfminer.layout import LTChar, LTCurve, LTFigure, LTLine, LTRect  # noqa: E402
from pdfminer.pdfdocument import PDFDocument  # noqa: E402
from pdfminer.pdfinterp import PDFPageInterpreter, PDFResourceManager  # noqa: E402
from pdfminer.pdfpage import PDFPage  # noqa: E402
from pdfminer.pdfparser import PDFParser  # noqa: E402

U = 100000.0


def _tables():
    src = open(os.path.join(SPECS, "interp", "ContentInterp.tla")).read()
    nt = re.search(r"NameTab == <<(.*?)>>", src, re.S).group(1)
    ot = re.search(r"OpTab == <<(.*?)>>\n", src, re.S).group(1)
    names = re.findall(r'"((?:[^"\\]|\\.)*)"', nt)
    ops = [o.replace('\\"', '"') for o in re.findall(r'"((?:[^"\\]|\\.)*)"', ot)]
    if "F1" not in names or "Tj" not in ops or '"' not in ops:
        raise MachineryError("cannot read NameTab/OpTab from ContentInterp.tla")
    return names, ops


NAMES, OPS = _tables()


NUMSTYLES = 5


def num_bytes(n, style=0, half=False):
    """the same integer in the spellings PDF allows for a number: 7, 7.0, +7, 7., 007.  half: the operand is written as
    n/2 (line width and dash operands are modelled in half units so that non-integer values occur: 3 -> 1.5)"""
    if half:
        if n % 2 == 0:
            return num_bytes(n // 2, style)
        txt = b"%d.5" % (abs(n) // 2)
        sign = b"-" if n < 0 else (b"+" if style == 2 else b"")
        return sign + (b"0" if style == 4 else b"") + txt + (b"0" if style == 1 else b"")
    if style == 1:
        return b"%d.0" % n
    if style == 2:
        return b"+%d" % n if n >= 0 else b"%d" % n
    if style == 3:
        return b"%d." % n
    if style == 4:
        return (b"-" if n < 0 else b"") + b"%03d" % abs(n)
    return b"%d" % n


def tok_bytes(t, style=0):
    k = t["t"]
    if k == "num":
        return num_bytes(t["n"], style, t.get("half", False))
    if k == "str":
        return ser_string(bytes(t["s"]))
    if k == "name":
        return b"/" + NAMES[t["s"][0] - 1].encode()
    if k == "arr":
        return b"[" + b" ".join(tok_bytes(dict(x, half=True) if t.get("half") else x, style) for x in t["a"]) + b"]"
    if k == "op":
        return OPS[t["s"][0] - 1].encode()
    raise MachineryError("bad token %r" % (t,))


def lex_tokens(prog):
    """the lexical tokens of a program: an array contributes its brackets and its elements one by one, so that a
    division of the content `at white space` can also fall inside a composite operand"""
    out = []
    for t in mark_half(prog):
        if t["t"] == "arr":
            out.append(b"[")
            out.extend(tok_bytes(dict(x, half=True) if t.get("half") else x) for x in t["a"])
            out.append(b"]")
        else:
            out.append(tok_bytes(t))
    return out


HALF_UNITS = {"w": 1, "d": 2}       # operator -> how many operands before it are written in half units
HALF = False                        # switched on per group of programs (only where every w / d has its own operands right
                                    # before it: no operand left over by an earlier operator can end up as a line width)


def mark_half(prog):
    """copies of the tokens with half=True on the operands of `w` and `d` (array and phase): these quantities take part in
    no arithmetic, so the model's integers can stand for halves and the real documents carry 1.5, 0.5, ..."""
    out = [dict(t) for t in prog]
    if not HALF:
        return out
    for i, t in enumerate(out):
        if t["t"] == "op":
            n = HALF_UNITS.get(OPS[t["s"][0] - 1], 0)
            for j in range(max(0, i - n), i):
                if out[j]["t"] in ("num", "arr"):
                    out[j]["half"] = True
    return out


def prog_bytes(prog, style=0):
    return b" ".join(tok_bytes(t, style) for t in mark_half(prog))


def op_names(prog):
    return [OPS[t["s"][0] - 1] for t in prog if t["t"] == "op"]


def fonts():
    widths = [0] * (67 - 32 + 1)
    widths[0] = 250
    widths[65 - 32] = 500
    widths[66 - 32] = 1000
    fd = {"Type": Name("FontDescriptor"), "FontName": Name("FontOne"), "Flags": 32, "FontBBox": [0, -200, 1000, 800],
          "ItalicAngle": 0, "Ascent": 800, "Descent": -200, "CapHeight": 700, "StemV": 80, "MissingWidth": 300}
    f1 = {"Type": Name("Font"), "Subtype": Name("Type1"), "BaseFont": Name("FontOne"), "FirstChar": 32, "LastChar": 67,
          "Widths": widths, "FontDescriptor": fd, "Encoding": Name("WinAnsiEncoding")}
    fd2 = dict(fd, FontName=Name("FontTwo"))
    cid = {"Type": Name("Font"), "Subtype": Name("CIDFontType2"), "BaseFont": Name("FontTwo"),
           "CIDSystemInfo": {"Registry": "Adobe", "Ordering": "Identity", "Supplement": 0}, "DW": 1000, "W": [32, [0], 65, 65, 300], "FontDescriptor": fd2}
    f2 = {"Type": Name("Font"), "Subtype": Name("Type0"), "BaseFont": Name("FontTwo"), "Encoding": Name("Identity-H"),
          "DescendantFonts": [cid]}
    w1b = list(widths)
    w1b[65 - 32] = 600
    w1b[66 - 32] = 900
    f1b = dict(f1, Widths=w1b)          # same /BaseFont, other widths: what F1 means inside form Fm3
    return f1, f2, f1b


def build_doc(progs, forms, mediabox=(0, 0, 612, 792), split=None, numstyle=None, direct_fonts=False):
    """progs: list of token programs; forms: {name: {"m": [...], "body": tokens}}; split: optional function
    token program -> list of byte parts (Contents array; the division may only fall between lexical tokens)."""
    f1, f2, f1b = fonts()
    fontobj = {"F1": f1, "F2": f2, "F1b": f1b}
    objs = {1: {"Type": Name("Catalog"), "Pages": Ref(2)}, 3: f1, 4: f2}
    nxt = 5
    # direct_fonts: the page's fonts are written as direct dictionaries inside /Resources (no object number to cache by)
    fres = {"F1": f1, "F2": f2} if direct_fonts else {"F1": Ref(3), "F2": Ref(4)}
    # form XObjects: `page` forms are listed in the page's /XObject dictionary under their key; a form with own=True gets a
    # /Resources dictionary of its own (font F1 and the XObjects its `xo` lists, by LOCAL name), others inherit the caller's
    ids = {}
    for name in forms:
        ids[name] = nxt
        nxt += 1
    for name, f in forms.items():
        attrs = {"Type": Name("XObject"), "Subtype": Name("Form"), "BBox": [0, 0, 100, 100]}
        if list(f["m"]) != [1, 0, 0, 1, 0, 0]:
            attrs["Matrix"] = list(f["m"])
        if f.get("own", list(f["m"]) != [1, 0, 0, 1, 0, 0]):
            # a form's own fonts: the page's font object by reference when it is the same font, a DIRECT dictionary otherwise
            attrs["Resources"] = {"Font": {local: (fontobj[key] if direct_fonts else Ref(3) if key == "F1" else Ref(4) if key == "F2" else fontobj[key])
                                           for local, key in f.get("fo", {"F1": "F1"}).items()}}
            if f.get("xo"):
                attrs["Resources"]["XObject"] = {local: Ref(ids[key]) for local, key in f["xo"].items()}
        objs[ids[name]] = Stream(attrs, prog_bytes(f["body"]))
    xo = {name: Ref(ids[name]) for name, f in forms.items() if f.get("page", True)}
    # the colour spaces of ContentInterp.tla's CSN table
    icc = {}
    for n in (1, 3, 4, None):
        objs[nxt] = Stream({"N": n} if n else {"Alternate": Name("DeviceRGB")}, b"\x00" * 8)
        icc[n] = Ref(nxt)
        nxt += 1
    fn = {"FunctionType": 2, "Domain": [0, 1], "C0": [0, 0, 0], "C1": [1, 0, 0], "N": 1}
    objs[nxt] = [Name("Cyan"), Name("Spot1")]
    # (a three-component space comes first: the default colour space must not depend on what the resources list)
    cs = {"CsI3": [Name("ICCBased"), icc[3]], "CsI1": [Name("ICCBased"), icc[1]], "CsI4": [Name("ICCBased"), icc[4]],
          "CsBad": [Name("ICCBased"), icc[None]],
          "CsN2": [Name("DeviceN"), Ref(nxt), Name("DeviceRGB"), fn],       # (the colorant names as an indirect array)
          "CsN3": [Name("DeviceN"), [Name("A"), Name("B"), Name("C")], Name("DeviceRGB"), fn],
          "CsSep": [Name("Separation"), Name("Spot"), Name("DeviceCMYK"), dict(fn, C0=[0, 0, 0, 0], C1=[0, 0, 0, 1])],
          "CsIdx": [Name("Indexed"), Name("DeviceRGB"), 1, HexStr(b"\x00\x00\x00\xff\xff\xff")],
          "CsLab": [Name("Lab"), {"WhitePoint": [1, 1, 1]}]}
    nxt += 1
    res = {"Font": fres, "XObject": xo, "ColorSpace": cs}
    kids = []
    for i, p in enumerate(progs):
        # numstyle: program index -> spelling of its numeric operands (same values, so the same expectation)
        body = prog_bytes(p, numstyle(i) if numstyle else 0)
        parts = split(p) if split else [body]
        refs = []
        for part in parts:
            objs[nxt] = Stream({}, part)
            refs.append(Ref(nxt))
            nxt += 1
        objs[nxt] = {"Type": Name("Page"), "Parent": Ref(2), "MediaBox": list(mediabox), "Resources": res,
                     "Contents": refs[0] if len(refs) == 1 else refs}
        kids.append(Ref(nxt))
        nxt += 1
    objs[2] = {"Type": Name("Pages"), "Kids": kids, "Count": len(kids)}
    return build([Revision(dict(sorted(objs.items())), root=Ref(1))])[0]


# ------------------------------------------------------------------------------------------------ traced interpreter
def _make_traced(snapfn=None):
    snapfn = snapfn or snapshot
    ns = {}
    body = {}
    for name in dir(PDFPageInterpreter):
        if not name.startswith("do_"):
            continue
        orig = getattr(PDFPageInterpreter, name)
        n = orig.__code__.co_argcount - 1
        args = ", ".join("a%d" % i for i in range(n))
        src = ("def %s(self%s):\n"
               "    T = type(self)\n"
               "    T._depth += 1\n"
               "    try:\n"
               "        return _orig_%s(self%s)\n"
               "    finally:\n"
               "        T._depth -= 1\n"
               "        if T._depth == 0 and T._formdepth == 0:\n"
               "            T._snaps.append((%r, _snap(self)))\n") % (name, (", " + args) if args else "", name, (", " + args) if args else "", name)
        ns["_orig_" + name] = orig
        ns["_snap"] = snapfn
        exec(src, ns)
        body[name] = ns[name]
    body["_depth"] = 0
    body["_formdepth"] = 0
    body["_snaps"] = []
    return type("TracedInterp", (PDFPageInterpreter,), body)


def _color(c):
    if c is None:
        return None
    if isinstance(c, (int, float)):
        return (float(c),)
    return tuple(float(x) for x in c)


def snapshot(it):
    ts, gs = it.textstate, it.graphicstate
    fname = ""
    for k, v in it.fontmap.items():
        if v is ts.font:
            fname = k
    return {"ctm": tuple(it.ctm), "dctm": tuple(it.device.ctm), "tm": tuple(ts.matrix), "lx": ts.linematrix[0], "font": fname,
            "size": ts.fontsize, "tc": ts.charspace, "tw": ts.wordspace, "tz": ts.scaling, "tl": -ts.leading, "rise": ts.rise,
            "lw": gs.linewidth, "sc": _color(gs.scolor), "nc": _color(gs.ncolor), "npath": len(it.curpath),
            "depth": len(it.gstack), "nargs": len(it.argstack)}


_Traced = None


def traced_class():
    """operators of form XObjects run in interpreters created by dup() (same class) inside the outer do_Do wrapper,
    i.e. at depth >= 1: they are not snapshotted - the model's Do is one step."""
    global _Traced
    if _Traced is None:
        _Traced = _make_traced()
    return _Traced


def flatten(item, out):
    for x in item:
        if isinstance(x, LTFigure):
            flatten(x, out)
        else:
            out.append(x)


def run_doc(data, npages):
    """-> list per page of (glyphs, shapes, snaps, error)"""
    T = traced_class()
    doc = PDFDocument(PDFParser(io.BytesIO(data)))
    rm = PDFResourceManager()
    dev = PDFPageAggregator(rm, laparams=None)
    out = []
    # ONE interpreter for all pages, as extract_pages / extract_text / extract_text_to_fp use it: whatever a page leaves
    # behind (an unmatched q, an unpainted path, operands, resources) must not reach the next page
    it = T(rm, dev)
    for page in PDFPage.create_pages(doc):
        T._snaps = []
        T._depth = 0
        err = None
        try:
            it.process_page(page)
            lt = dev.get_result()
            items = []
            flatten(lt, items)
        except Exception as e:  # noqa: BLE001
            err = type(e).__name__
            items = []
        glyphs, shapes = [], []
        for x in items:
            if isinstance(x, LTChar):
                glyphs.append({"m": tuple(x.matrix), "adv": x.adv, "font": x.fontname, "bbox": tuple(x.bbox), "size": x.size,
                               "nc": _color(x.graphicstate.ncolor), "text": x.get_text()})
            elif isinstance(x, (LTLine, LTRect, LTCurve)):
                kind = "line" if isinstance(x, LTLine) else "rect" if isinstance(x, LTRect) else "curve"
                shapes.append({"kind": kind, "pts": [tuple(p) for p in x.pts], "stroke": bool(x.stroke), "fill": bool(x.fill),
                               "eo": bool(x.evenodd), "lw": x.linewidth, "dash": x.dashing_style,
                               "sc": _color(x.stroking_color), "nc": _color(x.non_stroking_color),
                               "orig": x.original_path, "bbox": tuple(x.bbox)})
        out.append((glyphs, shapes, list(T._snaps), err))
    if len(out) != npages:
        raise MachineryError("generated document has %d pages, expected %d" % (len(out), npages))
    return out


# ------------------------------------------------------------------------------------------------ comparison
def close(a, b):
    if a is None or b is None:
        return a is b
    if isinstance(a, (tuple, list)):
        return isinstance(b, (tuple, list)) and len(a) == len(b) and all(close(x, y) for x, y in zip(a, b))
    if isinstance(a, (int, float)) and isinstance(b, (int, float)):
        return abs(a - b) <= 1e-9 * max(1.0, abs(a), abs(b))
    return a == b


FONTNAME = {"F1": "FontOne", "F2": "FontTwo", "F1b": "FontOne"}


def model_glyph(g):
    m = g["m"]
    nc = tuple(float(x) for x in g["nc"]) if g["nc"] else None
    bb = g["bbox"]
    return {"m": (m[0], m[1], m[2], m[3], m[4] / U, m[5] / U), "adv": g["adv"] / U, "font": FONTNAME.get(g["font"], g["font"]),
            "bbox": tuple(v / U for v in bb), "size": (bb[3] - bb[1]) / U, "nc": nc}


def glyphs_equal(real, model):
    if len(real) != len(model):
        return False
    for r, g in zip(real, model):
        mg = model_glyph(g)
        for k in ("m", "adv", "bbox", "size", "nc"):
            if not close(r[k], mg[k]):
                return False
        if r["font"] != mg["font"]:
            return False
    return True


def model_shape(s):
    col = lambda c: tuple(float(x) for x in c) if c else None  # noqa: E731
    dash = None
    if s["dash"]:
        h = 2.0 if HALF else 1.0                                         # (the model counts dash and width in half units)
        dash = ([x / h for x in s["dash"][0]], s["dash"][1] / h)
    return {"kind": s["kind"], "pts": [tuple(float(v) for v in p) for p in s["pts"]], "stroke": s["stroke"], "fill": s["fill"],
            "eo": s["eo"], "lw": s["lw"] / (2.0 if HALF else 1.0), "dash": dash, "sc": col(s["sc"]), "nc": col(s["nc"])}


def shape_equal(r, ms):
    if r["kind"] != ms["kind"]:
        return False
    for k in ("stroke", "fill", "eo"):
        if r[k] != ms[k]:
            return False
    if not close(r["lw"], ms["lw"]) or not close(r["sc"], ms["sc"]) or not close(r["nc"], ms["nc"]):
        return False
    rd = r["dash"]
    if rd is not None:
        try:
            rd = (list(rd[0]), rd[1])
        except Exception:  # noqa: BLE001
            return False
    if not close(rd, ms["dash"]):
        return False
    if ms["kind"] == "rect":
        # LTRect keeps the normalised bounding box corners: compare as corner sets, and the path itself exactly
        want = {tuple(p) for p in ms["pts"][:4]}
        got = {tuple(float(v) for v in p) for p in r["pts"]}
        if not (len(want) == len(got) and all(any(close(a, b) for b in got) for a in want)):
            return False
        # ... "the transformed end points of its segments IN ORDER": LTRect.pts are rebuilt from two corners, the path as
        # painted is kept in original_path - its points must be the model's, starting at the same corner, same direction
        orig = [tuple(float(v) for v in seg[1]) for seg in (r.get("orig") or []) if len(seg) > 1]
        if orig and not close(orig[:4], [tuple(p) for p in ms["pts"][:4]]):
            return False
        return True
    if ms["kind"] == "line":
        return close(r["pts"], ms["pts"][:2])
    return close(r["pts"], ms["pts"])


def shapes_equal(real, model):
    if len(real) != len(model):
        return False
    return all(shape_equal(r, model_shape(s)) for r, s in zip(real, model))


def model_snap(s):
    col = lambda c: tuple(float(x) for x in c) if c else None  # noqa: E731
    tm = s["tm"]
    return {"ctm": tuple(s["ctm"]), "dctm": tuple(s["dctm"]), "tm": (tm[0], tm[1], tm[2], tm[3], tm[4] / U, tm[5] / U), "lx": s["lx"] / U,
            "font": s["font"], "size": s["size"], "tc": s["tc"], "tw": s["tw"], "tz": s["tz"], "tl": s["tl"], "rise": s["rise"],
            "lw": s["lw"] / (2.0 if HALF else 1.0), "sc": col(s["sc"]), "nc": col(s["nc"]), "npath": s["npath"], "depth": s["depth"], "nargs": s["nargs"]}


def snaps_equal(real, model):
    if len(real) != len(model):
        return False
    for (name, r), m in zip(real, model):
        mm = model_snap(m)
        for k, v in mm.items():
            if not close(r[k], v):
                return False
    return True


# ------------------------------------------------------------------------------------------------ digest traces (binding B)
OPNAME = {"T_a": "T*", "_q": "'", "_w": '"', "f_a": "f*", "B_a": "B*", "b_a": "b*", "W_a": "W*"}


def digest_state(it):
    ts, gs = it.textstate, it.graphicstate
    return {"ctm": tuple(it.ctm),
            "ts": (id(ts.font), ts.fontsize, ts.charspace, ts.wordspace, ts.scaling, ts.leading, ts.render, ts.rise,
                   tuple(ts.matrix), tuple(ts.linematrix)),
            "gs": (gs.linewidth, repr(gs.linecap), repr(gs.linejoin), repr(gs.miterlimit), repr(gs.dash), repr(gs.intent),
                   repr(gs.flatness), repr(gs.scolor), repr(gs.ncolor)),
            "npath": len(it.curpath), "depth": len(it.gstack), "sync": tuple(it.device.ctm) == tuple(it.ctm)}


_Digest = None


def record_operator_traces(data, label, maxpages=6, maxops=4000, password=""):
    """-> list of trace records (one per page) with opaque ids for the state components"""
    global _Digest
    if _Digest is None:
        _Digest = _make_traced(digest_state)
    T = _Digest
    doc = PDFDocument(PDFParser(io.BytesIO(data)), password=password)
    rm = PDFResourceManager()
    dev = PDFPageAggregator(rm, laparams=None)
    out = []
    for pno, page in enumerate(PDFPage.create_pages(doc)):
        if pno >= maxpages:
            break
        it = T(rm, dev)
        T._snaps = []
        T._depth = 0
        init_holder = {}
        orig_init = it.init_state

        def init_state(ctm, _o=orig_init, _it=it, _h=init_holder):
            _o(ctm)
            _h.setdefault("st", digest_state(_it))
        it.init_state = init_state
        try:
            it.process_page(page)
            dev.get_result()
        except Exception:  # noqa: BLE001  (damaged sample pages are C13's business)
            continue
        if "st" not in init_holder or not T._snaps:
            continue
        ids = {"ctm": {}, "ts": {}, "gs": {}}

        def enc(d):
            r = {}
            for k in ("ctm", "ts", "gs"):
                r[k] = ids[k].setdefault(d[k], len(ids[k]))
            r["npath"] = d["npath"]
            r["depth"] = d["depth"]
            r["sync"] = d["sync"]
            return r
        ev = []
        init = enc(init_holder["st"])
        for name, d in T._snaps[:maxops]:
            op = name[3:]
            ev.append({"op": OPNAME.get(op, op), "after": enc(d)})
        out.append({"label": "%s p%d" % (label, pno + 1), "init": init, "events": ev})
    return out
