"""Minimal, deterministic PDF writer used by the realisers.

Values:  None, bool, int, float, Name, bytes (string), str (string, latin-1), list, dict, Ref, Raw, Stream.
A document is a list of Revision objects; each is written as one body + cross-reference section in the
chosen physical form (classic table, cross-reference stream, or hybrid), optionally packing objects into
object streams.  build() returns the bytes plus a map of what was written where.
"""
from __future__ import annotations

import zlib


class Name(str):
    pass


class Ref:
    def __init__(self, n, g=0):
        self.n, self.g = n, g

    def __repr__(self):
        return "Ref(%d,%d)" % (self.n, self.g)

    def __eq__(self, o):
        return isinstance(o, Ref) and (o.n, o.g) == (self.n, self.g)

    def __hash__(self):
        return hash((self.n, self.g))


class Raw(bytes):
    """already-serialised PDF syntax"""


class HexStr(bytes):
    pass


class Stream:
    def __init__(self, attrs=None, data=b"", raw_length=None, eol_after_keyword=b"\n", eol_before_end=b"\n"):
        self.attrs = dict(attrs or {})
        self.data = data
        self.raw_length = raw_length      # value for /Length (None -> len(data)); may be a Ref
        self.eol_after_keyword = eol_after_keyword
        self.eol_before_end = eol_before_end


_NAME_OK = set(b"abcdefghijklmnopqrstuvwxyzABCDEFGHIJKLMNOPQRSTUVWXYZ0123456789_-+.*@$^&!?|~`'\",:;=")


def ser_name(s):
    b = s.encode("utf-8") if isinstance(s, str) else bytes(s)
    return b"/" + b"".join(bytes([c]) if c in _NAME_OK else b"#%02X" % c for c in b)


def ser_string(b):
    out = bytearray(b"(")
    for c in b:
        if c in b"()\\":
            out += b"\\" + bytes([c])
        elif c == 13:
            out += b"\\r"
        elif c == 10:
            out += b"\\n"
        else:
            out.append(c)
    return bytes(out + b")")


def ser_num(x):
    if isinstance(x, int):
        return b"%d" % x
    s = repr(float(x))
    if "e" in s or "E" in s or "inf" in s or "nan" in s:
        s = "%.10f" % x
    if s.endswith(".0"):
        s = s[:-2]
    return s.encode()


def ser(v, transform=None):
    """transform(kind, bytes) -> bytes is applied to string payloads (kind='string') - used for encryption."""
    if v is None:
        return b"null"
    if isinstance(v, Raw):
        return bytes(v)
    if v is True:
        return b"true"
    if v is False:
        return b"false"
    if isinstance(v, (int, float)):
        return ser_num(v)
    if isinstance(v, Name):
        return ser_name(v)
    if isinstance(v, HexStr):
        b = transform("string", bytes(v)) if transform else bytes(v)
        return b"<" + b.hex().encode() + b">"
    if isinstance(v, (bytes, bytearray)):
        b = bytes(v)
        if transform:
            b = transform("string", b)
        return ser_string(b)
    if isinstance(v, str):
        b = v.encode("latin-1")
        if transform:
            b = transform("string", b)
        return ser_string(b)
    if isinstance(v, Ref):
        return b"%d %d R" % (v.n, v.g)
    if isinstance(v, (list, tuple)):
        return b"[" + b" ".join(ser(x, transform) for x in v) + b"]"
    if isinstance(v, dict):
        return b"<<" + b" ".join(ser_name(k) + b" " + ser(x, transform) for k, x in v.items()) + b">>"
    if isinstance(v, Stream):
        return ser_stream(v, transform)
    raise TypeError("cannot serialise %r" % (v,))


def ser_stream(st, transform=None):
    data = st.data
    if transform:
        data = transform("stream", data)
    attrs = dict(st.attrs)
    if st.raw_length is not None:
        attrs["Length"] = st.raw_length
    else:
        attrs["Length"] = len(data)
    return (ser(attrs, transform) + b"\nstream" + st.eol_after_keyword + data + st.eol_before_end + b"endstream")


def png_predict(data, cols, types, bpp=1):
    """PNG-filter `data` (rows of `cols` bytes); row i uses filter type types[i % len(types)] (0 None, 1 Sub, 2 Up,
    3 Average, 4 Paeth).  Reference encoder written from the PNG specification, independent of pdfminer's decoder."""
    out = bytearray()
    above = bytes(cols)
    for r, i in enumerate(range(0, len(data), cols)):
        row = data[i:i + cols]
        t = types[r % len(types)]
        out.append(t)
        for x in range(len(row)):
            a = row[x - bpp] if x >= bpp else 0
            b = above[x] if x < len(above) else 0
            c = above[x - bpp] if x >= bpp else 0
            if t == 0:
                p = 0
            elif t == 1:
                p = a
            elif t == 2:
                p = b
            elif t == 3:
                p = (a + b) // 2
            else:
                pa, pb, pc = abs(b - c), abs(a - c), abs(a + b - 2 * c)
                p = a if pa <= pb and pa <= pc else b if pb <= pc else c
            out.append((row[x] - p) & 255)
        above = row
    return bytes(out)


class Revision:
    def __init__(self, objects, form="table", objstm=(), free=(), eol=b"\n", root=None, info=None,
                 trailer_extra=None, gens=None, xref_w=(1, 4, 2), split_index=False, objstm_id=None, xref_id=None,
                 pad_before=b"", omit_index=False, trailer_style=0, xref_pack="flate", objstm_pack="flate",
                 hybrid_free=False, drop_info=False, index_desc=False, omit_self=False):
        self.objects = dict(objects)          # objid -> value
        self.form = form                      # 'table' | 'stream' | 'hybrid'
        self.objstm = list(objstm)            # objids stored in this revision's object stream (not for 'table')
        self.free = list(free)                # objids marked free by this revision
        self.eol = eol
        self.root = root
        self.info = info
        self.trailer_extra = dict(trailer_extra or {})
        self.gens = dict(gens or {})          # objid -> generation (direct objects only)
        self.xref_w = xref_w
        self.split_index = split_index        # xref stream: one /Index range per run of consecutive ids
        self.objstm_id = objstm_id
        self.xref_id = xref_id
        self.pad_before = pad_before
        self.trailer_style = trailer_style    # table: 0 `trailer` EOL dict; 1 `trailer <<...>>` on one line; 2 `trailer <<` EOL entries EOL `>>`
        self.xref_pack = xref_pack            # xref stream payload: 'flate' | 'png' (Flate + /Predictor 12, as most writers do) | 'none'
        self.objstm_pack = objstm_pack        # object stream payload: 'flate' | 'none' | 'hex' (ASCIIHex)
        self.index_desc = index_desc          # xref stream with several /Index subsections: written in descending order
        self.omit_self = omit_self            # xref stream without an entry for itself (readers find it through startxref); with nothing
                                              # else to list the section is `/Index []` with no entry data: an update that defines nothing
        self.drop_info = drop_info            # this revision's trailer carries no /Info although an older one does
        self.hybrid_free = hybrid_free        # hybrid: the classic table lists the objects kept in object streams as FREE entries
                                              # (ISO 32000-1 7.5.8.4: hidden from readers that do not know XRefStm)
        self.omit_index = omit_index          # xref stream: leave /Index out when it equals the default [0 Size]


def _runs(ids):
    runs = []
    for i in sorted(ids):
        if runs and runs[-1][0] + runs[-1][1] == i:
            runs[-1][1] += 1
        else:
            runs.append([i, 1])
    return runs


def build(revisions, header=b"%PDF-1.7\n%\xe2\xe3\xcf\xd3\n", transform_for=None, startxref_override=None,
          final_eol=True):
    """-> (bytes, info)   info: {'offsets': [{objid: offset}], 'xref_pos': [...], 'sections': [...]}
    transform_for(objid, gen) -> transform callable or None (encryption of direct objects)."""
    out = bytearray(header)
    prev = None
    size = 1
    info = {"offsets": [], "xref_pos": [], "objstm_ids": [], "xref_ids": []}
    root = None
    infor = None
    for rev in revisions:
        E = rev.eol
        out += rev.pad_before
        if rev.root is not None:
            root = rev.root
        if rev.info is not None:
            infor = rev.info
        offs = {}
        packed = [n for n in rev.objstm if n in rev.objects] if rev.form != "table" else []
        direct = [n for n in rev.objects if n not in packed]
        maxid = max([size - 1] + list(rev.objects) + list(rev.free))
        entries = {}  # objid -> (type, f2, f3)
        for n in direct:
            g = rev.gens.get(n, 0)
            offs[n] = len(out)
            tr = transform_for(n, g) if transform_for else None
            out += b"%d %d obj" % (n, g) + E + ser(rev.objects[n], tr) + E + b"endobj" + E
            entries[n] = (1, offs[n], g)
        for n in rev.free:
            entries[n] = (0, 0, rev.gens.get(n, 1))
        stm_id = None
        if packed:
            stm_id = rev.objstm_id or (maxid + 1)
            maxid = max(maxid, stm_id)
            bodies = [ser(rev.objects[n]) for n in packed]
            pos = 0
            head = []
            for n, b in zip(packed, bodies):
                head.append(b"%d %d" % (n, pos))
                pos += len(b) + 1
            hd = b" ".join(head) + b"\n"
            payload = hd + b"\n".join(bodies) + b"\n"
            sd = {"Type": Name("ObjStm"), "N": len(packed), "First": len(hd)}
            if rev.objstm_pack == "none":
                st = Stream(sd, payload)
            elif rev.objstm_pack == "hex":
                st = Stream(dict(sd, Filter=Name("ASCIIHexDecode")), payload.hex().upper().encode() + b">")
            else:
                st = Stream(dict(sd, Filter=Name("FlateDecode")), zlib.compress(payload))
            offs[stm_id] = len(out)
            tr = transform_for(stm_id, 0) if transform_for else None
            out += b"%d 0 obj" % stm_id + E + ser(st, tr) + E + b"endobj" + E
            entries[stm_id] = (1, offs[stm_id], 0)
            for i, n in enumerate(packed):
                entries[n] = (2, stm_id, i)
        info["objstm_ids"].append(stm_id)
        trailer = {}
        trailer.update(rev.trailer_extra)
        if root is not None:
            trailer["Root"] = root
        if infor is not None and not (rev.drop_info and rev.info is None):
            trailer["Info"] = infor
        if prev is not None:
            trailer["Prev"] = prev

        def xref_stream(ids, xid, extra):
            nonlocal maxid
            w = rev.xref_w
            pos = len(out)
            ent = {k: entries[k] for k in ids}
            if not rev.omit_self:
                ent[xid] = (1, pos, 0)
            if 0 not in ent and prev is None and rev.form == "stream":
                ent[0] = (0, 0, 65535)
            keys = sorted(ent)
            if not keys:
                runs = []
            elif rev.split_index:
                runs = _runs(keys)
                if rev.index_desc and len(runs) > 1:
                    # /Index subsections need not ascend: entries follow the order of the pairs
                    runs = runs[::-1]
                    keys = [k for (a, n) in runs for k in range(a, a + n)]
            else:
                lo, hi = keys[0], keys[-1]
                runs = [[lo, hi - lo + 1]]
                for k in range(lo, hi + 1):
                    ent.setdefault(k, (0, 0, 0) if k else (0, 0, 65535))
                keys = sorted(ent)
            rows = bytearray()
            for k in keys:
                t, a, b = ent[k]
                if w[0]:
                    rows += t.to_bytes(w[0], "big")
                elif t != 1:
                    raise ValueError("zero-width type field needs type-1 entries only")
                rows += a.to_bytes(w[1], "big") + b.to_bytes(w[2], "big")
            d = {"Type": Name("XRef"), "Size": max(maxid, xid) + 1, "W": list(w),
                 "Index": [x for r in runs for x in r]}
            rows = bytes(rows)
            if rev.xref_pack in ("png", "pngmix"):
                # PNG prediction over rows of one entry each: all rows `Up` (what nearly every writer emits), or the row
                # filter types mixed the way an optimising encoder chooses them (None followed by Up / Paeth / Average ...)
                cols = sum(w)
                types = [2] if rev.xref_pack == "png" else [0, 2, 1, 0, 4, 3, 0, 3, 2, 4, 1]
                rows = png_predict(rows, cols, types)
                d["DecodeParms"] = {"Predictor": 12 if rev.xref_pack == "png" else 15, "Columns": cols}
            if rev.xref_pack != "none":
                d["Filter"] = Name("FlateDecode")
                rows = zlib.compress(rows)
            if rev.omit_index and d["Index"] == [0, d["Size"]]:
                del d["Index"]
            d.update(extra)
            st = Stream(d, rows)
            out.extend(b"%d 0 obj" % xid + E + ser(st) + E + b"endobj" + E)
            return pos

        if rev.form == "stream":
            xid = rev.xref_id or (maxid + 1)
            maxid = max(maxid, xid)
            xpos = xref_stream(list(entries), xid, trailer)
            info["xref_ids"].append(xid)
        else:
            xstm_pos = None
            if rev.form == "hybrid" and packed:
                xid = rev.xref_id or (maxid + 1)
                maxid = max(maxid, xid)
                cids = [n for n in entries if entries[n][0] == 2]
                xstm_pos = xref_stream(cids, xid, {})
                info["xref_ids"].append(xid)
            else:
                info["xref_ids"].append(None)
            xpos = len(out)
            tab = {k: v for k, v in entries.items() if v[0] != 2}
            if rev.form == "hybrid" and rev.hybrid_free:
                for k, v in entries.items():
                    if v[0] == 2:
                        tab[k] = (0, 0, 0)
            if rev.form == "hybrid" and xstm_pos is not None:
                tab[info["xref_ids"][-1]] = (1, xstm_pos, 0)
            if prev is None:
                tab.setdefault(0, (0, 0, 65535))
            out += b"xref" + E
            if not tab:
                out += b"0 0" + E          # a section without entries (an update that changes the trailer only)
            for start, cnt in _runs(tab):
                out += b"%d %d" % (start, cnt) + E
                for k in range(start, start + cnt):
                    t, a, b = tab[k]
                    two = E if len(E) == 2 else b" " + E
                    out += b"%010d %05d %s" % (a, b, b"n" if t == 1 else b"f") + two
            trailer["Size"] = maxid + 1
            if xstm_pos is not None:
                trailer["XRefStm"] = xstm_pos
            td = ser(trailer)
            if rev.trailer_style == 1:
                out += b"trailer " + td + E
            elif rev.trailer_style == 2:
                out += b"trailer <<" + E + td[2:-2].strip() + E + b">>" + E
            else:
                out += b"trailer" + E + td + E
        sx = xpos if startxref_override is None else startxref_override
        out += b"startxref" + E + b"%d" % sx + E + b"%%EOF" + (E if final_eol else b"")
        prev = xpos
        size = maxid + 1
        info["offsets"].append(offs)
        info["xref_pos"].append(xpos)
    return bytes(out), info


# ------------------------------------------------------------------------------------------------ helpers
def type1_font(base="Helvetica", **kw):
    d = {"Type": Name("Font"), "Subtype": Name("Type1"), "BaseFont": Name(base)}
    d.update(kw)
    return d


def simple_doc(contents, fonts=None, mediabox=(0, 0, 612, 792), xobjects=None, extra_objects=None, catalog_extra=None,
               page_extra=None, form="table", objstm=(), compress=False):
    """One page per element of `contents` (bytes, or list of bytes for a Contents array).
    fonts: {resname: font dict or Ref}; returns (bytes, info)."""
    objs = {}
    nxt = [3]

    def new(v):
        n = nxt[0]
        nxt[0] += 1
        objs[n] = v
        return Ref(n)

    if extra_objects:
        for n, v in extra_objects.items():
            objs[n] = v
        nxt[0] = max(nxt[0], max(extra_objects) + 1)
    fonts = fonts if fonts is not None else {"F1": type1_font()}
    fres = {}
    for k, f in fonts.items():
        fres[k] = f if isinstance(f, Ref) else new(f)
    res = {"Font": fres}
    if xobjects:
        res["XObject"] = {k: (x if isinstance(x, Ref) else new(x)) for k, x in xobjects.items()}
    kids = []
    for c in contents:
        parts = c if isinstance(c, (list, tuple)) else [c]
        refs = []
        for part in parts:
            if compress:
                refs.append(new(Stream({"Filter": Name("FlateDecode")}, zlib.compress(part))))
            else:
                refs.append(new(Stream({}, part)))
        pg = {"Type": Name("Page"), "Parent": Ref(2), "MediaBox": list(mediabox), "Resources": res,
              "Contents": refs[0] if len(refs) == 1 else refs}
        if page_extra:
            pg.update(page_extra)
        kids.append(new(pg))
    objs[2] = {"Type": Name("Pages"), "Kids": kids, "Count": len(kids)}
    cat = {"Type": Name("Catalog"), "Pages": Ref(2)}
    if catalog_extra:
        cat.update(catalog_extra)
    objs[1] = cat
    rev = Revision(dict(sorted(objs.items())), form=form, objstm=objstm, root=Ref(1))
    return build([rev])
