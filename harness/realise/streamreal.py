"""Realisers for C03: turn behaviours enumerated by TLC on specs/stream/*.tla into concrete bytes / PDF files.

Every symbolic value of a model has several concrete representatives, so that the replay also checks that
the code treats the members of a class alike."""
from __future__ import annotations

import io

from ..tlc import MachineryError
from . import codecs as cd
from .pdfwriter import Name, Ref, Revision, Stream, build


class SecondAnswerDiffers(Exception):
    """get_data() called again on the same stream object did not give the first answer"""


def second_answer(st, first):
    """every stream is asked twice: the decoded data is cached, the second answer must be the first"""
    again = st.get_data()
    if again != first:
        raise SecondAnswerDiffers("second get_data() gave %r, the first %r" % (again[:20] if again else again, first[:20]))
    return first


# ------------------------------------------------------------------------------------------------ PDF batches
class PdfBatch:
    """Collects stream objects, writes them into one PDF, reads every one back through
    PDFDocument.getobj(n).get_data().  Container choices (EOL after `stream`, EOL before `endstream`,
    /Length direct or indirect) are cycled unless given."""

    EA = (b"\n", b"\r\n")
    EB = (b"\n", b"\r\n", b"", b"\r")

    def __init__(self, size=400, bufsiz=None):
        self.size = size
        self.bufsiz = bufsiz
        self.count = 0
        self._reset()

    def _reset(self):
        self.objs = {1: {"Type": Name("Catalog"), "Pages": Ref(2)}, 2: {"Type": Name("Pages"), "Kids": [], "Count": 0}}
        self.nxt = 3
        self.items = []          # (objid, expected bytes, tag)
        self.late = {}           # objects written after all streams (indirect lengths, filters, parameters)

    def alloc(self, value):
        """an indirect object holding value; written after the streams that use it"""
        n = 100000 + len(self.late)
        self.late[n] = value
        return Ref(n)

    def add(self, attrs, raw, expected, tag, ea=None, eb=None, indirect_length=None, marker=False):
        i = self.count
        self.count += 1
        ea = self.EA[i % 2] if ea is None else ea
        eb = self.EB[(i // 2) % 4] if eb is None else eb
        il = (i // 8) % 2 == 1 if indirect_length is None else indirect_length
        n = self.nxt
        self.nxt += 1
        st = Stream(attrs, raw, raw_length=self.alloc(len(raw)) if il else None, eol_after_keyword=ea, eol_before_end=eb)
        self.objs[n] = st
        if marker:
            self.objs[self.nxt] = b"NEXT%d" % n
            self.nxt += 1
        self.items.append((n, expected, tag))
        return n

    def full(self):
        return len(self.items) >= self.size

    def build(self):
        objs = dict(self.objs)
        # renumber the late objects so that object numbers stay dense
        remap = {}
        for n in self.late:
            remap[n] = self.nxt
            self.nxt += 1

        def fix(v):
            if isinstance(v, Ref) and v.n in remap:
                return Ref(remap[v.n])
            if isinstance(v, list):
                return [fix(x) for x in v]
            if isinstance(v, dict):
                return {k: fix(x) for k, x in v.items()}
            if isinstance(v, Stream):
                v.attrs = fix(v.attrs)
                if v.raw_length is not None:
                    v.raw_length = fix(v.raw_length)
                return v
            return v

        for n in list(objs):
            objs[n] = fix(objs[n])
        for n, v in self.late.items():
            objs[remap[n]] = fix(v)
        pdf, info = build([Revision(objs, root=Ref(1))])
        return pdf, info

    def run(self, on_result, with_calls=False):
        """on_result(tag, expected, got or None, exception or None, objid, pdf[, calls=, shape=])
        with_calls: also record which decoder functions PDFStream.decode called, and the dictionary as parsed"""
        from pdfminer.pdfdocument import PDFDocument
        from pdfminer.pdfparser import PDFParser
        from pdfminer.psparser import PSBaseParser
        if not self.items:
            return 0
        pdf, info = self.build()
        old = PSBaseParser.BUFSIZ
        if self.bufsiz:
            PSBaseParser.BUFSIZ = self.bufsiz
        try:
            try:
                doc = PDFDocument(PDFParser(io.BytesIO(pdf)))
            except Exception as e:      # noqa: BLE001
                raise MachineryError("generated PDF could not be opened: %r" % e)
            for (n, expected, tag) in self.items:
                if with_calls:
                    from ..observe import streamobs as so
                    calls = shape = None
                    try:
                        st = doc.getobj(n)
                        shape = so.attrs_shape(st.attrs)
                        with so.decode_calls() as log:
                            try:
                                got, exc = st.get_data(), None
                            finally:
                                calls = list(log)
                        got = second_answer(st, got)
                    except Exception as e:   # noqa: BLE001 - judged by the caller
                        got, exc = None, e
                    on_result(tag, expected, got, exc, n, pdf, calls=calls, shape=shape)
                    continue
                try:
                    got = doc.getobj(n).get_data()
                    got = second_answer(doc.getobj(n), got)
                    exc = None
                except Exception as e:   # noqa: BLE001 - judged by the caller
                    got, exc = None, e
                on_result(tag, expected, got, exc, n, pdf)
        finally:
            PSBaseParser.BUFSIZ = old
        done = len(self.items)
        self.last = (pdf, info)
        self._reset()
        return done


# ------------------------------------------------------------------------------------------------ StreamDelim
SYM_BYTES = {"CR": b"\r", "LF": b"\n", "NUL": b"\0", "ES": b"endstream", "EO": b"endobj"}
X_REPR = (b"x", b"\xff", b" ", b"%", b"(")
EOLS = {"LF": b"\n", "CR": b"\r", "CRLF": b"\r\n", "": b""}


def delim_payload(syms, variant):
    return b"".join(SYM_BYTES[s] if s != "x" else X_REPR[(variant + i) % len(X_REPR)] for i, s in enumerate(syms))


# ------------------------------------------------------------------------------------------------ LZW
LZW_MAPS = ((0x00, 0xFF), (0x61, 0x62), (0x80, 0x0A), (0x0D, 0x3E))


def lzw_real_codes(hist, alpha, m):
    """translate the scaled model's code sequence to the real code space"""
    out = []
    for (c, _w, _kind, _n) in hist:
        if c < alpha:
            out.append(m[c])
        elif c == alpha:
            out.append(cd.CLEAR)
        elif c == alpha + 1:
            out.append(cd.EOD)
        else:
            out.append(c - (alpha + 2) + cd.FIRST)
    return out


# ------------------------------------------------------------------------------------------------ RunLength
def rl_real(enc, runs, H, variant, stretch):
    """scaled encoding -> (real encoding, expected output).  byte H -> 128 (looks like EOD), the others to
    bytes around the length-byte thresholds; with `stretch` a run of the scaled maximum H becomes 128 long."""
    others = ((0, 127, 129, 255, 1, 254, 126, 130), (255, 129, 0, 127, 2, 3, 131, 125))[variant % 2]

    def mb(b):
        return 128 if b == H else others[b if b < H else b - 1]

    real = []
    expect = bytearray()
    pos = 0
    for (L, n) in runs:
        if pos >= len(enc) or enc[pos] != L:
            if L == H and n == 0:      # end of data read as EOD
                break
            raise MachineryError("RunLength realiser: run list does not match the encoding")
        if L == H:
            real.append(128)
            pos += 1
            break
        if L < H:
            lit = bytes(mb(b) for b in enc[pos + 1:pos + 1 + n])
            if stretch and n == H:
                lit = (lit * 128)[:128]
            real.append(len(lit) - 1)
            real.extend(lit)
            expect += lit
            pos += n + 1
        else:
            k = 128 if (stretch and n == H) else n
            b = mb(enc[pos + 1])
            real.append(257 - k)
            real.append(b)
            expect += bytes([b]) * k
            pos += 2
    return bytes(real), bytes(expect)


# ------------------------------------------------------------------------------------------------ FilterChain
def to_pdf(v, alloc):
    """[t, v] value of FilterChainOps (as JSON) -> pdfwriter value"""
    t = v["t"]
    if t == "name":
        return Name(v["v"])
    if t == "int":
        return v["v"]
    if t == "null":
        return None
    if t == "arr":
        return [to_pdf(x, alloc) for x in v["v"]]
    if t == "dict":
        d = v["v"]
        return {k: to_pdf(x, alloc) for k, x in d.items()} if isinstance(d, dict) else {}
    if t == "ref":
        return alloc(to_pdf(v["v"], alloc))
    raise MachineryError("unknown model value %r" % (v,))


def to_real(v, mkref):
    """[t, v] value -> the objects pdfminer's parser would deliver (for calling PDFStream directly)"""
    from pdfminer.psparser import LIT
    t = v["t"]
    if t == "name":
        return LIT(v["v"])
    if t == "int":
        return v["v"]
    if t == "null":
        return None
    if t == "arr":
        return [to_real(x, mkref) for x in v["v"]]
    if t == "dict":
        d = v["v"]
        return {k: to_real(x, mkref) for k, x in d.items()} if isinstance(d, dict) else {}
    if t == "ref":
        return mkref(to_real(v["v"], mkref))
    raise MachineryError("unknown model value %r" % (v,))


# geometry used when a chain layer carries a predictor: (colors, columns, bits), PNG row types (first row
# chosen so that no *known* predictor deviation is touched: those are Predictor.tla's business)
CHAIN_GEOMS = ((1, 4, 8, (2, 4, 3, 1, 0)), (2, 3, 8, (1, 4, 3, 2, 0)), (3, 2, 8, (0, 2, 4)), (1, 6, 8, (4, 1)))
CHAIN_PAYLOADS = (
    b"endstream\r\nab\x00",            # 12 bytes
    b"\r\n\nendobj\x00\xff\xfe\x01",    # 12
    b"\x00" * 12,
    bytes(range(250, 256)) + bytes(range(0, 6)),
    b"BT (endstream) Tj ET\nendobj\n%%EOF\n\x00\x80",   # 36
    b"",
)
# chains with an LZW stage get a payload long enough for that stage (and an LZW stage under it) to pass 253 codes,
# i.e. 511 table entries, where /EarlyChange 0 and 1 part: 660 bytes that hardly compress
import random as _random
_r = _random.Random(660)
LONG_PAYLOAD = bytes(_r.randrange(256) for _ in range(648)) + b"endstream\r\n\x00"


def chain_geometry(n, variant):
    """a geometry whose rows tile n bytes exactly (the data under a predictor layer is whatever the inner
    layers produced): one of CHAIN_GEOMS when it fits, otherwise one component and 1..3 rows"""
    for j in range(len(CHAIN_GEOMS)):
        c, col, bits, types = CHAIN_GEOMS[(variant + j) % len(CHAIN_GEOMS)]
        if n and n % cd.row_length(c, col, bits) == 0:
            return c, col, bits, types
    for rows in (3, 2):
        if n and n % rows == 0:
            return 1, n // rows, 8, (4, 2, 3, 1, 0)[variant % 5:] + (0,)
    return 1, max(n, 1), 8, ((variant % 5),)


def chain_encode(layers, payload, variant):
    """apply the writer's layers <<filter, predictor, earlychange>> (last filter first).
    -> (raw stream bytes, [extra parameter entries per layer: predictor geometry, CCITT columns])"""
    data = payload
    parms = [None] * len(layers)
    for k in range(len(layers) - 1, -1, -1):
        f, p, ec = layers[k]
        if p == 2 or p >= 10:
            c, col, bits, types = chain_geometry(len(data), variant + k)
            if p == 2:
                data = cd.tiff_predict(data, c, col)
            else:
                data = cd.png_predict(data, c, col, bits, types)
            parms[k] = {"Colors": c, "Columns": col, "BitsPerComponent": bits}
        columns = 8
        if f == "CCF":
            columns = 16 if (len(data) % 2 == 0 and (variant + k) % 2) else 8
            parms[k] = {"Columns": columns}
        data = cd.encode_layer(f, data, variant + k, ec=0 if ec == 0 else 1, columns=columns)
    return data, parms

# ------------------------------------------------------------------------------------------------ StreamDelim, extended
X_SAFE = (b"x", b"\xff", b"q")        # (no `(` or `%`: in fallback mode the rest of a cut payload is tokenized)


def delim_payload_safe(syms, variant):
    return b"".join(SYM_BYTES[s] if s != "x" else X_SAFE[(variant + i) % len(X_SAFE)] for i, s in enumerate(syms))


def first_endstream(data, start):
    i = data.find(b"endstream", start)
    return len(data) if i < 0 else i


def delivered(filedata, start, length, fallback):
    """What PDFParser hands to PDFStream and where it goes on, as StreamDelim.tla states it (Delivered / ResumeAt):
    normal mode: exactly `length` bytes from `start`; fallback mode: everything up to the first `endstream`."""
    if fallback:
        end = first_endstream(filedata, start)
        return filedata[start:end], end
    return filedata[start:start + length], first_endstream(filedata, start + length)


# ------------------------------------------------------------------------------------------------ Flate (stored blocks)
def flate_stored(blocks, fault, variant):
    """A zlib stream of stored blocks with the literal counts `blocks`, damaged as `fault` says.
    -> (data given to the reader, the literal bytes in order as (block, index, value))"""
    import struct
    import zlib
    pool = (0x00, 0x41, 0xFF, 0x0A, 0x78, 0x9C)
    lits = [[pool[(variant + 3 * b + j) % len(pool)] for j in range(n)] for b, n in enumerate(blocks)]
    kind, fa, fb_ = fault
    out = bytearray(b"\x78\x01")
    if kind == "header":
        if variant % 2:
            out[0] ^= 0x10          # (either byte: the check is made when both have arrived)
        else:
            out[1] ^= 0x03
    produced = []
    plain = bytearray()
    for b, vals in enumerate(lits):
        final = 1 if b == len(lits) - 1 else 0
        first = final | (0b110 if (kind == "btype" and fa == b + 1) else 0)
        ln = len(vals)
        nl = ln ^ 0xFFFF
        if kind == "nlen" and fa == b + 1:
            nl ^= (0x0100, 0x0001)[variant % 2]
        out.append(first)
        out += struct.pack("<HH", ln, nl)
        for j, v in enumerate(vals):
            plain.append(v)
            if kind == "lit" and fa == b + 1 and fb_ == j + 1:
                v ^= 0xFF
            out.append(v)
            produced.append((b + 1, j + 1, v))
    ad = bytearray(struct.pack(">I", zlib.adler32(bytes(plain))))
    if kind == "adler":
        ad[variant % 4] ^= 0x5A
    out += ad
    if kind == "trunc":
        out = out[:fa]
    return bytes(out), produced


def zlib_bytewise(data):
    """what zlib does when fed one byte at a time: ([bytes put out per input byte], index of the failing byte or -1)"""
    import zlib
    d = zlib.decompressobj()
    outs = []
    for i in range(len(data)):
        try:
            outs.append(d.decompress(data[i:i + 1]))
        except zlib.error:
            return outs, i
    return outs, -1


def inflate_longest_prefix(data):
    """reference for `the bytes inflate produced before the failure`, by another route than byte-wise feeding:
    the output of the longest prefix of data that a fresh decompressobj takes in one call without raising"""
    import zlib

    def run(p):
        try:
            return zlib.decompressobj().decompress(data[:p])
        except zlib.error:
            return None

    lo, hi = 0, len(data)
    if run(hi) is not None:
        return run(hi), -1
    while hi - lo > 1:           # run(lo) works, run(hi) raises; failure is monotone in the prefix length
        mid = (lo + hi) // 2
        if run(mid) is None:
            hi = mid
        else:
            lo = mid
    return run(lo), lo           # lo = 0-based index of the byte that makes it fail
