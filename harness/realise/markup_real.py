"""C11 extended coverage - HTMLConverter, HOCRConverter, TagExtractor: a Python transcription of the machines of
specs/conv/MarkupConverters.tla and specs/conv/TagExtract.tla (validated against TLC's own output before use), the
concretisation of their opaque tokens (positions, sizes and whole style values rendered here from the real objects with
plain arithmetic), realisers and independent readers of the real output.
"""
import io
import logging

logging.disable(logging.CRITICAL)

from ..tlc import MachineryError  # noqa: E402
from . import conv_real as C  # noqa: E402

from pdfminer.converter import HOCRConverter, HTMLConverter  # noqa: E402
from pdfminer.layout import LTAnno, LTChar, LTContainer, LTExpandableContainer, LTFigure, LTImage, LTPage, LTTextBox, LTTextLine  # noqa: E402
from pdfminer.pdfinterp import PDFResourceManager  # noqa: E402

LT, GT, AMP, QUOT, APOS, SLASH, EQ, SP, LF = C.LT, C.GT, C.AMP, C.QUOT, C.APOS, C.SLASH, C.EQ, C.SP, C.LF
H_HTML, H_HEAD, H_META, H_BODY, H_DIV, H_SPAN, H_A, H_BR, H_IMG, H_TITLE = range(70, 80)
B_STYLE, B_NAME, B_HREF, B_SRC, B_BORDER, B_WIDTH, B_HEIGHT, B_HTTPEQUIV, B_CONTENT, B_CLASS, B_ID, B_TITLE, B_XMLNS, B_XMLLANG, B_LANG, \
    B_CHARSET = range(80, 96)
(G_CONTENTTYPE, G_TEXTHTML, G_TEXTHTMLCS, G_FONTFAMILY, G_FONTSIZE, G_PX, G_PAGE, G_PAGES, G_COMMA, G_HASHMARK, G_OCRPAGE, G_OCRBLOCK,
 G_OCRLINE, G_OCRXWORD, G_HOCRHTMLATTRS, G_HOCRMETA1, G_HOCRMETA2, G_HOCRMETA3, G_HOCRCOMMENT1, G_HOCRCOMMENT2, G_FONTQ, G_QFONTSIZE,
 G_SEMISP, G_XFONT, G_XFSIZE) = range(1800000, 1800025)
WORDS = {70: "html", 71: "head", 72: "meta", 73: "body", 74: "div", 75: "span", 76: "a", 77: "br", 78: "img", 79: "title",
         80: "style", 81: "name", 82: "href", 83: "src", 84: "border", 85: "width", 86: "height", 87: "http-equiv", 88: "content",
         89: "class", 90: "id", 91: "title", 92: "xmlns", 93: "xml:lang", 94: "lang", 95: "charset",
         1800000: "Content-Type", 1800001: "text/html", 1800002: "text/html; charset=", 1800003: "font-family: ", 1800004: "; font-size:", 1800005: "px",
         1800006: "Page ", 1800007: "Page: ", 1800008: ", ", 1800009: "#", 1800010: "ocr_page", 1800011: "ocr_block", 1800012: "ocr_line", 1800013: "ocrx_word",
         1800014: "xmlns='http://www.w3.org/1999/xhtml' xml:lang='en' lang='en'",
         1800015: "http-equiv='Content-Type' content='text/html;charset=utf-8'", 1800016: "name='ocr-system' content='pdfminer.six HOCR Converter'",
         1800017: "name='ocr-capabilities' content='ocr_page ocr_block ocr_line ocrx_word'",
         1800018: "<!-- comment in the following line to debug -->", 1800019: "<!--script src='https://unpkg.com/hocrjs'></script-->",
         1800020: 'font:"', 1800021: '"; font-size:', 1800022: "; ", 1800023: "; x_font ", 1800024: "; x_fsize "}
H_RECT, H_DIVSTYLE, H_TOP, H_TEXTSTYLE, H_FONTPX, H_BBOX, H_WSIZE, H_WBBOX, H_WSTYLE = range(9)
HTML_DEVS = ["HtmlFontRaw", "HtmlSpanLeak"]
HOCR_DEVS = ["HocrTextRaw", "HocrFontRaw", "HocrWordLost", "HocrPending"]
MARKUP_DEVS = HTML_DEVS + HOCR_DEVS


def hnum(i, f):
    return [2000000 + 20 * i + f]


def hnum2(i, j, f):
    return [2000000 + 20 * (100 * i + j) + f] if i < 90 and j < 90 else [-(3000000000 + (i * 10000000 + j) * 20 + f)]


def qattr(n, v):
    return [SP, n, EQ, QUOT] + list(v) + [QUOT]


def aattr(n, v):
    return [SP, n, EQ, APOS] + list(v) + [APOS]


def open_tag(e, attrs=()):
    return [LT, e] + list(attrs) + [GT]


def end_tag(e):
    return [LT, SLASH, e, GT]


def after_last_plus(s):
    s = list(s)
    plus = [q for q, c in enumerate(s) if c == C.PLUS or c == 1000 + ord("+")]
    return s[plus[-1] + 1:] if plus else s


def is_space_ch(c):
    return c in (SP, LF) or (c >= 1000 and chr(c - 1000).isspace()) or c == C.FF


def strip(s):
    s = list(s)
    while s and is_space_ch(s[0]):
        s.pop(0)
    while s and is_space_ch(s[-1]):
        s.pop()
    return s


# ------------------------------------------------------------------------------------------------ the machines (MarkupConverters.tla)
def markup_chars(T, conv, mode, dev, showpageno=True):
    """the characters HTMLConverter / HOCRConverter write for the tree T (nodes as in conv_real; optional per-node keys
    'fk' = (font name, size) identity and 'wk' = hOCR word key; both default to the size class 'a')"""
    dev = set(dev)
    out = []
    N = len(T)
    fk = lambda j: T[j - 1].get("fk", T[j - 1]["a"] + 1)  # noqa: E731
    def wk(j):
        if "wk" in T[j - 1]:
            return T[j - 1]["wk"]
        par = max([q for q in range(1, j) if T[q - 1]["d"] == T[j - 1]["d"] - 1] or [0])
        return T[j - 1]["a"] + 100000 * par
    if conv == "html":
        out += [LT, H_HTML, GT, LT, H_HEAD, GT, LF] + open_tag(H_META, qattr(B_HTTPEQUIV, [G_CONTENTTYPE]) + qattr(B_CONTENT, [G_TEXTHTML])) + [LF]
        out += end_tag(H_HEAD) + [LT, H_BODY, GT, LF]
    else:
        out += (open_tag(H_HTML, [SP, G_HOCRHTMLATTRS]) + [LF] + open_tag(H_HEAD) + [LF] + open_tag(H_TITLE) + end_tag(H_TITLE) + [LF]
                + [LT, H_META, SP, G_HOCRMETA1, SP, SLASH, GT, LF] + [LT, H_META, SP, G_HOCRMETA2, SP, SLASH, GT, LF]
                + [SP, SP, LT, H_META, SP, G_HOCRMETA3, SLASH, GT, LF] + end_tag(H_HEAD) + [LF] + open_tag(H_BODY) + [LF])
    font = 0
    fstack = []
    npages = 0
    w = {"on": False, "text": [], "first": 0, "last": 0, "key": None}

    def place_rect(j):
        return open_tag(H_SPAN, qattr(B_STYLE, hnum(j, H_RECT))) + end_tag(H_SPAN) + [LF]

    def font_name(j):
        nm = after_last_plus(T[j - 1]["f"])
        return nm if "HtmlFontRaw" in dev else C.enc(nm)

    def hocr_font(j):
        return list(T[j - 1]["f"]) if "HocrFontRaw" in dev else C.enc(T[j - 1]["f"])

    def hocr_text(s):
        return list(s) if "HocrTextRaw" in dev else C.enc(s)

    def write_word(ww):
        if not ww["text"]:
            return []
        extra = hnum(ww["first"], H_WSTYLE) if T[ww["first"] - 1].get("wstyle") else []
        return (open_tag(H_SPAN, aattr(B_STYLE, [G_FONTQ] + hocr_font(ww["first"]) + [G_QFONTSIZE] + hnum(ww["first"], H_WSIZE) + [G_SEMISP] + extra)
                         + aattr(B_CLASS, [G_OCRXWORD])
                         + aattr(B_TITLE, hnum2(ww["first"], ww["last"], H_WBBOX) + [G_XFONT] + hocr_font(ww["first"]) + [G_XFSIZE]
                                 + hnum(ww["first"], H_WSIZE)))
                + hocr_text(strip(ww["text"])) + end_tag(H_SPAN))

    i = 1
    stack = []
    while True:
        descend = i <= N and (not stack or T[i - 1]["d"] > T[stack[-1] - 1]["d"])
        if descend:
            n = T[i - 1]
            k = n["k"]
            if conv == "html":
                if k == "page":
                    out += place_rect(i)
                    if showpageno:
                        out += (open_tag(H_DIV, qattr(B_STYLE, hnum(i, H_TOP))) + open_tag(H_A, qattr(B_NAME, C.num(i, C.F_ID))) + [G_PAGE]
                                + C.num(i, C.F_ID) + end_tag(H_A) + end_tag(H_DIV) + [LF])
                    stack.append(i)
                elif k in ("line", "rect", "curve"):
                    out += place_rect(i)
                elif k == "figure" or (k in C.TEXTBOXES and mode != "exact"):
                    out += open_tag(H_DIV, qattr(B_STYLE, hnum(i, H_DIVSTYLE)))
                    stack.append(i)
                    fstack.append(font)
                    font = 0
                elif k in C.TEXTBOXES or k == "textline":
                    stack.append(i)
                elif k == "char":
                    if mode == "exact":
                        out += open_tag(H_SPAN, qattr(B_STYLE, hnum(i, H_TEXTSTYLE))) + C.enc(n["s"]) + end_tag(H_SPAN) + [LF]
                    else:
                        if font != fk(i):
                            if font != 0:
                                out += end_tag(H_SPAN)
                            out += open_tag(H_SPAN, qattr(B_STYLE, [G_FONTFAMILY] + font_name(i) + [G_FONTSIZE] + hnum(i, H_FONTPX) + [G_PX]))
                            font = fk(i)
                        out += C.enc(n["s"])
                elif k == "anno":
                    if mode != "exact":
                        out += C.enc(n["s"])
                elif k == "layout":
                    i = C.sub_end(T, i)          # groups: place_border("textgroup") has no colour by default
                i += 1
            else:
                if w["on"] and k == "anno":
                    out += write_word(w)
                    w["on"] = False
                if k == "page":
                    out += open_tag(H_DIV, aattr(B_CLASS, [G_OCRPAGE]) + aattr(B_ID, C.num(i, C.F_ID)) + aattr(B_TITLE, hnum(i, H_BBOX))) + [LF]
                    stack.append(i)
                elif k in C.TEXTBOXES:
                    out += open_tag(H_DIV, aattr(B_CLASS, [G_OCRBLOCK]) + aattr(B_ID, C.num(i, C.F_ID)) + aattr(B_TITLE, hnum(i, H_BBOX))) + [LF]
                    stack.append(i)
                elif k == "textline":
                    out += open_tag(H_SPAN, aattr(B_CLASS, [G_OCRLINE]) + aattr(B_TITLE, hnum(i, H_BBOX)))
                    stack.append(i)
                elif k == "char":
                    s = list(n["s"])
                    if not w["on"]:
                        w = {"on": True, "text": s, "first": i, "last": i, "key": wk(i)}
                    elif all(is_space_ch(c) for c in s):
                        out += write_word(w) + hocr_text(s)
                        w["on"] = False
                    elif w["key"] != wk(i):
                        out += write_word(w)
                        if "HocrWordLost" in dev:
                            w = {"on": False, "text": w["text"] + s, "first": i, "last": i, "key": wk(i)}
                        else:
                            w = {"on": True, "text": s, "first": i, "last": i, "key": wk(i)}
                    else:
                        w["text"] = w["text"] + s
                        w["last"] = i
                elif k in ("figure", "layout"):
                    i = C.sub_end(T, i)
                i += 1
        elif stack:
            k = T[stack.pop() - 1]["k"]
            if conv == "html":
                if k == "page":
                    npages += 1
                    if font != 0 and "HtmlSpanLeak" not in dev:
                        out += end_tag(H_SPAN)
                        font = 0
                elif k == "figure" or (k in C.TEXTBOXES and mode != "exact"):
                    if font != 0:
                        out += end_tag(H_SPAN)
                    out += end_tag(H_DIV)
                    font = fstack.pop()
                elif k == "textline" and mode == "normal":
                    out += [LT, H_BR, GT]
            else:
                if k in ("page", "textline") and w["on"] and "HocrPending" not in dev:
                    out += write_word(w)
                    w["on"] = False
                if k == "page" or k in C.TEXTBOXES:
                    out += end_tag(H_DIV) + [LF]
                elif k == "textline":
                    out += end_tag(H_SPAN) + [LF]
        else:
            break
    if conv == "html":
        links = []
        for q in range(1, npages + 1):
            links += ([G_COMMA] if q > 1 else []) + open_tag(H_A, qattr(B_HREF, [G_HASHMARK, 1900000 + q])) + [1900000 + q] + end_tag(H_A)
        out += open_tag(H_DIV, qattr(B_STYLE, hnum(0, H_TOP))) + [G_PAGES] + links + end_tag(H_DIV) + [LF] + end_tag(H_BODY) + end_tag(H_HTML) + [LF]
    else:
        out += [G_HOCRCOMMENT1, LF, G_HOCRCOMMENT2] + end_tag(H_BODY) + end_tag(H_HTML) + [LF]
    return out


# ------------------------------------------------------------------------------------------------ concretisation
class MarkupConcrete(C.Concrete):
    def __init__(self, rep=0, nums=None, codec=None):
        super().__init__(rep, nums, codec)

    def ch(self, c):
        if c in WORDS:
            return WORDS[c]
        if 1900000 <= c < 2000000:
            return "%d" % (c - 1900000)
        if c >= 2000000 or c <= -3000000000:
            return self.nums[c]
        return super().ch(c)


def trunc(v):
    return "%d" % v


def render_nums(T, objs, conv, scale=1, fontscale=1.0, pagemargin=50):
    """the opaque renderings, computed from the real objects: {token: string}.  HTML: x*scale, (_yoffset - y)*scale with
    _yoffset = pagemargin + sum over earlier pages of (y1 + pagemargin) + this page's y1; hOCR: bbox relative to the page top."""
    nums = {}
    C_nums = {}
    for i, o in enumerate(objs, 1):
        if not isinstance(o, (list, LTAnno)):
            C.node_nums(i, o, C_nums)
    nums.update(C_nums)
    yoff = pagemargin
    page = None
    for i, (n, o) in enumerate(zip(T, objs), 1):
        k = n["k"]
        if k == "page":
            if page is not None:
                yoff += pagemargin
            yoff += o.y1
            page = o
        if conv == "html":
            def geom(o):
                return "left:%spx; top:%spx; width:%spx; height:%spx;" % (trunc(o.x0 * scale), trunc((yoff - o.y1) * scale),
                                                                          trunc(o.width * scale), trunc(o.height * scale))
            if k == "page":
                nums[hnum(i, H_RECT)[0]] = "position:absolute; border: gray 1px solid; " + geom(o)
                nums[hnum(i, H_TOP)[0]] = "position:absolute; top:%spx;" % trunc((yoff - o.y1) * scale)
            elif k in ("line", "rect", "curve"):
                nums[hnum(i, H_RECT)[0]] = "position:absolute; border: black 1px solid; " + geom(o)
            elif k == "figure":
                nums[hnum(i, H_DIVSTYLE)[0]] = "position:absolute; border: figure 1px solid; writing-mode:False; " + geom(o)
            elif k in C.TEXTBOXES:
                nums[hnum(i, H_DIVSTYLE)[0]] = "position:absolute; border: textbox 1px solid; writing-mode:%s; " % o.get_writing_mode() + geom(o)
            elif k == "char":
                px = trunc(o.size * scale * fontscale)
                nums[hnum(i, H_FONTPX)[0]] = px
                nums[hnum(i, H_TEXTSTYLE)[0]] = "position:absolute; color:black; left:%spx; top:%spx; font-size:%spx;" % (
                    trunc(o.x0 * scale), trunc((yoff - o.y1) * scale), px)
        else:
            def bbox(b):
                return "bbox %d %d %d %d" % (int(b[0]), int(page.bbox[3] - b[3]), int(b[2]), int(page.bbox[3] - b[1]))
            if k in ("page", "textline") or k in C.TEXTBOXES:
                nums[hnum(i, H_BBOX)[0]] = bbox(o.bbox)
            elif k == "char":
                nums[hnum(i, H_WSIZE)[0]] = "%d" % o.size
                st = ("font-style: italic; " if "Italic" in o.fontname else "") + ("font-weight: bold; " if "Bold" in o.fontname else "")
                if st:
                    nums[hnum(i, H_WSTYLE)[0]] = st
    nums[hnum(0, H_TOP)[0]] = "position:absolute; top:0px;"
    return nums


class WordBoxes(dict):
    """hOCR word boxes are keyed by (first glyph, last glyph): rendered on demand"""

    def __init__(self, base, T, objs):
        super().__init__(base)
        self.T, self.objs = T, objs
        self.page_of = {}
        page = None
        for i, (n, o) in enumerate(zip(T, objs), 1):
            if n["k"] == "page":
                page = o
            self.page_of[i] = page

    def __missing__(self, key):
        v = key - 2000000 if key >= 0 else -key - 3000000000
        f = v % 20
        ij = v // 20
        i, j = (ij // 100, ij % 100) if key >= 0 else (ij // 10000000, ij % 10000000)
        if f != H_WBBOX or not (0 < i <= len(self.objs)) or not (0 < j <= len(self.objs)):
            raise KeyError(key)
        a, b = self.objs[i - 1], self.objs[j - 1]
        page = self.page_of[i]
        bb = (a.bbox[0], a.bbox[1], b.bbox[2], a.bbox[3])
        return "bbox %d %d %d %d" % (int(bb[0]), int(page.bbox[3] - bb[3]), int(bb[2]), int(page.bbox[3] - bb[1]))


def with_keys(Tm, objs):
    """model tree of a real hierarchy + the identities the converters compare: (font name, size) and (baseline, font name, size)"""
    out = []
    for n, o in zip(Tm, objs):
        n = dict(n)
        if isinstance(o, LTChar):
            n["fk"] = (o.fontname, o.size)
            n["wk"] = (o.bbox[1], o.fontname, o.size)
            n["wstyle"] = ("Italic" in o.fontname) or ("Bold" in o.fontname)
        out.append(n)
    return out


# ------------------------------------------------------------------------------------------------ direct realisation
def build_direct(T, con):
    """as conv_real.build_direct, but glyph sizes follow the size class `a` and the glyphs of a line share their baseline"""
    pages, nums = C.build_direct(T, con, size_of=lambda n, i: 10 + 2 * n["a"], line_y=True, page_size=(240, 320))
    Tp, objs = C.project(pages)
    if [(n["k"], n["d"]) for n in Tp] != [(n["k"], n["d"]) for n in T]:
        raise MachineryError("realiser self-check: the tree built from LT objects does not project back onto the model tree")
    return pages, objs


def run_markup(pages, conv, mode="normal", sink="text", codec=None, scale=1, pagemargin=50):
    rm = PDFResourceManager()
    fp = io.StringIO() if sink == "text" else io.BytesIO()
    cod = None if sink == "text" else codec
    if conv == "html":
        dev = HTMLConverter(rm, fp, codec=cod, laparams=None, layoutmode=mode, scale=scale, pagemargin=pagemargin)
    else:
        dev = HOCRConverter(rm, fp, codec=cod, laparams=None)
    for p in pages:
        dev.pageno += 1          # PDFLayoutAnalyzer.end_page counts the page before handing it over
        dev.receive_layout(p)
    dev.close()
    return fp.getvalue()


# ------------------------------------------------------------------------------------------------ independent readers
VOIDS = {"meta", "br", "img"}
HTML_ATTRS = {"style", "name", "href", "src", "border", "width", "height", "http-equiv", "content"}


def read_html(text):
    """-> (problem or None, document text).  html.parser never fails, so the structure is checked here: start / end tags
    balance (void elements aside), every attribute is one the converter writes, no markup characters left in data."""
    from html.parser import HTMLParser
    stack, data, bad = [], [], []

    class P(HTMLParser):
        def handle_starttag(self, tag, attrs):
            for k, v in attrs:
                if k not in HTML_ATTRS:
                    bad.append("stray attribute %r in <%s>" % (k, tag))
            if tag not in VOIDS:
                stack.append(tag)

        def handle_startendtag(self, tag, attrs):
            self.handle_starttag(tag, attrs)
            if tag not in VOIDS:
                stack.pop()

        def handle_endtag(self, tag):
            if not stack or stack[-1] != tag:
                bad.append("</%s> closes %s" % (tag, stack[-1] if stack else "nothing"))
            else:
                stack.pop()

        def handle_data(self, d):
            data.append(d)
    p = P(convert_charrefs=True)
    p.feed(text)
    p.close()
    if stack:
        bad.append("unclosed <%s>" % stack[-1])
    return (bad[0] if bad else None), "".join(data)


def read_hocr(text):
    """hOCR is XHTML: expat must accept it.  -> (problem or None, text of the ocrx_word / ocr_line content, nesting problem)"""
    import xml.parsers.expat as X
    p = X.ParserCreate()
    stack, data, nest = [], [], []
    rank = {"ocr_page": 1, "ocr_block": 2, "ocr_line": 3, "ocrx_word": 4}

    def start(name, attrs):
        r = rank.get(attrs.get("class"), 0)
        if r > 1 and (r - 1) not in stack:
            nest.append("%s outside its container" % attrs.get("class"))
        stack.append(r)

    def end(name):
        stack.pop()

    def chars(d):
        if any(r >= 3 for r in stack) or 1 in stack:
            data.append(d)
    p.StartElementHandler, p.EndElementHandler, p.CharacterDataHandler = start, end, chars
    try:
        p.Parse(C.strip_control(text), True)
    except X.ExpatError as e:
        return "%s" % e, "".join(data), None
    return None, "".join(data), (nest[0] if nest else None)


def glyph_text(T, conv, mode):
    """the glyph text the converter is meant to carry (MarkupConverters.tla: Carries / GlyphText), as real characters"""
    out = []
    in_fig = []
    for i, n in enumerate(T, 1):
        in_fig = [e for e in in_fig if i <= e]
        if n["k"] == "figure":
            in_fig.append(C.sub_end(T, i))
        if conv == "html":
            if n["k"] == "char" or (n["k"] == "anno" and mode != "exact"):
                out.append(n["s"])
        elif n["k"] == "char" and not in_fig:
            out.append(n["s"])
    return "".join(out)


def hocr_domain(T):
    lines = []
    figs = []
    for i, n in enumerate(T, 1):
        lines = [e for e in lines if i <= e]
        figs = [e for e in figs if i <= e]
        if n["k"] == "textline":
            lines.append(C.sub_end(T, i))
        if n["k"] == "figure":
            figs.append(C.sub_end(T, i))
        if n["k"] == "char" and not figs and not lines:
            return False
    return True


def nospace(s):
    return "".join(c for c in s if not c.isspace())


# ------------------------------------------------------------------------------------------------ TagExtractor (TagExtract.tla)
TAG_DEVS = ["TagPointOpen", "TagPropRaw"]
TAG_WORDS = {H_DIV: "P", H_SPAN: "Span", H_A: "Artifact", B_ID: "MCID", B_LANG: "Lang", C.E_PAGE: "page", C.A_ID: "id", C.A_BBOX: "bbox",
             C.A_ROTATE: "rotate", 1900003: "3"}


def tag_chars(prog, dev):
    dev = set(dev)
    out = open_tag(C.E_PAGE, qattr(C.A_ID, C.num(0, C.F_ID)) + qattr(C.A_BBOX, C.num(0, C.F_BBOX)) + qattr(C.A_ROTATE, C.num(0, C.F_ROTATE)))
    stack = []

    def props(op):
        if op["o"] in ("BMC", "MP"):
            return []
        if not op["pv"]:
            return qattr(B_ID, [1900003])
        return qattr(B_LANG, list(op["pv"]) if "TagPropRaw" in dev else C.enc(op["pv"]))
    for op in prog:
        if op["o"] in ("BMC", "BDC"):
            out += open_tag(op["tag"], props(op))
            stack.append(op["tag"])
        elif op["o"] == "EMC":
            out += end_tag(stack.pop())
        elif op["o"] in ("MP", "DP"):
            out += open_tag(op["tag"], props(op)) if "TagPointOpen" in dev else [LT, op["tag"]] + props(op) + [SLASH, GT]
        else:
            out += C.enc(op["pv"])
    return out + end_tag(C.E_PAGE) + [LF]


class TagConcrete(C.Concrete):
    def ch(self, c):
        if c in TAG_WORDS:
            return TAG_WORDS[c]
        return super().ch(c)


def tag_doc(progs, con):
    """one page per program; Tj shows code 0x41 of a font whose ToUnicode sends it to the program's hostile string"""
    from .pdfwriter import Name, Ref, Revision, Stream, build, ser_string
    from .fontpdf import tounicode_cmap
    objs = {1: {"Type": Name("Catalog"), "Pages": Ref(2)}}
    nxt = 3
    kids = []
    for prog in progs:
        S = next((con.text(op["pv"]) for op in prog if op["o"] == "Tj"), "a")
        objs[nxt] = Stream({}, tounicode_cmap([("bfchar", [(0x41, S)])]))
        objs[nxt + 1] = {"Type": Name("Font"), "Subtype": Name("Type1"), "BaseFont": Name("Helvetica"), "ToUnicode": Ref(nxt)}
        body = []
        for op in prog:
            t = b"/" + TAG_WORDS[op["tag"]].encode() if op["tag"] else b""
            if op["o"] in ("BDC", "DP"):
                pl = b"<</MCID 3>>" if not op["pv"] else b"<</Lang " + ser_string(con.text(op["pv"]).encode("ascii")) + b">>"
                body.append(t + b" " + pl + b" " + op["o"].encode())
            elif op["o"] in ("BMC", "MP"):
                body.append(t + b" " + op["o"].encode())
            elif op["o"] == "EMC":
                body.append(b"EMC")
            else:
                body.append(b"BT /F1 10 Tf <41> Tj ET")
        objs[nxt + 2] = Stream({}, b"\n".join(body))
        objs[nxt + 3] = {"Type": Name("Page"), "Parent": Ref(2), "MediaBox": [0, 0, 200, 200], "Contents": Ref(nxt + 2),
                         "Resources": {"Font": {"F1": Ref(nxt + 1)}}}
        kids.append(Ref(nxt + 3))
        nxt += 4
    objs[2] = {"Type": Name("Pages"), "Kids": kids, "Count": len(kids)}
    return build([Revision(dict(sorted(objs.items())), root=Ref(1))])[0]


def run_tag(pdf):
    from pdfminer.high_level import extract_text_to_fp
    fp = io.BytesIO()
    extract_text_to_fp(io.BytesIO(pdf), fp, output_type="tag", codec="utf-8")
    return fp.getvalue().decode("utf-8")


def read_tag_page(text):
    """one <page>..</page> fragment through expat -> (problem or None, character data)"""
    import xml.parsers.expat as X
    p = X.ParserCreate()
    data = []
    p.CharacterDataHandler = data.append
    try:
        p.Parse(C.strip_control(text), True)
    except X.ExpatError as e:
        return "%s" % e, ""
    return None, "".join(data)
