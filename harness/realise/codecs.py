"""Reference encoders (the writer side of the stream filters) used by the C03 realisers.

Everything here is written from ISO 32000-1 7.4 / the PNG and TIFF specifications, independently of pdfminer's
decoders, and comes with an independent reference *decoder*; `self_check()` round-trips every encoder through
its reference decoder (and through the standard library where it has the codec).  A disagreement between two
references is a MachineryError - it says nothing about pdfminer."""
from __future__ import annotations

import base64
import binascii
import random
import zlib

from ..tlc import MachineryError

# ------------------------------------------------------------------------------------------------ LZW
CLEAR, EOD, FIRST = 256, 257, 258


def lzw_width(tlen, ec=1):
    """code width the decoder uses while its table holds tlen entries (/EarlyChange ec: 1 = one code early)"""
    return 9 if tlen < 512 - ec else 10 if tlen < 1024 - ec else 11 if tlen < 2048 - ec else 12


def lzw_pack(codes, ec=1):
    """codes: iterable of code values, written with the width schedule the *decoder* will be in
    (simulated here from the table length the decoder has when it reads each code)."""
    acc = 0
    nb = 0
    out = bytearray()
    n_since_clear = None      # None: before the first clear
    for c in codes:
        tlen = 258 if n_since_clear in (None, 0) else 258 + n_since_clear - 1
        w = 9 if n_since_clear is None else lzw_width(tlen, ec)
        acc = (acc << w) | c
        nb += w
        while nb >= 8:
            out.append((acc >> (nb - 8)) & 255)
            nb -= 8
        acc &= (1 << nb) - 1
        if c == CLEAR:
            n_since_clear = 0
        elif c == EOD:
            pass
        elif n_since_clear is not None:
            n_since_clear += 1
    if nb:
        out.append((acc << (8 - nb)) & 255)
    return bytes(out)


def lzw_codes(data, extra_clears=(), eod=True, clear_at=4096, defer=0):
    """greedy LZW: clear-table first, again when the next free code would be `clear_at` (4096: table full;
    real encoders also use 4094/4095), and before consuming input position p for p in extra_clears.
    defer > 0: when the table is full (4096) go on for `defer` codes from the frozen table before clearing
    (legal: the table simply stops growing); defer = None: never clear again."""
    codes = [CLEAR]
    table = {bytes([i]): i for i in range(256)}
    nxt = FIRST
    w = b""
    extra = set(extra_clears)
    left = -1                   # >= 0: table frozen, codes left before the deferred clear (None: forever)
    for i, b in enumerate(data):
        if i in extra and w:
            codes.append(table[w])
            codes.append(CLEAR)
            table = {bytes([k]): k for k in range(256)}
            nxt = FIRST
            w = b""
            left = -1
        wc = w + bytes([b])
        if wc in table:
            w = wc
        elif left != -1:
            codes.append(table[w])
            w = bytes([b])
            if left is not None:
                left -= 1
                if left == 0:
                    codes.append(CLEAR)
                    table = {bytes([k]): k for k in range(256)}
                    nxt = FIRST
                    left = -1
        else:
            codes.append(table[w])
            table[wc] = nxt
            nxt += 1
            w = bytes([b])
            if defer != 0 and nxt >= 4096:
                left = defer
            elif nxt >= clear_at:
                codes.append(CLEAR)
                table = {bytes([k]): k for k in range(256)}
                nxt = FIRST
    if w:
        codes.append(table[w])
    if eod:
        codes.append(EOD)
    return codes


def lzw_encode(data, extra_clears=(), eod=True, clear_at=4096, ec=1, defer=0):
    return lzw_pack(lzw_codes(data, extra_clears, eod, clear_at, defer), ec)


def lzw_ref_decode(enc, ec=1):
    """independent decoder (bit string based), stops at EOD, never grows the table beyond 4096 entries"""
    bits = "".join("{:08b}".format(b) for b in enc)
    p = 0
    table = None
    prev = None
    out = bytearray()
    w = 9
    while p + w <= len(bits):
        c = int(bits[p:p + w], 2)
        p += w
        if c == CLEAR:
            table = [bytes([i]) for i in range(256)] + [None, None]
            prev = None
            w = 9
            continue
        if c == EOD:
            break
        if table is None:
            raise ValueError("no clear code first")
        if prev is None:
            e = table[c]
        elif c < len(table):
            e = table[c]
            if len(table) < 4096:
                table.append(prev + e[:1])
        elif c == len(table) and len(table) < 4096:
            e = prev + prev[:1]
            table.append(e)
        else:
            raise ValueError("bad code")
        out += e
        prev = e
        w = lzw_width(len(table), ec)
    return bytes(out)


# ------------------------------------------------------------------------------------------------ RunLength
def rl_from_runs(runs, eod=True):
    """runs: list of ('lit', bytes 1..128) / ('rep', byte, n 2..128)"""
    out = bytearray()
    for r in runs:
        if r[0] == "lit":
            assert 1 <= len(r[1]) <= 128
            out.append(len(r[1]) - 1)
            out += r[1]
        else:
            assert 2 <= r[2] <= 128
            out.append(257 - r[2])
            out.append(r[1])
    if eod:
        out.append(128)
    return bytes(out)


def rl_runs(data, rng=None, maxrun=128):
    """a segmentation of data into runs: greedy when rng is None, otherwise a random legal one"""
    runs = []
    i = 0
    n = len(data)
    while i < n:
        j = i
        while j + 1 < n and data[j + 1] == data[i] and j + 1 - i < maxrun:
            j += 1
        rep = j - i + 1
        if rng is not None:
            if rep >= 2 and rng.random() < 0.6:
                k = rng.randint(2, rep)
                runs.append(("rep", data[i], k))
                i += k
            else:
                k = rng.randint(1, min(maxrun, n - i))
                runs.append(("lit", bytes(data[i:i + k])))
                i += k
            continue
        if rep >= 2:
            runs.append(("rep", data[i], rep))
            i += rep
        else:
            k = i
            while k < n and k - i < maxrun and not (k + 1 < n and data[k + 1] == data[k]):
                k += 1
            k = max(k, i + 1)
            runs.append(("lit", bytes(data[i:k])))
            i = k
    return runs


def rl_encode(data, rng=None, eod=True):
    return rl_from_runs(rl_runs(data, rng), eod)


def rl_ref_decode(enc):
    out = bytearray()
    i = 0
    while i < len(enc):
        L = enc[i]
        i += 1
        if L == 128:
            break
        if L < 128:
            out += enc[i:i + L + 1]
            i += L + 1
        else:
            out += bytes([enc[i]]) * (257 - L)
            i += 1
    return bytes(out)


# ------------------------------------------------------------------------------------------------ ASCIIHex / ASCII85
def ahx_encode(data, upper=True, eod=True, wrap=0):
    s = binascii.hexlify(data)
    if upper:
        s = s.upper()
    if wrap:
        s = b"\n".join(s[i:i + wrap] for i in range(0, len(s), wrap))
    return s + (b">" if eod else b"")


def a85_group_value(digits):
    """value of 2..5 base-85 digits (bytes 33..117), padded with 'u' as the standard says"""
    d = list(digits) + [117] * (5 - len(digits))
    v = 0
    for c in d:
        v = v * 85 + (c - 33)
    return v


def a85_words_to_bytes(words):
    """words: list of digit lists (5 digits = 4 bytes; k in 2..4 digits = k-1 bytes) - own arithmetic"""
    out = bytearray()
    for dg in words:
        v = a85_group_value(dg)
        if v >= 1 << 32:
            raise MachineryError("ASCII85 group out of range in the realiser: %r" % (dg,))
        b = v.to_bytes(4, "big")
        out += b if len(dg) == 5 else b[:len(dg) - 1]
    return bytes(out)


def a85_encode(data, prefix=False, wrap=0, eod=True):
    out = bytearray()
    for i in range(0, len(data), 4):
        chunk = data[i:i + 4]
        if len(chunk) == 4 and chunk == b"\0\0\0\0":
            out += b"z"
            continue
        v = int.from_bytes(chunk + b"\0" * (4 - len(chunk)), "big")
        dg = []
        for _ in range(5):
            dg.append(33 + v % 85)
            v //= 85
        dg.reverse()
        out += bytes(dg[:len(chunk) + 1])
    s = bytes(out)
    if wrap:
        s = b"\n".join(s[i:i + wrap] for i in range(0, len(s), wrap))
    return (b"<~" if prefix else b"") + s + (b"~>" if eod else b"")


# ------------------------------------------------------------------------------------------------ predictors
def row_length(colors, columns, bits):
    return (colors * columns * bits + 7) // 8


def bytes_per_pixel(colors, bits):
    return max(1, (colors * bits + 7) // 8)


def paeth(a, b, c):
    p = a + b - c
    pa, pb, pc = abs(p - a), abs(p - b), abs(p - c)
    if pa <= pb and pa <= pc:
        return a
    return b if pb <= pc else c


def _pred(ty, raw, prior, j, bpp):
    a = raw[j - bpp] if j >= bpp else 0
    b = prior[j]
    c = prior[j - bpp] if j >= bpp else 0
    return (0, a, b, (a + b) // 2, paeth(a, b, c))[ty]


def png_predict(data, colors, columns, bits, types):
    """data: whole rows; types: filter type per row (cycled)"""
    rl = row_length(colors, columns, bits)
    bpp = bytes_per_pixel(colors, bits)
    if len(data) % rl:
        raise MachineryError("png_predict: data is not a whole number of rows")
    out = bytearray()
    prior = bytes(rl)
    for r in range(len(data) // rl):
        raw = data[r * rl:(r + 1) * rl]
        ty = types[r % len(types)]
        out.append(ty)
        out += bytes((raw[j] - _pred(ty, raw, prior, j, bpp)) & 255 for j in range(rl))
        prior = raw
    return bytes(out)


def png_ref_unpredict(enc, colors, columns, bits):
    rl = row_length(colors, columns, bits)
    bpp = bytes_per_pixel(colors, bits)
    out = bytearray()
    prior = bytes(rl)
    for off in range(0, len(enc), rl + 1):
        ty = enc[off]
        line = enc[off + 1:off + 1 + rl]
        raw = bytearray()
        for j in range(len(line)):
            raw.append((line[j] + _pred(ty, raw, prior, j, bpp)) & 255)
        out += raw
        prior = bytes(raw)
    return bytes(out)


def tiff_predict(data, colors, columns):
    """TIFF predictor 2, 8 bits per component"""
    rl = colors * columns
    if len(data) % rl:
        raise MachineryError("tiff_predict: data is not a whole number of rows")
    out = bytearray()
    for r in range(len(data) // rl):
        raw = data[r * rl:(r + 1) * rl]
        out += bytes((raw[j] - raw[j - colors]) & 255 if j >= colors else raw[j] for j in range(rl))
    return bytes(out)


def tiff_ref_unpredict(enc, colors, columns):
    rl = colors * columns
    out = bytearray()
    for r in range(len(enc) // rl):
        line = enc[r * rl:(r + 1) * rl]
        raw = bytearray()
        for j in range(rl):
            raw.append((line[j] + raw[j - colors]) & 255 if j >= colors else line[j])
        out += raw
    return bytes(out)


# ------------------------------------------------------------------------------------------------ chains
def ccf_encode(data, columns):
    """CCITT Group 4 (/K -1) encoding of data taken as rows of `columns` pixels (columns a multiple of 8, so that
    rows have no pad bits); uses the T.6 writer of C19 (self-checked there against its own symbol decoder)"""
    from . import t6
    if columns % 8 or len(data) % (columns // 8):
        raise MachineryError("ccf_encode: %d bytes do not make rows of %d pixels" % (len(data), columns))
    h = len(data) // (columns // 8)
    rows = t6.unpack(data, columns, h, False)
    syms = t6.encode(rows, columns, lambda o: o[0])
    if t6.decode_syms(syms, columns) != [t6.changes(r) for r in rows]:
        raise MachineryError("T.6 writer self-check failed in ccf_encode")
    return t6.assemble([t6.bits_of_row(sy) for sy in syms], False)


import functools


@functools.lru_cache(maxsize=512)
def _lzw_cached(data, clear_half, ec):
    return lzw_encode(data, extra_clears=(len(data) // 2,) if clear_half else (), ec=ec)


def encode_layer(f, data, variant=0, ec=1, columns=8):
    """one codec layer; f in AHx A85 LZW Fl RL CCF; variant picks among legal spellings of the encoding"""
    if f == "Fl":
        return zlib.compress(data, (9, 1, 0)[variant % 3])
    if f == "CCF":
        return ccf_encode(data, columns)
    if f == "LZW":
        return _lzw_cached(bytes(data), bool(variant % 2 and len(data) > 2), ec)
    if f == "RL":
        return rl_encode(data, random.Random(variant) if variant % 2 else None)
    if f == "AHx":
        return ahx_encode(data, upper=variant % 2 == 0, wrap=(0, 7)[variant % 2])
    if f == "A85":
        return a85_encode(data, prefix=variant % 2 == 1, wrap=(0, 9)[variant % 2])
    raise MachineryError("unknown filter %r" % f)


_checked = False


def self_check():
    """round-trip every reference encoder through its reference decoder / the standard library"""
    global _checked
    if _checked:
        return
    rng = random.Random(20261003)
    samples = [b"", b"a", b"aaaa", b"abababababab", bytes(range(256)), b"\x80" * 300, b"\0" * 9,
               bytes(rng.choice(b"ab\x00\xff\x80") for _ in range(3000)),
               bytes(rng.randrange(256) for _ in range(7000)),
               bytes(rng.choice(b"ab") for _ in range(40000))]

    def need(cond, what):
        if not cond:
            raise MachineryError("reference encoder self-check failed: " + what)

    for d in samples:
        for xc in ((), (len(d) // 3,), (1, len(d) // 2)):
            for ca in (4096, 4094):
                need(lzw_ref_decode(lzw_encode(d, xc, True, ca)) == d, "LZW %d bytes" % len(d))
        need(lzw_ref_decode(lzw_encode(d, (), False)) == d, "LZW without EOD")
        need(lzw_ref_decode(lzw_encode(d, ec=0), ec=0) == d, "LZW EarlyChange 0")
        need(lzw_ref_decode(lzw_encode(d, defer=None)) == d, "LZW clear never repeated")
        need(lzw_ref_decode(lzw_encode(d, defer=700, ec=0), ec=0) == d, "LZW deferred clear, EarlyChange 0")
        need(lzw_ref_decode(lzw_encode(d) + b"\n\x00junk") == d, "LZW data after EOD")
        need(rl_ref_decode(rl_encode(d)) == d, "RunLength greedy")
        need(rl_ref_decode(rl_encode(d, random.Random(1))) == d, "RunLength random runs")
        need(rl_ref_decode(rl_encode(d, random.Random(2), eod=False)) == d, "RunLength no EOD")
        need(binascii.unhexlify(ahx_encode(d)[:-1]) == d, "ASCIIHex")
        need(base64.a85decode(a85_encode(d, True), adobe=True) == d, "ASCII85 vs stdlib decode")
        need(a85_encode(d)[:-2] == base64.a85encode(d), "ASCII85 vs stdlib encode")
        need(zlib.decompress(zlib.compress(d)) == d, "zlib")
    # width-switch boundaries: streams whose last code falls exactly on each table length 509..513 etc.
    base = bytes(rng.randrange(256) for _ in range(9000))
    for n in list(range(240, 270)) + list(range(750, 790)) + list(range(1770, 1830)) + list(range(3800, 3900, 7)):
        need(lzw_ref_decode(lzw_encode(base[:n])) == base[:n], "LZW boundary %d" % n)
        need(lzw_ref_decode(lzw_encode(base[:n], ec=0), ec=0) == base[:n], "LZW boundary %d EarlyChange 0" % n)
    need(a85_words_to_bytes([[60, 33, 33, 33, 62], [33] * 5, [60, 62]]) ==
         base64.a85decode(b"<!!!>!!!!!<>"), "ASCII85 group arithmetic")
    for (c, k, b) in [(1, 1, 8), (3, 2, 8), (2, 5, 8), (1, 10, 1), (3, 3, 1), (1, 3, 4), (2, 2, 16), (4, 7, 8)]:
        rl = row_length(c, k, b)
        for rows in (1, 2, 5):
            d = bytes(rng.choice((0, 1, 127, 128, 255, rng.randrange(256))) for _ in range(rl * rows))
            for types in ([0], [1], [2], [3], [4], [4, 3, 2, 1, 0], [2, 4]):
                need(png_ref_unpredict(png_predict(d, c, k, b, types), c, k, b) == d, "PNG predictor %r" % ((c, k, b),))
            if b == 8:
                need(tiff_ref_unpredict(tiff_predict(d, c, k), c, k) == d, "TIFF predictor")
    _checked = True
