"""Realiser for C15: documents that carry hostile names at every position the library uses to find files.

Segments of the model (specs/fs/FsConfine.tla) and their concrete spelling:
   H dec evil sub zz   plain words (H: a genuine character map of the package; dec/evil/sub exist in the scratch tree)
   sib     the look-alike sibling of the site's base directory: "res_evil" (next to res) at the CMap sites,
           "out_evil" (next to out) at the image site - its name starts with the base directory's name
   dd ..    d .    e (empty)    nul  "ev<NUL>il"    long  300 x "x"
An absolute name is spelled with the scratch root in front (so that everything stays inside the scratch tree).
"""
from __future__ import annotations

import zlib

from .pdfwriter import Name, Ref, Revision, Stream, build

SEG = {"lnk": "lnk",                      # a symbolic link inside the resource directory (res/lnk -> dec/pack)
       "res": "res", "cmap": "cmap",     # the basenames of the two resource directories (CMAP_PATH dir, <package>/cmap)
       "H": "H", "dec": "dec", "evil": "evil", "sub": "sub", "zz": "zz", "dd": "..", "d": ".", "e": "",
       "nul": "ev\0il", "long": "x" * 300,
       "ndd": ".\0.",          # a dot-dot split by a NUL: ".." once the NULs are removed
       "n0": "\0"}             # nothing but a NUL: in front of a "/" it hides an absolute name

# scratch tree shared by all CMap cases (relative to the scratch root)
SIB = {"cmap": "res_evil", "image": "out_evil"}
TREE_DIRS = ["res", "res/sub", "out", "out/sub", "dec", "dec/pack", "res_evil", "out_evil", "cmap"]
# symbolic links (link, target), both relative to the scratch root: a linked sub-directory inside the resource
# directory, and a link to the resource directory itself (CMAP_PATH may name it)
TREE_LINKS = [["res/lnk", "dec/pack"], ["reslnk", "res"]]
TREE_PICKLES = ["res/evil.pickle.gz", "res/sub/evil.pickle.gz", "dec/evil.pickle.gz", "dec/H.pickle.gz",
                "res_evil/evil.pickle.gz", "out_evil/evil.pickle.gz", "cmap/evil.pickle.gz", "dec/pack/evil.pickle.gz",
                "res/to-unicode-Adobe-evil.pickle.gz"]


# look-alike spellings: (separator, dot).  NFKC maps U+FF0F -> "/", U+FF0E and U+2024 -> ".", U+FF3C -> a backslash,
# U+2105 -> "c/o"; U+2215 and U+29F8 have no compatibility mapping; C0 AF is an overlong (invalid) UTF-8 spelling of "/"
LOOK = {"fw": ("\uff0f", "\uff0e"), "fwl": ("\uff0f", "\u2024"), "fwa": ("\uff0f", "."), "bs": ("\uff3c", "\uff0e"),
        "div": ("\u2215", "."), "big": ("\u29f8", "."), "lig": ("\u2105", "."), "over": (b"\xc0\xaf", ".")}


def spell_look(name, root, site):
    """a name whose separators / dots are look-alikes: one plain word as far as the file system is concerned.
    An absolute one carries the scratch root (spelled the same way), so that an implementation that turns the
    look-alikes into real separators still stays inside the sandbox.  -> str, or bytes for the overlong spelling"""
    sep, dot = LOOK[name["look"]]
    words = [dot * 2 if x == "dd" else dot if x == "d" else SIB[site] if x == "sib" else SEG[x] for x in name["segs"]]
    if name["abs"]:
        words = [""] + root.strip("/").split("/") + words
    elif len(words) >= 2 and words[0] == "":
        # an empty first segment: the spelling starts with the (look-alike) separator - absolute as well
        words = [""] + root.strip("/").split("/") + words[1:]
    if isinstance(sep, bytes):
        return sep.join(w.encode("utf-8") for w in words)
    return sep.join(words)


def seen_name(text):
    """the name as the library's literal_name() hands it on: UTF-8 decoded, or str(bytes) when that fails"""
    if isinstance(text, str):
        return text
    try:
        return text.decode("utf-8")
    except UnicodeDecodeError:
        return str(text)


def spell(name, root, site="cmap"):
    """model name {abs, segs, look} -> the string placed in the document (site: "cmap" or "image")"""
    if name.get("look", "ascii") != "ascii":
        return spell_look(name, root, site)
    s = "/".join(SIB[site] if x == "sib" else SEG[x] for x in name["segs"])
    if name["abs"]:
        return root.rstrip("/") + "/" + s
    if s.replace("\0", "").startswith("/"):
        # an empty (or NUL-only) first segment makes the name absolute (once the NULs are removed): keep it inside the
        # scratch tree by putting the scratch root between the leading NULs and the first separator
        k = s.index("/")
        return s[:k] + root.rstrip("/") + s[k:]
    return s


def sanitised(s):
    return s.replace("/", "_").replace("\\", "_").replace("\0", "_")


def font_for(site, text, objs, nxt):
    """adds the objects of one Type0 font carrying `text` at `site`; returns its Ref"""
    def new(v):
        n = nxt[0]
        nxt[0] += 1
        objs[n] = v
        return Ref(n)
    desc = new({"Type": Name("FontDescriptor"), "FontName": Name("VerifCID"), "Flags": 4, "FontBBox": [0, 0, 1000, 1000],
                "ItalicAngle": 0, "Ascent": 800, "Descent": -200, "CapHeight": 700, "StemV": 80})
    ordering = b"Identity"
    enc = Name("Identity-H")
    f = {"Type": Name("Font"), "Subtype": Name("Type0"), "BaseFont": Name("VerifCID")}
    from .pdfwriter import Raw, ser_name as _sn
    as_name = Name(text) if isinstance(text, str) else Raw(_sn(text))
    if site == "enc":
        enc = as_name
    elif site == "cmapname":
        enc = new(Stream({"Type": Name("CMap"), "CMapName": as_name}, b"%!PS-Adobe-3.0 Resource-CMap\n"))
    elif site == "usecmap":
        from .pdfwriter import ser_name
        f["ToUnicode"] = new(Stream({}, b"/CIDInit /ProcSet findresource begin 12 dict begin begincmap\n"
                                    + ser_name(text) + b" usecmap\nendcmap end end\n"))
    elif site == "regord":
        ordering = text if isinstance(text, bytes) else text.encode("latin-1" if all(ord(ch) < 256 for ch in text) else "utf-8")
    cid = new({"Type": Name("Font"), "Subtype": Name("CIDFontType2"), "BaseFont": Name("VerifCID"),
               "CIDSystemInfo": {"Registry": b"Adobe", "Ordering": ordering, "Supplement": 0},
               "FontDescriptor": desc, "DW": 1000})
    f["Encoding"] = enc
    f["DescendantFonts"] = [cid]
    return new(f)


def cmap_doc(site, texts):
    """one page using one font per text, each carrying the text at `site`"""
    objs = {}
    nxt = [10]
    fonts = {}
    content = [b"BT"]
    for i, t in enumerate(texts):
        fonts["F%d" % i] = font_for(site, t, objs, nxt)
        content.append(b"/F%d 12 Tf 10 %d Td (\\000A) Tj" % (i, 10))
    content.append(b"ET")
    objs[4] = Stream({}, b" ".join(content))
    objs[3] = {"Type": Name("Page"), "Parent": Ref(2), "MediaBox": [0, 0, 612, 792], "Resources": {"Font": fonts},
               "Contents": Ref(4)}
    objs[2] = {"Type": Name("Pages"), "Kids": [Ref(3)], "Count": 1}
    objs[1] = {"Type": Name("Catalog"), "Pages": Ref(2)}
    data, _ = build([Revision(dict(sorted(objs.items())), root=Ref(1))])
    return data


# how the image dictionary fills the entries that reach the file name (ExtKinds of FsConfine.tla):
#   ext kind -> (entries of the image dictionary, text of the extension the bitmap / raw route builds when the entries are sane)
IMAGE_VARIANTS = {
    "bmp": ({"Width": 4, "Height": 4, "BitsPerComponent": 8, "ColorSpace": Name("DeviceGray"), "Filter": Name("FlateDecode")}, ".bmp"),
    "raw": ({"Width": 1, "Height": 1, "BitsPerComponent": 4, "ColorSpace": Name("DeviceGray")}, ".4.1x1.img"),
    "neg": ({"Width": -1, "Height": 1, "BitsPerComponent": -4, "ColorSpace": Name("DeviceGray")}, ".-4.-1x1.img"),
    "csill": ({"Width": 1, "Height": 1, "BitsPerComponent": 8, "ColorSpace": b"a/../b"}, ".8.1x1.img"),
    "filterill": ({"Width": 1, "Height": 1, "BitsPerComponent": 8, "ColorSpace": Name("DeviceGray"), "Filter": Name("../x/y")}, ".bmp"),
    "illclean": ({"Width": 1, "Height": 1, "BitsPerComponent": [1, 2], "ColorSpace": Name("DeviceGray")}, None),
    "lead1": ({"Width": 1, "Height": 1, "BitsPerComponent": Name("pwned"), "ColorSpace": Name("DeviceGray")}, None),
    "mid1": ({"Width": 1, "Height": 1, "BitsPerComponent": b"a/../b", "ColorSpace": Name("DeviceGray")}, None),
    "leadW": ({"Width": Name("pwned"), "Height": [Name("x")], "BitsPerComponent": 4, "ColorSpace": Name("DeviceGray")}, None),
}
INLINE_KEYS = {"Width": "W", "Height": "H", "BitsPerComponent": "BPC", "ColorSpace": "CS", "Filter": "F"}


def image_doc(text, draws, pages=1, ext="bmp", src="xobj"):
    """a page that paints the image XObject registered under the name `text` `draws` times (src "inline": an inline
    image with the same dictionary entries instead; its name is not the document's).  ext: see IMAGE_VARIANTS"""
    from .pdfwriter import ser, ser_name
    entries, _ = IMAGE_VARIANTS[ext]
    pix = bytes(range(16)) if ext == "bmp" else b"\x5a"
    attrs = {"Type": Name("XObject"), "Subtype": Name("Image")}
    attrs.update(entries)
    img = Stream(attrs, zlib.compress(pix) if entries.get("Filter") == "FlateDecode" else pix)
    if src.startswith("inline"):
        d = b" ".join(ser_name(INLINE_KEYS[k]) + b" " + ser(v) for k, v in entries.items() if not (k == "Filter" and v == "FlateDecode"))
        do = b"q 100 0 0 100 50 50 cm BI " + d + b" ID " + pix[:1] + b" EI Q "
    else:
        do = b"q 100 0 0 100 50 50 cm " + ser_name(text) + b" Do Q "
    objs = {1: {"Type": Name("Catalog"), "Pages": Ref(2)}, 5: img}
    kids = []
    n = 10
    xobjs = {text: Ref(5)}
    per_page = draws
    if src == "inlinepages":
        pages, per_page = draws, 1                     # one inline image on each page: every one is "inline0"
    elif src == "inlineform":
        per_page = 1                                   # one on the page, the next ones in a form XObject the page invokes
        if draws > 1:
            objs[6] = Stream({"Type": Name("XObject"), "Subtype": Name("Form"), "BBox": [0, 0, 612, 792]}, do * (draws - 1))
            xobjs = {"VerifForm": Ref(6)}
    for _ in range(pages):
        objs[n] = Stream({}, do * per_page + (b" /VerifForm Do " if src == "inlineform" and draws > 1 else b""))
        objs[n + 1] = {"Type": Name("Page"), "Parent": Ref(2), "MediaBox": [0, 0, 612, 792],
                       "Resources": {"XObject": xobjs}, "Contents": Ref(n)}
        kids.append(Ref(n + 1))
        n += 2
    objs[2] = {"Type": Name("Pages"), "Kids": kids, "Count": len(kids)}
    data, _ = build([Revision(dict(sorted(objs.items())), root=Ref(1))])
    return data, pix
