"""ITU-T T.6 (Group 4) writer used by C19.

Two layers:
  * bits_of_row(syms): mode symbols (as the specification G4.tla prints them) -> bits, with the writer's OWN code
    tables: the constants of specs/ccitt/T4Codes.tla (checked before use: check_reference).  pdfminer's tries are an
    object of the check: table_diffs() compares them with the reference;
  * encode(rows, w, choose): a T.6 encoder written from the recommendation (a0/a1/a2/b1/b2 on changing elements),
    with a pluggable mode choice; before use it is self-checked against decode_syms(), an independent symbol-level
    decoder that works on changing-element lists.  TLC re-validates its symbols again (G4Trace.tla walks the writer
    relation of the specification over the original rows).
A disagreement between the two references is a MachineryError, never a violation.
"""
from fractions import Fraction

from ..tlc import MachineryError

MK, MKMAX = 64, 2560

import os
import re

from ..tlc import SPECS

try:
    from pdfminer.ccitt import CCITTG4Parser
    _MODE, _WHITE, _BLACK = CCITTG4Parser.MODE, CCITTG4Parser.WHITE, CCITTG4Parser.BLACK
except (ImportError, AttributeError) as e:
    raise MachineryError("C19 anchors missing in pdfminer.ccitt: %r" % (e,))

T4_MODULE = os.path.join(SPECS, "ccitt", "T4Codes.tla")

# T.4 / T.6 code words that can be vouched for independently of any table (cross-check of the reference module)
ANCHORS = {
    "mode": {0: "1", 1: "011", -1: "010", "h": "001", "p": "0001", 2: "000011", -2: "000010", 3: "0000011", -3: "0000010",
             "e": "000000000001000000000001"},
    "white": {0: "00110101", 1: "000111", 2: "0111", 3: "1000", 4: "1011", 20: "0001000", 40: "00101001", 63: "00110100",
              64: "11011", 1792: "00000001000", 2496: "000000011110", 2560: "000000011111"},
    "black": {0: "0000110111", 1: "010", 2: "11", 3: "10", 4: "011", 17: "0000011000", 20: "00001101000", 40: "000001101100",
              64: "0000001111", 1792: "00000001000", 2496: "000000011110", 2560: "000000011111"},
}
_tables = None


def _parse_reference():
    """the writer's own code tables: the constants of specs/ccitt/T4Codes.tla"""
    try:
        text = open(T4_MODULE).read()
    except OSError as e:
        raise MachineryError("reference code tables missing: %r" % (e,))

    def entries(name):
        m = re.search(r"^%s == <<(.*?)>>\s*$" % name, text, re.S | re.M)
        if not m:
            raise MachineryError("T4Codes.tla: definition %s not found" % name)
        return [(int(v), w) for v, w in re.findall(r'<<\s*(-?\d+)\s*,\s*"([01]+)"\s*>>', m.group(1))]

    def word(name):
        m = re.search(r'^%s == "([01]+)"' % name, text, re.M)
        if not m:
            raise MachineryError("T4Codes.tla: definition %s not found" % name)
        return m.group(1)

    ext = entries("ExtendedMakeUp")
    t = {"white": dict(entries("WhiteRuns") + ext), "black": dict(entries("BlackRuns") + ext),
         "mode": dict(entries("VerticalModes"))}
    t["mode"].update({"p": word("PassMode"), "h": word("HorizontalMode"), "e": word("EOFB")})
    return t


def tables():
    """-> dict(mode=, white=, black=) value -> code word: the REFERENCE tables the writer uses (never pdfminer's)"""
    global _tables
    if _tables is None:
        t = _parse_reference()
        check_reference(t)
        _tables = t
    return _tables


def holes(words):
    """the minimal bit prefixes under which a prefix code has no word"""
    words = set(words)
    out = []

    def rec(p):
        if p in words:
            return
        if not any(w.startswith(p) for w in words):
            out.append(p)
            return
        rec(p + "0")
        rec(p + "1")
    rec("")
    return out


def check_reference(t):
    """properties of the harness's own reference; any failure here is a failure of the machinery"""
    for name, tab in t.items():
        words = sorted(tab.values())
        if len(set(words)) != len(words):
            raise MachineryError("reference %s table: two values share a code word" % name)
        for a, b in zip(words, words[1:]):
            if b.startswith(a):
                raise MachineryError("reference %s table is not prefix-free: %s / %s" % (name, a, b))
        for v, w in ANCHORS[name].items():
            if tab.get(v) != w:
                raise MachineryError("reference %s table: code word of %r is %r, T.4/T.6 says %r" % (name, v, tab.get(v), w))
    for name in ("white", "black"):
        if sorted(t[name]) != list(range(0, 64)) + list(range(64, MKMAX + 1, 64)):
            raise MachineryError("reference %s table does not hold exactly the run values 0..63 and 64,128..2560" % name)
        if sum(Fraction(1, 2 ** len(w)) for w in t[name].values()) != Fraction(255, 256) or holes(t[name].values()) != ["00000000"]:
            raise MachineryError("reference %s table is not complete up to the EOL prefix 00000000" % name)
    for v in range(1792, MKMAX + 1, 64):
        if t["white"][v] != t["black"][v]:
            raise MachineryError("reference: extended make-up code %d differs between the colours" % v)
    if sorted(k for k in t["mode"] if isinstance(k, int)) != [-3, -2, -1, 0, 1, 2, 3]:
        raise MachineryError("reference mode table: vertical offsets")


def invert(trie):
    """pdfminer's trie -> {value: [code words]} (several words for one value are kept: that is a finding, not a crash)"""
    out = {}

    def walk(node, pre):
        if not isinstance(node, list) or len(node) != 2:
            raise MachineryError("code trie node is not a two-element list")
        for b in (0, 1):
            v = node[b]
            if isinstance(v, list):
                walk(v, pre + str(b))
            elif v is not None:
                out.setdefault(v, []).append(pre + str(b))
    walk(trie, "")
    return out


def table_diffs():
    """pdfminer's MODE/WHITE/BLACK tries against the reference -> [(table, kind, value, reference word, real words)]
    kind: missing-code | wrong-code | extra-code.  Mode-table entries the property does not use (uncompressed mode and
    the reserved extensions) are not compared."""
    ref = tables()
    real = {"mode": invert(_MODE), "white": invert(_WHITE), "black": invert(_BLACK)}
    out = []
    for name in ("mode", "white", "black"):
        for v, w in sorted(ref[name].items(), key=lambda kv: str(kv[0])):
            got = real[name].get(v, [])
            if not got:
                out.append((name, "missing-code", v, w, []))
            elif got != [w]:
                out.append((name, "wrong-code", v, w, got))
        if name != "mode":
            for v, got in real[name].items():
                if v not in ref[name]:
                    out.append((name, "extra-code", v, None, got))
    return out


def run_codes(n):
    """T.4 4.1.1 / T.6 2.2.4: make-up codes then exactly one terminating code (G4Ops.RunCodes)"""
    out = []
    while n >= MKMAX + MK:
        out.append(MKMAX)
        n -= MKMAX
    if n >= MK:
        out.append(n // MK * MK)
        n %= MK
    out.append(n)
    return out


def bits_of_row(syms):
    """symbols of one row (['p'] | ['v', d] | ['h', codes1, codes2]) -> bit string; colour is tracked as T.6 says"""
    t = tables()
    color = 1
    out = []
    for s in syms:
        if s[0] == "p":
            out.append(t["mode"]["p"])
        elif s[0] == "v":
            out.append(t["mode"][s[1]])
            color = 1 - color
        else:
            out.append(t["mode"]["h"])
            first, second = ("white", "black") if color == 1 else ("black", "white")
            out.extend(t[first][c] for c in s[1])
            out.extend(t[second][c] for c in s[2])
    return "".join(out)


def assemble(row_bits, align, eofb=True, eofb_aligned=True):
    """rows' bit strings -> bytes.  align: 0 bits after each row up to the byte boundary (EncodedByteAlign)."""
    bits = ""
    for i, rb in enumerate(row_bits):
        bits += rb
        if align and len(bits) % 8 and (eofb_aligned or i + 1 < len(row_bits)):
            bits += "0" * (8 - len(bits) % 8)
    if eofb:
        bits += tables()["mode"]["e"]
    if len(bits) % 8:
        bits += "0" * (8 - len(bits) % 8)
    return bytes(int(bits[i:i + 8], 2) for i in range(0, len(bits), 8))


def changes(row):
    """ascending changing positions of a pixel row (1 = white; the pixel before the row is white)"""
    out = []
    prev = 1
    for x, b in enumerate(row):
        if b != prev:
            out.append(x)
            prev = b
    return out


def row_of(ch, w):
    row = []
    col = 1
    nxt = 0
    for x in range(w):
        if nxt < len(ch) and ch[nxt] == x:
            col = 1 - col
            nxt += 1
        row.append(col)
    return row


def _first_after(ch, a0, parity=None):
    """index of the first changing element > a0 (with index parity `parity`: 0 -> turns black), else None"""
    import bisect
    i = bisect.bisect_right(ch, a0)
    if parity is not None and i < len(ch) and i % 2 != parity:
        i += 1
    return i if i < len(ch) else None


def options(refch, curch, a0, color, w):
    """the writer relation of T.6 (G4Ops.Admissible): list of (sym, new a0, new color)"""
    i = _first_after(curch, a0)
    a1 = curch[i] if i is not None else w
    a2 = curch[i + 1] if i is not None and i + 1 < len(curch) else w
    # b1: first changing element of the reference line right of a0 whose colour is opposite to `color`
    j = _first_after(refch, a0, parity=0 if color == 1 else 1)
    b1 = refch[j] if j is not None else w
    b2 = refch[j + 1] if j is not None and j + 1 < len(refch) else w
    out = []
    if b2 < a1:
        out.append((["p"], b2, color))
    if -3 <= a1 - b1 <= 3:
        out.append((["v", a1 - b1], a1, 1 - color))
    out.append((["h", run_codes(a1 - max(a0, 0)), run_codes(a2 - a1)], a2, color))
    return out


def encode(rows, w, choose):
    """rows: pixel lists (1 = white).  choose(options) -> one of them.  -> list of symbol lists, one per row"""
    ref = []
    out = []
    for row in rows:
        cur = changes(row)
        a0, color = -1, 1
        syms = []
        while a0 < w:
            sym, a0, color = choose(options(ref, cur, a0, color, w))
            syms.append(sym)
        out.append(syms)
        ref = cur
    return out


def decode_syms(rows_syms, w):
    """independent symbol-level decoder on changing-element lists (for the encoder's self-check)"""
    ref = []
    out = []
    for syms in rows_syms:
        cur = []
        a0, color = -1, 1

        def put(x, turns_to):       # record a changing element at x if the colour really changes there
            if x < w and (len(cur) % 2 == 0) == (turns_to == 0):
                cur.append(x)
        for s in syms:
            j = _first_after(ref, a0, parity=0 if color == 1 else 1)
            b1 = ref[j] if j is not None else w
            b2 = ref[j + 1] if j is not None and j + 1 < len(ref) else w
            if s[0] == "p":
                a0 = b2
            elif s[0] == "v":
                a1 = b1 + s[1]
                put(a1, 1 - color)
                a0, color = a1, 1 - color
            else:
                a1 = max(a0, 0) + sum(s[1])
                a2 = a1 + sum(s[2])
                put(a1, 1 - color)
                put(a2, color)
                a0 = a2
        if a0 != w:
            raise MachineryError("T.6 writer self-check: a row does not end at the width")
        out.append(cur)
        ref = cur
    return out


def pack(rows, w, blackis1):
    """PDF sample rows: bit 1 = white unless BlackIs1; rows padded with 0 bits to a byte boundary"""
    out = bytearray()
    for r in rows:
        v = 0
        n = 0
        for b in r:
            v = (v << 1) | ((1 - b) if blackis1 else b)
            n += 1
            if n == 8:
                out.append(v)
                v = n = 0
        if n:
            out.append(v << (8 - n))
    return bytes(out)


def unpack(data, w, h, blackis1):
    """-> pixel rows (pad bits ignored) or None when the length is wrong"""
    stride = (w + 7) // 8
    if len(data) != stride * h:
        return None
    rows = []
    for y in range(h):
        chunk = data[y * stride:(y + 1) * stride]
        bits = []
        for x in range(w):
            bit = (chunk[x // 8] >> (7 - x % 8)) & 1
            bits.append((1 - bit) if blackis1 else bit)
        rows.append(bits)
    return rows


STRATEGIES = {
    "canon": lambda rng: (lambda o: o[0]),                                   # T.6 figure 7: pass, else vertical, else horizontal
    "rand": lambda rng: (lambda o: rng.choice(o)),
    "honly": lambda rng: (lambda o: o[-1]),                                  # horizontal mode only
    "nopass": lambda rng: (lambda o: o[1] if o[0][0][0] == "p" and len(o) > 1 else o[0]),
    "vpref": lambda rng: (lambda o: next((x for x in o if x[0][0] == "v"), o[0])),
}


def self_check(rng):
    tables()
    for w in (1, 2, 7, 8, 9, 63, 64, 65, 130, 2700):
        for _ in range(6):
            rows = [[1 if rng.random() < rng.choice([0.1, 0.5, 0.9]) else 0 for _ in range(w)] for _ in range(3)]
            for name, mk in STRATEGIES.items():
                syms = encode(rows, w, mk(rng))
                if decode_syms(syms, w) != [changes(r) for r in rows]:
                    raise MachineryError("T.6 writer self-check failed (strategy %s, width %d)" % (name, w))
    for n in (0, 1, 63, 64, 65, 2559, 2560, 2561, 2623, 2624, 5119, 5120, 5200, 7745):
        c = run_codes(n)
        if sum(c) != n or c[-1] >= MK or any(x < MK or x % MK or x > MKMAX for x in c[:-1]):
            raise MachineryError("run_codes(%d) = %r" % (n, c))
