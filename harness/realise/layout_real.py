"""Layout realiser and projection for C08 / C09.

Model side: a terminal record printed by specs/layout/Layout.tla
    {page: [{k, bb, t}], p: {lo, cm, wm, lm, bf, dv, at}, wh, out: [...], groups, nb, colpage}
Real side: the same arrangement as LTChar-like objects added to an LTPage / LTFigure (direct route) or as a generated
PDF (one Tm per glyph) read back by extract_pages / extract_text (PDF route), at a scale 2^k.

Coordinates: model units are 1/8 pt; at scale s a model coordinate u becomes u * s / 8 pt.  Only dyadic values are
used, so every number is exact in binary64 and comparisons against thresholds are exact.

project() maps an analysed container to the model's `out` shape:
    ("box", o, idx, bb, (("H"|"V", items, bb), ...)) | ("empty", (o, items, bb)) | ("item", page_position)
items: glyph id (rank among the text objects, 1-based), 0 = LTAnno(" "), -1 = LTAnno("\\n").
"""
from __future__ import annotations

import builtins
import io
import logging
from fractions import Fraction

logging.disable(logging.CRITICAL)

from pdfminer import layout as L  # noqa: E402
from pdfminer.layout import (  # noqa: E402
    LAParams, LTAnno, LTChar, LTFigure, LTPage, LTRect, LTTextBox, LTTextBoxVertical, LTTextGroup, LTTextGroupTBRL,
    LTTextLine, LTTextLineVertical,
)

from ..tlc import MachineryError  # noqa: E402
from .pdfwriter import Name, Ref, Stream, simple_doc  # noqa: E402

UNIT = 8  # model units per point


# ------------------------------------------------------------------------------------------------ parameters
def ratio(r):
    return None if r[1] == 0 else Fraction(r[0], r[1])


def la_of(p):
    """LAParams of a model parameter record (ratios -> floats; every ratio used is exact or the library default)."""
    bf = ratio(p["bf"])
    return LAParams(line_overlap=float(ratio(p["lo"])), char_margin=float(ratio(p["cm"])),
                    word_margin=float(ratio(p["wm"])), line_margin=float(ratio(p["lm"])),
                    boxes_flow=None if bf is None else float(bf), detect_vertical=bool(p["dv"]),
                    all_texts=bool(p["at"]))


def pkey(p):
    return tuple((k, tuple(v) if isinstance(v, list) else v) for k, v in sorted(p.items()))


# ------------------------------------------------------------------------------------------------ direct route
class StubFont:
    fontname = "VerifSquare"

    def is_vertical(self):
        return False

    def get_descent(self):
        return 0


_FONT = StubFont()
_SPACES = [" ", "\t", "\u3000", "\xa0", "\n", "\r"]
# text variants of the direct route: the model's classes are "c" (visible), "s" (white space), "e" (empty string); their
# representatives vary - 0: one letter / the white-space characters in turn; 1: several characters / every blank a line
# feed (a glyph whose text is "\n", e.g. by ToUnicode); 2: a ligature-like pair / every blank a carriage return
VARIANTS = (0, 1, 2)
PDF_LF = b"~"          # the code the generated font maps to U+000A by its ToUnicode CMap


def glyph_text(t, gid, pdf=False, variant=0):
    if t == "c":
        ch = chr(ord("a") + (gid - 1) % 26)
        if pdf or variant == 0:
            return ch
        return (ch + "b" + ch) if variant == 1 else ("f" + ch)
    if t == "s":
        if pdf:
            return "\n" if gid % 2 else " "
        return _SPACES[(gid - 1) % len(_SPACES)] if variant == 0 else "\n" if variant == 1 else "\r"
    return ""


def pt(u, scale):
    """model coordinate -> points at the given scale (exact)."""
    v = Fraction(u) * Fraction(scale) / UNIT
    f = float(v)
    if Fraction(f) != v:
        raise MachineryError("coordinate %s at scale %s is not exact in binary64" % (u, scale))
    return f


def make_char(bb, text, scale):
    x0, y0, x1, y1 = (pt(c, scale) for c in bb)
    ch = LTChar((x1 - x0, 0, 0, y1 - y0, x0, y0), _FONT, 1, 1, 0, text, 1, 0, None, None)
    if tuple(ch.bbox) != (x0, y0, x1, y1):
        raise MachineryError("realiser self-check: LTChar bbox %r is not the intended %r" % (ch.bbox, (x0, y0, x1, y1)))
    return ch


def page_bbox(scale, S=512):
    return (0, 0, pt(S, scale), pt(S, scale))


def build_direct(rec, scale, S=512, variant=0):
    """-> (root LTPage, analysed container, chars in content order, all items in page order)"""
    items = []
    chars = []
    for it in rec["page"]:
        if it["k"] == "c":
            ch = make_char(it["bb"], glyph_text(it["t"], len(chars) + 1, variant=variant), scale)
            chars.append(ch)
            items.append(ch)
        else:
            items.append(LTRect(1, tuple(pt(c, scale) for c in it["bb"])))
    root = LTPage(1, page_bbox(scale, S))
    if rec["wh"] == "figure":
        fig = LTFigure("Fm1", (0, 0, pt(S, scale), pt(S, scale)), (1, 0, 0, 1, 0, 0))
        for o in items:
            fig.add(o)
        root.add(fig)
        cont = fig
    else:
        for o in items:
            root.add(o)
        cont = root
    return root, cont, chars, items


class reversed_ids:
    """run the analysis with the id() tie-break of group_textboxes reversed (another allocation order)"""

    def __enter__(self):
        L.id = lambda o: -builtins.id(o)

    def __exit__(self, *a):
        del L.id


# LAParams values the specification's 32-bit ratios cannot carry, and the ratio that stands for them: on a page of
# integer unit coordinates every margin beyond the page behaves like <<1000, 1>> and every positive margin below one
# unit like <<1, 1024>> (all comparisons are between integers and the margin times a glyph size of at most 24 units)
HUGE = (1000, 1)
TINY = (1, 1024)
ALIASES = {HUGE: [1e12, 1e15, float("inf")], TINY: [1e-9, 2.0 ** -40]}
FIELDS = {"lm": "line_margin", "cm": "char_margin", "wm": "word_margin"}


def la_aliases(p):
    """[(field, value)]: extreme-but-valid values that must give the outcome of this record's LAParams"""
    out = []
    for f in FIELDS:
        for v in ALIASES.get(tuple(p[f]), ()):
            out.append((f, v))
    return out


def analyze_direct(rec, scale, rev=False, S=512, alias=None, variant=0):
    root, cont, chars, items = build_direct(rec, scale, S, variant)
    la = la_of(rec["p"])
    if alias is not None:
        setattr(la, FIELDS[alias[0]], alias[1])
    if rev:
        with reversed_ids():
            root.analyze(la)
    else:
        root.analyze(la)
    return cont, chars, items, la


# ------------------------------------------------------------------------------------------------ projection
def unscale(v, scale):
    f = Fraction(v) * UNIT / Fraction(scale)
    return int(f) if f.denominator == 1 else f


def bb_units(o, scale, dx=0):
    b = tuple(unscale(c, scale) for c in o.bbox)
    return (b[0] + dx, b[1], b[2] + dx, b[3]) if dx else b


def line_items(line, gid):
    out = []
    for o in line:
        if isinstance(o, LTAnno):
            t = o.get_text()
            out.append(0 if t == " " else -1 if t == "\n" else ("anno", t))
        else:
            out.append(gid.get(builtins.id(o), ("unknown", repr(o))))
    return tuple(out)


def proj_line(line, gid, scale):
    return ("V" if isinstance(line, LTTextLineVertical) else "H", line_items(line, gid), bb_units(line, scale))


def project(cont, chars, items, scale):
    gid = {builtins.id(c): i + 1 for i, c in enumerate(chars)}
    pos = {builtins.id(o): i + 1 for i, o in enumerate(items)}
    out = []
    for o in cont:
        if isinstance(o, LTTextBox):
            out.append(("box", "V" if isinstance(o, LTTextBoxVertical) else "H", o.index, bb_units(o, scale),
                        tuple(proj_line(ln, gid, scale) for ln in o)))
        elif isinstance(o, LTTextLine):
            out.append(("empty", proj_line(o, gid, scale)))
        else:
            out.append(("item", pos.get(builtins.id(o), ("unknown", repr(o)))))
    return tuple(out)


def proj_groups(cont, scale, dx=0):
    """the group hierarchy: nested ("LRTB"|"TBRL", bb, (child, child)) / ("b", index)"""
    def one(g):
        if isinstance(g, LTTextGroup):
            return ("TBRL" if isinstance(g, LTTextGroupTBRL) else "LRTB", bb_units(g, scale, dx), tuple(one(c) for c in g))
        return ("b", g.index)
    return tuple(one(g) for g in (cont.groups or ()))


def model_out(rec, ascoded_none_index=False):
    """the model's `out` in the projection shape.  ascoded_none_index: the as-coded variant of the named deviation
    NoIndexFlowNone (no index assigned when boxes_flow is None)."""
    none = rec["p"]["bf"][1] == 0
    out = []
    for e in rec["out"]:
        v = e["v"]
        if e["k"] == "box":
            idx = -1 if (ascoded_none_index and none) else v["idx"]
            out.append(("box", v["o"], idx, tuple(v["bb"]),
                        tuple((ln["o"], tuple(ln["it"]), tuple(ln["bb"])) for ln in v["ls"])))
        elif e["k"] == "empty":
            out.append(("empty", (v["o"], tuple(v["it"]), tuple(v["bb"]))))
        else:
            out.append(("item", v))
    return tuple(out)


def model_groups(rec):
    def one(g):
        if "b" in g:
            return ("b", g["b"])
        return (g["kd"], tuple(g["bb"]), tuple(one(c) for c in g["ch"]))
    return tuple(one(g) for g in rec["groups"])


def rec_key(rec):
    return (tuple((it["k"], tuple(it["bb"]), it["t"]) for it in rec["page"]), pkey(rec["p"]), rec["wh"])


# ------------------------------------------------------------------------------------------------ PDF route
TOUNICODE = (b"/CIDInit /ProcSet findresource begin 12 dict begin begincmap /CMapName /VerifSquare-UCS def /CMapType 2 def\n"
             b"1 begincodespacerange <00> <FF> endcodespacerange\n1 beginbfchar <7E> <000A> endbfchar\n"
             b"endcmap CMapName currentdict /CMap defineresource pop end end\n")
TOUNICODE_OBJ = 900


def square_font():
    """a simple font whose every glyph is the unit square: width 1000, descent 0 (bbox = Tm applied to (0,0,1,1));
    its ToUnicode CMap sends the code of "~" to U+000A (a glyph whose text is a line feed)"""
    return {"ToUnicode": Ref(TOUNICODE_OBJ), "Type": Name("Font"), "Subtype": Name("Type1"), "BaseFont": Name("VerifSquare"),
            "FirstChar": 32, "LastChar": 126, "Widths": [1000] * 95, "Encoding": Name("WinAnsiEncoding"),
            "FontDescriptor": {"Type": Name("FontDescriptor"), "FontName": Name("VerifSquare"), "Flags": 32,
                               "FontBBox": [0, 0, 1000, 1000], "ItalicAngle": 0, "Ascent": 1000, "Descent": 0,
                               "CapHeight": 1000, "StemV": 80}}


def num(v):
    f = Fraction(v)
    if f.denominator == 1:
        return b"%d" % f.numerator
    s = repr(float(f))
    if "e" in s:
        s = "%.12f" % float(f)
    return s.encode()


def pdf_realisable(rec):
    return rec["wh"] == "page" and all(it["t"] != "e" or it["k"] != "c" for it in rec["page"])


# ---- page environments: /Rotate and a media box that is not square.  The page as it is seen (after the rotation) is
# ENV_W x ENV_H units; the arrangement is moved ENV_DX units to the left so that it fits the narrow page and reaches
# beyond the short side (y up to 400 > 320): a page box taken from the unrotated media box would leave it outside.
ENV_DX = 200
ENV_W, ENV_H = 320, 1024
ENV_ROTATIONS = (0, 90, 180, 270)


def env_eligible(head):
    return head["wh"] == "page" and all(ENV_DX <= it["bb"][0] and it["bb"][2] <= 512 and 0 <= it["bb"][1] and it["bb"][3] <= 512
                                        for it in head["page"])


def env_page(rotate, scale):
    """-> (MediaBox, ctm of PDFPageInterpreter.process_page, page box as seen)"""
    w, h = pt(ENV_W, scale), pt(ENV_H, scale)
    mb = (0, 0, h, w) if rotate in (90, 270) else (0, 0, w, h)
    (x0, y0, x1, y1) = mb
    ctm = {90: (0, -1, 1, 0, -y0, x1), 180: (-1, 0, 0, -1, x1, y1), 270: (0, 1, -1, 0, y1, -x0)}.get(rotate, (1, 0, 0, 1, -x0, -y0))
    return mb, ctm, (0, 0, w, h)


def mat_mult(m1, m0):
    (a1, b1, c1, d1, e1, f1) = m1
    (a0, b0, c0, d0, e0, f0) = m0
    return (a0 * a1 + c0 * b1, b0 * a1 + d0 * b1, a0 * c1 + c0 * d1, b0 * c1 + d0 * d1,
            a0 * e1 + c0 * f1 + e0, b0 * e1 + d0 * f1 + f0)


def mat_inv(m):
    (a, b, c, d, e, f) = (Fraction(v) for v in m)
    det = a * d - b * c
    ia, ib, ic, id_ = d / det, -b / det, -c / det, a / det
    return (ia, ib, ic, id_, -(e * ia + f * ic), -(e * ib + f * id_))


def content_of(rec, scale, env=None):
    if env is not None:
        return content_env(rec, scale, env)
    out = [b"BT /F1 1 Tf"]
    g = 0
    intext = True
    for it in rec["page"]:
        x0, y0, x1, y1 = (pt(c, scale) for c in it["bb"])
        if it["k"] == "c":
            g += 1
            if not intext:
                out.append(b"BT /F1 1 Tf")
                intext = True
            t = glyph_text(it["t"], g, pdf=True).encode("ascii").replace(b"\n", PDF_LF)
            out.append(b"%s 0 0 %s %s %s Tm (%s) Tj" % (num(x1 - x0), num(y1 - y0), num(x0), num(y0), t))
        else:
            if intext:
                out.append(b"ET")
                intext = False
            out.append(b"%s %s %s %s re f" % (num(x0), num(y0), num(x1 - x0), num(y1 - y0)))
    if intext:
        out.append(b"ET")
    return b"\n".join(out) + b"\n"


def content_env(rec, scale, rotate):
    """the arrangement on a turned page: every text matrix is the wanted device matrix times the inverse of the page's
    ctm, so that after the rotation the glyph boxes are the arrangement's (moved ENV_DX to the left)"""
    _, ctm, _ = env_page(rotate, scale)
    inv = mat_inv(ctm)
    out = [b"BT /F1 1 Tf"]
    g = 0
    for it in rec["page"]:
        x0, y0, x1, y1 = (Fraction(pt(c, scale)) for c in it["bb"])
        x0 -= Fraction(pt(ENV_DX, scale))
        x1 -= Fraction(pt(ENV_DX, scale))
        if it["k"] != "c":
            raise MachineryError("page environments are for text-only arrangements")
        g += 1
        t = glyph_text(it["t"], g, pdf=True).encode("ascii").replace(b"\n", PDF_LF)
        tm = mat_mult((x1 - x0, 0, 0, y1 - y0, x0, y0), inv)
        if mat_mult(tm, tuple(Fraction(v) for v in ctm)) != (x1 - x0, 0, 0, y1 - y0, x0, y0):
            raise MachineryError("realiser self-check: text matrix times ctm is not the wanted glyph matrix")
        out.append(b"%s %s %s %s %s %s Tm (%s) Tj" % (tuple(num(v) for v in tm) + (t,)))
    out.append(b"ET")
    return b"\n".join(out) + b"\n"


def pdf_of(recs, scale, S=512, env=None):
    """one document, one page per arrangement (env: /Rotate value of a page environment)"""
    mb = (0, 0, pt(S, scale), pt(S, scale)) if env is None else env_page(env, scale)[0]
    data, _ = simple_doc([content_of(r, scale, env) for r in recs], fonts={"F1": square_font()}, mediabox=mb,
                         page_extra=None if env is None else {"Rotate": env},
                         extra_objects={TOUNICODE_OBJ: Stream({}, TOUNICODE)})
    return data


def match_chars(ltpage_objs, rec, scale, dx=0):
    """identify the LTChar objects of a PDF-derived page with the model's glyph ids (by text and bbox, in order)"""
    want = []
    g = 0
    for it in rec["page"]:
        if it["k"] == "c":
            g += 1
            b = it["bb"]
            want.append((glyph_text(it["t"], g, pdf=True), tuple(pt(c, scale) for c in (b[0] - dx, b[1], b[2] - dx, b[3]))))
    return want


def project_pdf_page(ltpage, rec, scale, dx=0, chars_out=None):
    """projection of an extract_pages page; glyphs are identified by (text, bbox), other items by their order.
    dx: the page shows the arrangement moved dx units to the left; chars_out: list that receives (glyph id, LTChar)"""
    want = match_chars(ltpage, rec, scale, dx)
    free = {}
    for i, w in enumerate(want):
        free.setdefault(w, []).append(i + 1)
    gid = {}

    def take(ch):
        k = (ch.get_text(), tuple(ch.bbox))
        lst = free.get(k)
        if not lst:
            return ("unknown", repr(ch))
        if chars_out is not None:
            chars_out.append((lst[0], ch))
        return lst.pop(0)

    others = [i + 1 for i, it in enumerate(rec["page"]) if it["k"] != "c"]
    out = []

    def pl(line):
        items = []
        for o in line:
            if isinstance(o, LTAnno):
                t = o.get_text()
                items.append(0 if t == " " else -1 if t == "\n" else ("anno", t))
            else:
                items.append(take(o))
        return ("V" if isinstance(line, LTTextLineVertical) else "H", tuple(items), bb_units(line, scale, dx))

    for o in ltpage:
        if isinstance(o, LTTextBox):
            out.append(("box", "V" if isinstance(o, LTTextBoxVertical) else "H", o.index, bb_units(o, scale, dx),
                        tuple(pl(ln) for ln in o)))
        elif isinstance(o, LTTextLine):
            out.append(("empty", pl(o)))
        elif isinstance(o, LTChar):
            out.append(("item", "char"))
        else:
            out.append(("item", others.pop(0) if others else ("unknown", repr(o))))
    return tuple(out)


def expected_text(out, rec):
    """what TextConverter writes for a page with this `out` (box: its text and a newline; other lines: their text)"""
    g = 0
    txt = {}
    for it in rec["page"]:
        if it["k"] == "c":
            g += 1
            txt[g] = glyph_text(it["t"], g, pdf=True)

    def lt(items):
        return "".join(" " if x == 0 else "\n" if x == -1 else txt.get(x, "?") for x in items)
    s = ""
    for e in out:
        if e[0] == "box":
            s += "".join(lt(ln[1]) for ln in e[4]) + "\n"
        elif e[0] == "empty":
            s += lt(e[1][1])
    return s + "\f"


def pdf_pages(data, la):
    from pdfminer.high_level import extract_pages
    return list(extract_pages(io.BytesIO(data), laparams=la))


def pdf_text(data, la):
    from pdfminer.high_level import extract_text
    return extract_text(io.BytesIO(data), laparams=la)
