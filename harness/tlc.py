"""TLC runner: runs a spec+cfg, parses TLC's own statistics, coverage and error output."""
from __future__ import annotations

import json
import os
import re
import shutil
import subprocess
import sys
import tempfile
import time

VERIF = os.path.dirname(os.path.dirname(os.path.abspath(__file__)))
SPECS = os.path.join(VERIF, "specs")
JAR = "/opt/veriftools/tla/tla2tools.jar"
DEPS = "/opt/veriftools/tla/CommunityModules-deps.jar"


class MachineryError(Exception):
    """The verification machinery itself failed (exit 2) - says nothing about the property."""


class TLCResult:
    def __init__(self):
        self.generated = 0
        self.distinct = 0
        self.depth = 0
        self.ok = False          # finished with no error
        self.violated = None     # name of violated invariant/property, or "deadlock"/"assert"
        self.error_text = ""
        self.error_trace = []    # list of (header, {var: rawtext})
        self.stdout = ""
        self.actions = {}        # action name -> (distinct, generated)  (coverage runs)
        self.wall = 0.0
        self.cmd = ""
        self.emitted = 0         # number of "@@" lines (PrintT("@@" \\o ToJson(..))) written to `emit`

    def __repr__(self):
        return "TLCResult(ok=%s gen=%d distinct=%d depth=%d violated=%r wall=%.1f)" % (
            self.ok, self.generated, self.distinct, self.depth, self.violated, self.wall)


_STAT = re.compile(r"(\d+) states generated, (\d+) distinct states found, (\d+) states left on queue")
_DEPTH = re.compile(r"The depth of the complete state graph search is (\d+)")
_COV = re.compile(r"^<(\w+) line \d+, col \d+ to line \d+, col \d+ of module (\w+)(?: \([\d ]+\))?>: (\d+):(\d+)")
_VIOL = [
    (re.compile(r"Error: Invariant (\S+) is violated"), None),
    (re.compile(r"Error: Action property (\S+) is violated"), None),
    (re.compile(r"Error: Temporal properties were violated"), "temporal"),
    (re.compile(r"Error: Deadlock reached"), "deadlock"),
    (re.compile(r"Error: The first argument of Assert evaluated to FALSE"), "assert"),
    (re.compile(r"Error: Postcondition (?:\S+ )?(?:is|was) (?:violated|false)", re.I), "postcondition"),
]


def scratch_root():
    d = os.environ.get("VERIF_TMP")
    if d:
        os.makedirs(d, exist_ok=True)
        return d
    return tempfile.gettempdir()


TOOL_RETRIES = 0        # how often a TLC run had to be repeated in this process (reported in evidence)


def run_tlc(module_path, cfg_path=None, **kw):
    """run TLC (see _run_tlc_once).  A failure of the tool itself - an error that is not a property violation, an
    abnormal exit - is retried once with fresh scratch directories: seen once in several hundred runs on a machine
    under very heavy load, never reproducible.  A deterministic failure (a specification error) fails twice and is
    raised as before; a property violation is never retried."""
    global TOOL_RETRIES
    try:
        return _run_tlc_once(module_path, cfg_path, **kw)
    except MachineryError as e:
        msg = str(e)
        if kw.get("metadir") is None and (msg.startswith("TLC error (not a property violation)") or msg.startswith("TLC exit")):
            TOOL_RETRIES += 1
            lines = msg.splitlines()
            sys.stderr.write("NOTE: TLC failed without a verdict, retrying once: %s\n" % (lines[1][:200] if len(lines) > 1 else lines[0][:200]))
            if kw.get("emit") and os.path.exists(kw["emit"]):
                os.remove(kw["emit"])
            return _run_tlc_once(module_path, cfg_path, **kw)
        raise


def _run_tlc_once(module_path, cfg_path=None, *, workers="auto", dump=None, simulate=None, depth=None,
                  coverage=False, seed=None, timeout=3600, env=None, extra=(), dfs=False, heap=None,
                  allow_violation=True, metadir=None, lib=None, emit=None):
    """Run TLC.  module_path: /verif/specs/x/M.tla ; cfg_path default M.cfg next to it.
    dump: path prefix -> writes <prefix>.dump ; simulate: dict(num=, file=) -> -simulate.
    Raises MachineryError when TLC fails for a reason other than a property violation."""
    module_path = os.path.abspath(module_path)
    sdir = os.path.dirname(module_path)
    mod = os.path.splitext(os.path.basename(module_path))[0]
    if cfg_path is None:
        cfg_path = os.path.join(sdir, mod + ".cfg")
    cfg_path = os.path.abspath(cfg_path)
    own_meta = metadir is None
    if own_meta:
        metadir = tempfile.mkdtemp(prefix="tlcmeta_", dir=scratch_root())
    libs = [os.path.join(SPECS, d) for d in sorted(os.listdir(SPECS))
            if os.path.isdir(os.path.join(SPECS, d))] + ([lib] if lib else [])
    jopts = ["-XX:+UseParallelGC", "-DTLA-Library=" + os.pathsep.join(libs)]
    # explicit heap: the JVM default (a quarter of RAM per process) invites the OOM killer when several TLC runs overlap;
    # TLC keeps its fingerprint set and state queue on disk, so a moderate heap suffices
    jopts.append("-Xmx" + (heap or os.environ.get("VERIF_TLC_HEAP", "6g")))
    # recursive operators over sequences of a hundred elements and more (a 130-byte name in MC_PSObj) need more than the
    # default thread stack while the JVM still interprets the evaluator: a StackOverflowError that came and went with
    # the load of the machine was traced to this
    if not any(o.startswith("-Xss") for o in jopts):
        jopts.append("-Xss" + os.environ.get("VERIF_TLC_STACK", "64m"))
    if dfs:
        jopts.append("-Dtlc2.tool.queue.IStateQueue=StateDeque")
    cmd = ["java"] + jopts + ["-cp", JAR + ":" + DEPS, "tlc2.TLC",
                              "-metadir", metadir, "-noGenerateSpecTE", "-config", cfg_path]
    if workers == "auto":
        workers = str(min(16, os.cpu_count() or 4))
    cmd += ["-workers", str(workers)]
    if coverage:
        cmd += ["-coverage", "1"]
    if dump:
        cmd += ["-dump", dump]
    if simulate:
        spec = ",".join("%s=%s" % kv for kv in simulate.items())
        cmd += ["-simulate", spec]
    if depth:
        cmd += ["-depth", str(depth)]
    if seed is not None:
        cmd += ["-seed", str(seed)]
    cmd += list(extra)
    cmd += [mod]
    e = dict(os.environ)
    e.pop("JAVA_TOOL_OPTIONS", None)
    if env:
        e.update(env)
    r = TLCResult()
    r.cmd = " ".join(cmd)
    t0 = time.time()
    emit_f = open(emit, "w") if emit else None
    keep = []
    timed_out = False
    try:
        p = subprocess.Popen(cmd, cwd=sdir, env=e, stdout=subprocess.PIPE, stderr=subprocess.STDOUT,
                             text=True, errors="replace", bufsize=1 << 16)
        import threading
        timer = threading.Timer(timeout, p.kill)
        timer.start()
        try:
            for line in p.stdout:
                if line.startswith('"@@'):
                    r.emitted += 1
                    if emit_f:
                        emit_f.write(json.loads(line)[2:])
                        emit_f.write("\n")
                else:
                    keep.append(line)
            rc = p.wait()
        finally:
            if not timer.is_alive():
                timed_out = True
            timer.cancel()
        out = "".join(keep)
        if timed_out and not simulate:
            raise MachineryError("TLC timed out after %ss: %s" % (timeout, r.cmd))
    finally:
        if emit_f:
            emit_f.close()
        if own_meta:
            shutil.rmtree(metadir, ignore_errors=True)
    r.wall = time.time() - t0
    r.stdout = out
    for m in _STAT.finditer(out):
        r.generated, r.distinct = int(m.group(1)), int(m.group(2))
    m = _DEPTH.search(out)
    if m:
        r.depth = int(m.group(1))
    for line in out.splitlines():
        m = _COV.match(line)
        if m and m.group(1) not in ("Init",):
            name = m.group(1)
            d, g = int(m.group(3)), int(m.group(4))
            od, og = r.actions.get(name, (0, 0))
            r.actions[name] = (od + d, og + g)
    if "Error:" in out:
        for rx, nm in _VIOL:
            m = rx.search(out)
            if m:
                r.violated = nm or m.group(1)
                break
        i = out.index("Error:")
        r.error_text = out[i:i + 6000]
        if r.violated is None:
            raise MachineryError("TLC error (not a property violation):\n" + r.error_text[:3000] + "\ncmd: " + r.cmd)
        r.error_trace = _parse_error_trace(out[i:])
        if not allow_violation:
            raise MachineryError("TLC reported a violation of %s on the specification itself:\n%s"
                                 % (r.violated, r.error_text[:3000]))
    else:
        if rc not in (0,) and not simulate:
            raise MachineryError("TLC exit %s:\n%s\ncmd: %s" % (rc, out[-3000:], r.cmd))
        r.ok = True
    return r


def _parse_error_trace(text):
    states = []
    cur = None
    hdr = None
    last = None
    for line in text.splitlines():
        if line.startswith("State "):
            if cur is not None:
                states.append((hdr, cur))
            hdr = line
            cur = {}
            last = None
        elif cur is not None:
            if line.startswith("/\\ ") and " = " in line:
                k, v = line[3:].split(" = ", 1)
                cur[k] = v
                last = k
            elif not line.strip():
                continue
            elif line.startswith("Error:") or "states generated" in line or line.startswith("The "):
                break
            elif last is not None:
                cur[last] += " " + line.strip()
            elif " = " in line:
                k, v = line.split(" = ", 1)
                cur[k.strip()] = v
                last = k.strip()
    if cur is not None:
        states.append((hdr, cur))
    return states


def require_coverage(res, actions, min_count=1):
    """Vacuity guard: every named action must have been taken at least min_count times."""
    missing = [a for a in actions if res.actions.get(a, (0, 0))[1] < min_count]
    if missing:
        raise MachineryError("vacuous run: action(s) never taken: %s (cmd: %s)" % (", ".join(missing), res.cmd))


def sany(module_path):
    sdir = os.path.dirname(os.path.abspath(module_path))
    libs = [os.path.join(SPECS, d) for d in sorted(os.listdir(SPECS)) if os.path.isdir(os.path.join(SPECS, d))]
    cmd = ["java", "-DTLA-Library=" + os.pathsep.join(libs), "-cp", JAR + ":" + DEPS,
           "tla2sany.SANY", os.path.basename(module_path)]
    p = subprocess.run(cmd, cwd=sdir, stdout=subprocess.PIPE, stderr=subprocess.STDOUT, text=True)
    ok = p.returncode == 0 and "*** Errors" not in p.stdout and "Fatal" not in p.stdout and "Could not" not in p.stdout
    return ok, p.stdout


def write_cfg(path, *, constants=None, init="Init", next="Next", spec=None, invariants=(), properties=(),
              constraints=(), action_constraints=(), view=None, postcondition=None, deadlock=False,
              symmetry=None):
    lines = []
    if constants:
        lines.append("CONSTANTS")
        for k, v in constants.items():
            if isinstance(v, str) and v.startswith("<-"):
                lines.append("  %s %s" % (k, v))
            else:
                lines.append("  %s = %s" % (k, v))
    if spec:
        lines.append("SPECIFICATION " + spec)
    else:
        lines.append("INIT " + init)
        lines.append("NEXT " + next)
    for i in invariants:
        lines.append("INVARIANT " + i)
    for p in properties:
        lines.append("PROPERTY " + p)
    for c in constraints:
        lines.append("CONSTRAINT " + c)
    for c in action_constraints:
        lines.append("ACTION_CONSTRAINT " + c)
    if view:
        lines.append("VIEW " + view)
    if symmetry:
        lines.append("SYMMETRY " + symmetry)
    if postcondition:
        lines.append("POSTCONDITION " + postcondition)
    lines.append("CHECK_DEADLOCK " + ("TRUE" if deadlock else "FALSE"))
    with open(path, "w") as f:
        f.write("\n".join(lines) + "\n")
    return path
