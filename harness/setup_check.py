"""SANY-parse every specification module (in parallel)."""
import glob
import os
import sys
from concurrent.futures import ThreadPoolExecutor

from .tlc import SPECS, sany

mods = sorted(glob.glob(os.path.join(SPECS, "*", "*.tla")))


def one(m):
    ok, out = sany(m)
    return m, ok, out


bad = 0
with ThreadPoolExecutor(8) as ex:
    for m, ok, out in ex.map(one, mods):
        if not ok:
            bad += 1
            print("SANY FAILED:", m)
            print(out[-1500:])
print("setup: %d modules parsed, %d failed" % (len(mods), bad))
sys.exit(1 if bad else 0)
