"""Merge manifest.d/*.json (one fragment per claimed property) into MANIFEST.json."""
import glob
import json
import os

V = os.path.dirname(os.path.dirname(os.path.abspath(__file__)))
props = [json.loads(l) for l in open(os.path.join(V, "properties.jsonl"))]
ids = [p["id"] for p in props]
checks = []
claimed = set()
# only checks the integrator has reviewed and run are registered (manifest.d/approved.json)
approved = set(json.load(open(os.path.join(V, "manifest.d", "approved.json"))))
for f in sorted(glob.glob(os.path.join(V, "manifest.d", "C*.json"))):
    fr = json.load(open(f))
    pid = fr["property_id"]
    if pid not in approved:
        continue
    claimed.add(pid)
    c = {
        "property_id": pid,
        "quick_cmd": "bin/check %s --tier quick" % pid,
        "thorough_cmd": "bin/check %s --tier thorough" % pid,
        "evidence_file": "/verif/evidence/%s.json" % pid,
        "replay_cmd_template": "bin/check %s --replay {path}" % pid,
        "engine": "tlc",
    }
    c.update(fr)
    checks.append(c)
na_file = os.path.join(V, "manifest.d", "not_applicable.json")
na_reason = json.load(open(na_file)) if os.path.exists(na_file) else {}
na = [{"property_id": i, "reason": na_reason.get(i, "check not built yet in this round (planned: see DESIGN.md section 4); nothing is claimed for it")}
      for i in ids if i not in claimed]
m = {
    "version": 1,
    "setup_cmd": "bin/setup",
    "hooks": {
        "guard": "PDFMINER_VERIF",
        "enable": "no build step: pdfminer is pure Python, imported from /repo's working tree (editable install in /venv); "
                  "bin/check exports PDFMINER_VERIF=1 and installs its observation wrappers at run time in its own process",
        "baseline_off_cmd": "cd /repo && env -u PDFMINER_VERIF /venv/bin/python -m pytest -ra -q -p no:cacheprovider --timeout=900",
        "source_commits": json.load(open(os.path.join(V, "manifest.d", "hooks.json"))) if os.path.exists(os.path.join(V, "manifest.d", "hooks.json")) else [],
        "add_only": True,
    },
    "engines": [
        {"name": "tlc", "path": "/opt/veriftools/tla/tla2tools.jar", "serves_properties": sorted(claimed),
         "kind_free_text": "TLC explicit-state model checker on the TLA+ specifications under /verif/specs; behaviours it "
                           "enumerates are replayed into pdfminer and traces recorded from pdfminer are validated against the specs"},
    ],
    "checks": checks,
    "notes": "See DESIGN.md. bin/check <ID> exits 0 (held) / 1 (VIOLATION line printed) / 2 (machinery failure). "
             "Known findings: known_findings/<ID>.json.",
    "not_applicable": na,
}
json.dump(m, open(os.path.join(V, "MANIFEST.json"), "w"), indent=1)
print("claimed:", sorted(claimed), "not claimed:", [x["property_id"] for x in na])
