"""Projection of the real tokenizer: run PSBaseParser on bytes with a given BUFSIZ -> [(pos, kind, value)]."""
import io
import logging

logging.disable(logging.CRITICAL)

from pdfminer.psparser import PSBaseParser, PSEOF, PSKeyword, PSLiteral  # noqa: E402

_cls = {}


def parser_class(B, base=PSBaseParser):
    k = (B, base)
    c = _cls.get(k)
    if c is None:
        c = type("P%s" % B, (base,), {"BUFSIZ": B} if B else {})
        _cls[k] = c
    return c


def project(t):
    if isinstance(t, bool):
        return ("kw", b"true" if t else b"false")
    if isinstance(t, int):
        return ("int", t)
    if isinstance(t, float):
        return ("real", t)
    if isinstance(t, bytes):
        return ("str", t)
    if isinstance(t, PSKeyword):
        return ("kw", t.name)
    if isinstance(t, PSLiteral):
        n = t.name
        return ("lit", n if isinstance(n, bytes) else n.encode("utf-8"))
    return ("other", repr(t))


WATCHDOG_BASE = 2.0      # CPU seconds a single input may take before it is declared non-terminating (plus 0.5 ms per byte)
HANGS = 0


class Hang(BaseException):
    pass


def _alarm(signum, frame):
    raise Hang()


def real_tokens(data, B, limit=None):
    """-> (tokens, error); a "Hang" verdict is only returned when it reproduces with the garbage collector switched off:
    the watchdog counts CPU time of the whole process, and a full collection over the millions of objects a thorough
    run keeps alive can by itself take longer than the watchdog allows (seen twice in 7.5 million calls)."""
    r = _real_tokens(data, B, limit)
    if r[1] != "Hang":
        return r
    import gc
    global HANGS
    was = gc.isenabled()
    gc.disable()
    try:
        r2 = _real_tokens(data, B, limit)
    finally:
        if was:
            gc.enable()
    HANGS -= 1              # both attempts counted themselves: one hang per input at most
    return r2


def _real_tokens(data, B, limit=None):
    """-> (tokens, error)  error is None when the tokenizer ended with PSEOF; "NoProgress" when it yields tokens
    without end, "Hang" when a single nexttoken() call does not return within the watchdog time."""
    import signal
    p = parser_class(B)(io.BytesIO(data))
    out = []
    budget = limit if limit is not None else 4 * len(data) + 16
    # the watchdog counts CPU time of this process (ITIMER_VIRTUAL), not wall-clock time: a loaded machine must not
    # turn a slow but terminating call into a "hang"
    old = signal.signal(signal.SIGVTALRM, _alarm)
    signal.setitimer(signal.ITIMER_VIRTUAL, WATCHDOG_BASE + len(data) / 2000.0)
    try:
        while True:
            pos, t = p.nexttoken()
            out.append((pos,) + project(t))
            budget -= 1
            if budget < 0:
                return out, "NoProgress"
    except PSEOF:
        return out, None
    except Hang:
        global HANGS
        HANGS += 1
        return out, "Hang"
    except BaseException as e:  # anything but end of input
        return out, type(e).__name__
    finally:
        signal.setitimer(signal.ITIMER_VIRTUAL, 0)
        signal.signal(signal.SIGVTALRM, old)


def model_tokens(o):
    """tokens emitted by the spec ([{pos,k,v}]) -> same projection as real_tokens."""
    out = []
    for t in o:
        k = t["k"]
        v = bytes(t["v"])
        if k == "int":
            v = int(v)
        elif k == "real":
            v = float(v)
        out.append((t["pos"], k, v))
    return out
