"""Recording of TrueTypeFont.create_unicode_map on the TrueType programs embedded in real documents (binding B of C07's
TrueType clause).  Nothing in /repo is edited: FileUnicodeMap.add_cid2unichr is wrapped while the real reader runs."""
from __future__ import annotations

import io

from ..tlc import MachineryError


def embedded_programs(path, key="FontFile2"):
    """-> [(origin, bytes)] distinct font programs stored under `key` in the font descriptors of a document"""
    from pdfminer.pdfdocument import PDFDocument
    from pdfminer.pdfparser import PDFParser
    from pdfminer.pdftypes import PDFStream, resolve1
    out = []
    seen = set()
    try:
        with open(path, "rb") as fp:
            doc = PDFDocument(PDFParser(fp))
            for xref in doc.xrefs:
                for objid in xref.get_objids():
                    try:
                        o = doc.getobj(objid)
                    except Exception:  # noqa: BLE001
                        continue
                    if isinstance(o, dict) and key in o and getattr(o.get("Type"), "name", None) == "FontDescriptor":
                        st = resolve1(o[key])
                        if isinstance(st, PDFStream):
                            try:
                                data = st.get_data()
                            except Exception:  # noqa: BLE001
                                continue
                            if data and data not in seen:
                                seen.add(data)
                                out.append(("%s#obj%d/%s" % (path, objid, key), data))
    except Exception:  # noqa: BLE001 - unreadable samples are C13's subject
        pass
    return out


def real_unicode_map(data):
    """-> (result name, [(char, gid)] add_cid2unichr calls in order, {gid: char} returned map)"""
    from pdfminer import cmapdb
    from pdfminer.pdffont import TrueTypeFont
    try:
        orig = cmapdb.FileUnicodeMap.add_cid2unichr
    except AttributeError as e:
        raise MachineryError("wrapper target missing: %r" % e)
    calls = []

    def add(self, cid, code):
        calls.append((code, cid))
        return orig(self, cid, code)
    cmapdb.FileUnicodeMap.add_cid2unichr = add
    try:
        try:
            m = TrueTypeFont("verif", io.BytesIO(data)).create_unicode_map()
            return "ok", calls, {g: ord(c) for g, c in m.cid2unichr.items() if len(c) == 1}
        except TrueTypeFont.CMapNotFound:
            return "CMapNotFound", [], {}
        except Exception as e:  # noqa: BLE001
            return type(e).__name__, [], {}
    finally:
        cmapdb.FileUnicodeMap.add_cid2unichr = orig


def truetype_trace(origin, data, maxobs=500):
    from ..realise import ttf
    tabs = ttf.read_tables(data)
    subs = []
    hascmap = b"cmap" in tabs
    if hascmap:
        try:
            parsed = ttf.parse_cmap(data, tabs[b"cmap"][0])
        except Exception:  # noqa: BLE001 - a cmap table our reader cannot walk is not traced
            return None
        for st in parsed:
            s = {"p": st["p"], "e": st["e"], "fmt": st["fmt"], "segs": [], "gia": [], "table": []}
            if st["fmt"] == 4:
                n = len(st["ec"])
                s["segs"] = [{"sc": st["sc"][i], "ec": st["ec"][i], "idd": st["idd"][i], "idr": st["idr"][i]} for i in range(n)]
                s["gia"] = st["words"][n:]
            elif st["fmt"] == 0:
                s["table"] = st["table"]
            elif st["fmt"] == 2 and ttf.is_unicode(st["p"], st["e"]):
                return None         # format 2 under a Unicode platform does not occur; the trace spec does not carry it
            subs.append(s)
    result, calls, inv = real_unicode_map(data)
    c2g = dict(calls)
    chars = sorted(c2g)
    pick = set(chars[:40] + chars[-40:] + chars[::max(1, len(chars) // 200)])
    for s in subs:
        if s["fmt"] == 4 and ttf.is_unicode(s["p"], s["e"]):
            for sg in s["segs"][:150]:
                pick.update(c for c in (sg["sc"], sg["ec"], (sg["sc"] + sg["ec"]) // 2) if c in c2g)
    invs = sorted(inv.items())
    invs = invs[:60] + invs[::max(1, len(invs) // 100)]
    pick.update(ch for _g, ch in invs)
    obs = [[c, c2g[c]] for c in sorted(pick)[:maxobs + 200] if c in c2g]
    okset = {tuple(o) for o in obs}
    try:
        anyglyph = any(ttf.ref_unicode_pairs(data) or [])
    except Exception:  # noqa: BLE001
        anyglyph = False
    # how many characters the real reader attaches to another glyph than the OpenType reading (harness's own reader)
    differ = 0
    if result == "ok":
        try:
            ref = {}
            for sp in ttf.ref_unicode_pairs(data) or []:
                ref.update(sp)
            real = {c: g for c, g in c2g.items() if g}
            differ = sum(1 for c in set(ref) | set(real) if ref.get(c) != real.get(c))
        except Exception:  # noqa: BLE001
            differ = 0
    return {"origin": origin, "hascmap": hascmap, "subs": subs, "result": result, "obs": obs, "anyglyph": anyglyph,
            "differ": differ,
            "inv": [[g, ch] for g, ch in invs if (ch, g) in okset], "nchars": len(chars)}
