"""Composite fonts (C07): helpers that read the CMap DATA (pickled tables are constants of the models), bind abstract
byte symbols to real bytes, and record decode / to_unichr / char_width events of real PDFCIDFonts (binding B)."""
from __future__ import annotations

import gzip
import itertools
import os
import pickle
import random

from ..tlc import MachineryError


# ------------------------------------------------------------------------------------------------ CMap data
_RAW = {}


def raw_cmap_data(name):
    """the pickled resource, read directly from pdfminer/cmap (not through CMapDB)"""
    if name not in _RAW:
        import pdfminer
        path = os.path.join(os.path.dirname(pdfminer.__file__), "cmap", name + ".pickle.gz")
        if not os.path.exists(path):
            raise MachineryError("CMap resource missing: " + path)
        with gzip.open(path) as f:
            _RAW[name] = pickle.loads(f.read())
    return _RAW[name]


def code2cid(name):
    return raw_cmap_data(name)["CODE2CID"]


def cid2unichr(collection, vertical=False):
    d = raw_cmap_data("to-unicode-" + collection)
    return d["CID2UNICHR_V" if vertical else "CID2UNICHR_H"]


def lookup(trie, seq):
    """-> ('leaf', cid) | ('node', dict) | ('absent', None) for a byte sequence from the root"""
    d = trie
    for i, b in enumerate(seq):
        if not isinstance(d, dict) or b not in d:
            return ("absent", None)
        d = d[b]
        if isinstance(d, int) and i < len(seq) - 1:
            return ("absent", None)
    return ("leaf", d) if isinstance(d, int) else ("node", d)


def ref_segment(trie, data):
    """independent walk of the DATA (reference of the walk: see CIDFont.tla RefSeg) -> (cids, per-byte facts)"""
    out = []
    facts = []
    d = trie
    for b in data:
        if b in d:
            x = d[b]
            if isinstance(x, int):
                out.append(x)
                facts.append({"inn": True, "leaf": True, "cid": x})
                d = trie
            else:
                facts.append({"inn": True, "leaf": False, "cid": 0})
                d = x
        else:
            facts.append({"inn": False, "leaf": False, "cid": 0})
            d = trie
    return out, facts


def abstract_status(codes, seq):
    seq = tuple(seq)
    if seq in codes:
        return "leaf"
    if any(len(c) > len(seq) and c[:len(seq)] == seq for c in codes):
        return "node"
    return "absent"


def bind_family(trie, syms, codes, rng, tries=400):
    """find distinct real bytes for the abstract symbols such that the real code table restricted to those bytes has
    exactly the shape `codes` (checked on every sequence up to length maxlen+1).  -> {sym: byte} or None"""
    syms = sorted(syms)
    codes = {tuple(c) for c in codes}
    depth = max(len(c) for c in codes)
    rootstat = {s: abstract_status(codes, (s,)) for s in syms}
    cands = {}
    for s in syms:
        st = rootstat[s]
        cands[s] = [b for b in range(256) if lookup(trie, (b,))[0] == st]
        if not cands[s]:
            return None
    seqs = [q for n in range(1, depth + 2) for q in itertools.product(syms, repeat=n)]

    def ok(bind):
        for q in seqs:
            a = abstract_status(codes, q)
            # a sequence below a leaf / absent prefix is absent in both by construction of lookup
            r = lookup(trie, [bind[s] for s in q])[0]
            pre = any(abstract_status(codes, q[:k]) in ("leaf", "absent") for k in range(1, len(q)))
            if pre:
                continue
            if a != r:
                return False
        return True

    order = sorted(syms, key=lambda s: {"node": 0, "leaf": 1, "absent": 2}[rootstat[s]])
    for _ in range(tries):
        bind = {}
        used = set()
        good = True
        for s in order:
            pool = [b for b in cands[s] if b not in used]
            if not pool:
                good = False
                break
            # bias: pick among the first/last/random candidates so that class boundaries get exercised
            b = rng.choice([pool[0], pool[-1], rng.choice(pool), rng.choice(pool)])
            bind[s] = b
            used.add(b)
        if good and ok(bind):
            return bind
    return None


# ------------------------------------------------------------------------------------------------ recording (binding B)
def cid_font_trace(origin, font, decodes, maxcodes=160):
    """trace record for CIDFontTrace.tla.  decodes: [(bytes, [cids])] recorded from font.decode on the document."""
    from fractions import Fraction

    from pdfminer.casting import safe_float
    from pdfminer.cmapdb import CMap, IdentityCMap, IdentityCMapByte
    from pdfminer.pdffont import PDFCIDFont, PDFUnicodeNotDefined
    from pdfminer.pdftypes import resolve1

    if not isinstance(font, PDFCIDFont):
        return None
    cm = font.cmap
    if isinstance(cm, IdentityCMapByte):
        seg = "id1"
    elif isinstance(cm, IdentityCMap):
        seg = "id2"
    elif isinstance(cm, CMap):
        seg = "trie"
    else:
        return None
    dl = []
    shown = []
    for data, cids in decodes[:120]:
        d = {"bytes": list(data), "out": list(cids), "facts": []}
        if seg == "trie":
            _exp, d["facts"] = ref_segment(cm.code2cid, data)
        if seg == "id2" and len(data) % 2:
            continue      # odd-length strings are the known IdentityOddRaises finding (direction A)
        dl.append(d)
        shown.extend(cids)
    spec = getattr(font, "_verif_spec", None) or {}
    vertical = font.is_vertical()
    raw = resolve1(spec.get("W2" if vertical else "W", [])) or []
    warr = []
    wok = True
    for v in raw:
        v = resolve1(v)
        if isinstance(v, list):
            l = [resolve1(x) for x in v]
            if not all(isinstance(x, (int, float)) and not isinstance(x, bool) and float(x).is_integer() for x in l):
                wok = False
                break
            warr.append({"t": "l", "v": 0, "l": [int(x) for x in l]})
        elif isinstance(v, (int, float)) and not isinstance(v, bool) and float(v).is_integer():
            warr.append({"t": "n", "v": int(v), "l": []})
        else:
            wok = False
            break
    widths = font.widths
    cids = sorted({c for c in shown if isinstance(c, int)})[:maxcodes]
    keys = sorted(k for k in widths if isinstance(k, int))
    pick = sorted(set(keys[:24] + keys[-24:] + keys[::max(1, len(keys) // 48)] + [c for c in cids if c < 70000]
                      + [0, 1, max(keys) + 1 if keys else 2]))
    wtab = []
    if wok:
        for c in pick:
            if c in widths:
                w = widths[c]
                if not (isinstance(w, (int, float)) and float(w).is_integer()):
                    wok = False
                    break
                if vertical:
                    vx, vy = font.disps.get(c, (None, None))
                    if not all(isinstance(x, (int, float)) and float(x).is_integer() for x in (vx, vy)):
                        wok = False
                        break
                    wtab.append([int(w), int(vx), int(vy)])
                else:
                    wtab.append([int(w)])
            else:
                wtab.append([])
    if not wok:
        warr, pick, wtab = [], [], []
    umap = font.unicode_map
    codes = []
    for c in cids + [x for x in (0, 1, 65535) if x not in cids]:
        has = False
        val = []
        if umap is not None:
            try:
                v = umap.get_unichr(c)
                has = True
                val = [ord(ch) for ch in v]
            except (KeyError, ValueError, OverflowError):
                has = False
        try:
            txt = [ord(ch) for ch in font.to_unichr(c)]
        except PDFUnicodeNotDefined:
            txt = [-1]
        w = font.char_width(c)
        wc = safe_float(widths.get(c))
        dw = font.default_width

        def eq(x):
            return x is not None and isinstance(x, (int, float)) and Fraction(w) == Fraction(x * font.hscale)
        codes.append({"cid": c, "has": has, "val": val, "txt": txt, "inw": wc is not None, "eqw": eq(wc), "eqd": eq(dw)})
    return {"origin": origin, "seg": seg, "decodes": dl, "wmode": "W2" if vertical else "W", "warr": warr,
            "wcids": pick, "wtab": wtab, "codes": codes}


def cid_fonts_of_file(path, maxpages=4):
    """-> [trace] for the composite fonts of a document; decode calls are recorded while the pages are interpreted"""
    from pdfminer.pdfdevice import PDFTextDevice
    from pdfminer.pdffont import PDFCIDFont
    from pdfminer.pdfinterp import PDFPageInterpreter, PDFResourceManager
    from pdfminer.pdfpage import PDFPage

    from . import fontrec

    rec = {}
    orig = PDFCIDFont.decode

    def decode(self, data):
        res = orig(self, data)
        res = list(res)
        rec.setdefault(id(self), []).append((bytes(data), res))
        return res

    out = []
    fonts = {}
    PDFCIDFont.decode = decode
    try:
        with fontrec.recording():
            rm = PDFResourceManager()
            it = PDFPageInterpreter(rm, PDFTextDevice(rm))
            try:
                with open(path, "rb") as fp:
                    for pno, pg in enumerate(PDFPage.get_pages(fp, maxpages=maxpages, check_extractable=False)):
                        it.process_page(pg)
                        for name, font in it.fontmap.items():
                            if isinstance(font, PDFCIDFont) and id(font) not in fonts:
                                fonts[id(font)] = ("%s#p%d/%s" % (os.path.relpath(path, "/repo"), pno + 1, name), font)
            except Exception:  # noqa: BLE001 - unreadable samples are C13's subject
                pass
    finally:
        PDFCIDFont.decode = orig
    for fid, (origin, font) in fonts.items():
        tr = cid_font_trace(origin, font, rec.get(fid, []))
        if tr is not None:
            out.append(tr)
    return out


def rng_for(seed, *parts):
    return random.Random("%s/%s" % (seed, "/".join(map(str, parts))))
