"""Observation of tools/dumppdf.py (C17, extended coverage): loading the tool from the tree under test, cutting its
output into the tokens of specs/nav/DumpXmlOps.tla, building real pdfminer objects from the specification's object
records and the way back (abstracting real objects / outline targets into the records of DumpXmlOps.tla and
DumpPdf.tla), and the recorder for specs/nav/DumpPdfTrace.tla."""
from __future__ import annotations

import importlib.util
import io
import os
import re
import tempfile

from ..tlc import MachineryError

try:
    import pdfminer
    from pdfminer.pdfdocument import PDFDestinationNotFound, PDFDocument, PDFXRefFallback
    from pdfminer.pdfpage import PDFPage
    from pdfminer.pdfparser import PDFParser
    from pdfminer.pdftypes import PDFObjRef, PDFStream, resolve1
    from pdfminer.psparser import KWD, LIT, PSKeyword, PSLiteral
except ImportError as e:
    raise MachineryError("C17 (dumppdf) observation target missing: %r" % (e,))

_TOOL = None


def tool():
    """tools/dumppdf.py of the tree pdfminer was imported from"""
    global _TOOL
    if _TOOL is None:
        path = os.path.join(os.path.dirname(os.path.dirname(os.path.abspath(pdfminer.__file__))), "tools", "dumppdf.py")
        if not os.path.exists(path):
            raise MachineryError("tools/dumppdf.py not found next to %s" % pdfminer.__file__)
        spec = importlib.util.spec_from_file_location("verif_dumppdf_under_test", path)
        mod = importlib.util.module_from_spec(spec)
        spec.loader.exec_module(mod)
        for name in ("dumpxml", "dumpallobjs", "dumpoutline", "escape"):
            if not hasattr(mod, name):
                raise MachineryError("tools/dumppdf.py has no %s" % name)
        _TOOL = mod
    return _TOOL


# ------------------------------------------------------------------------------------------------ tokens
_TAG = re.compile(r'<(/?)(\w+)(?: (?:size|id)="(-?\d+)")?( /)?>|\n')
_ENT = re.compile(r"&#(\d+);")


def text_items(s):
    out = []
    pos = 0
    for m in _ENT.finditer(s):
        out += [ord(c) for c in s[pos:m.start()]]
        out.append(-(int(m.group(1)) + 1))
        pos = m.end()
    out += [ord(c) for c in s[pos:]]
    return out


def tokenize(text):
    """dumpxml output -> tokens [t, n, a, c] of DumpXmlOps.tla"""
    toks = []
    pos = 0
    for m in _TAG.finditer(text):
        if m.start() > pos:
            toks.append({"t": "txt", "n": "", "a": -1, "c": text_items(text[pos:m.start()])})
        pos = m.end()
        if m.group(0) == "\n":
            toks.append({"t": "nl", "n": "", "a": -1, "c": []})
        else:
            kind = "close" if m.group(1) else "empty" if m.group(4) else "open"
            toks.append({"t": kind, "n": m.group(2), "a": int(m.group(3)) if m.group(3) is not None else -1, "c": []})
    if pos < len(text):
        toks.append({"t": "txt", "n": "", "a": -1, "c": text_items(text[pos:])})
    return toks


def render(toks):
    """tokens of the specification -> the text they stand for"""
    out = []
    for t in toks:
        k = t["t"]
        if k == "nl":
            out.append("\n")
        elif k == "txt":
            out.append("".join(chr(c) if c >= 0 else "&#%d;" % (-c - 1) for c in t["c"]))
        elif k == "open":
            attr = "" if t["a"] < 0 else ' size="%d"' % t["a"]
            out.append("<%s%s>" % (t["n"], attr))
        elif k == "close":
            out.append("</%s>" % t["n"])
        elif k == "empty":
            out.append("<%s%s />" % (t["n"], "" if t["a"] < 0 else ' id="%d"' % t["a"]))
        else:
            raise MachineryError("cannot render token %r" % (t,))
    return "".join(out)


def self_check():
    sample = '<dict size="1">\n<key>K</key>\n<value><string size="2">a&#60;</string></value>\n</dict><ref id="5" /><null />'
    if render(tokenize(sample)) != sample:
        return "tokenize / render do not round-trip"
    return None


# ------------------------------------------------------------------------------------------------ objects
def build_object(v):
    """a real pdfminer object for an object record of DumpXmlOps.tla"""
    k = v["k"]
    if k == "null":
        return None
    if k == "bool":
        return bool(v["b"])
    if k == "num":
        txt = "".join(chr(c) for c in v["txt"])
        return float(txt) if "." in txt else int(txt)
    if k == "str":
        return bytes(v["s"])
    if k == "lit":
        return LIT("".join(chr(c) for c in v["s"]))
    if k == "kw":
        return KWD(bytes(v["s"]))
    if k == "ref":
        return PDFObjRef(None, v["id"])
    if k == "list":
        return [build_object(x) for x in v["items"]]
    if k == "dict":
        return {"".join(chr(c) for c in key): build_object(x) for key, x in v["items"]}
    if k == "stream":
        return PDFStream(build_object(v["attrs"]), bytes(v["raw"]))
    raise MachineryError("unknown object record %r" % (v,))


class NotAbstractable(Exception):
    pass


def abstract_object(obj, depth=0):
    """the object record of DumpXmlOps.tla for a real object"""
    if depth > 12:
        raise NotAbstractable("nesting")
    if obj is None:
        return {"k": "null"}
    if isinstance(obj, bool):
        return {"k": "bool", "b": obj}
    if isinstance(obj, (int, float)):
        return {"k": "num", "txt": [ord(c) for c in "%s" % obj]}
    if isinstance(obj, bytes):
        return {"k": "str", "s": list(obj)}
    if isinstance(obj, str):
        if any(ord(c) > 255 for c in obj):
            raise NotAbstractable("text above latin-1")
        return {"k": "str", "s": [ord(c) for c in obj]}
    if isinstance(obj, PSLiteral):
        return {"k": "lit", "s": [ord(c) for c in "%s" % obj.name]}
    if isinstance(obj, PSKeyword):
        if not isinstance(obj.name, bytes):
            raise NotAbstractable("keyword name is not bytes")
        return {"k": "kw", "s": list(obj.name)}
    if isinstance(obj, PDFObjRef):
        return {"k": "ref", "id": obj.objid}
    if isinstance(obj, list):
        return {"k": "list", "items": [abstract_object(x, depth + 1) for x in obj]}
    if isinstance(obj, PDFStream):
        try:
            data = obj.get_data()
        except Exception as e:      # noqa: BLE001 - a stream that cannot be decoded is C03's business
            raise NotAbstractable("stream data: %s" % type(e).__name__)
        return {"k": "stream", "attrs": abstract_object(obj.attrs, depth + 1), "raw": list(obj.get_rawdata() or b""), "data": list(data)}
    if isinstance(obj, dict):
        items = []
        for key, x in obj.items():
            if not isinstance(key, str):
                raise NotAbstractable("dictionary key is not a str")
            items.append([[ord(c) for c in key], abstract_object(x, depth + 1)])
        return {"k": "dict", "items": items}
    raise NotAbstractable(type(obj).__name__)


def size_of(v):
    if v["k"] in ("list",):
        return 1 + sum(size_of(x) for x in v["items"])
    if v["k"] == "dict":
        return 1 + sum(len(k) + size_of(x) for k, x in v["items"])
    if v["k"] == "stream":
        return size_of(v["attrs"]) + len(v["data"]) + len(v["raw"])
    return 1 + len(v.get("s", ())) + len(v.get("txt", ()))


def run_dumpxml(obj, codec):
    """-> (text, error name or None)"""
    out = io.StringIO()
    try:
        tool().dumpxml(out, obj, codec=codec)
    except TypeError:
        return out.getvalue(), "TypeError"
    return out.getvalue(), None


def run_dumpallobjs(data, codec, password=""):
    out = io.StringIO()
    doc = PDFDocument(PDFParser(io.BytesIO(data)), password)
    try:
        tool().dumpallobjs(out, doc, codec)
    except TypeError:
        return doc, out.getvalue(), "TypeError"
    return doc, out.getvalue(), None


def split_objects(toks):
    """tokens of a dumpallobjs run -> ([(objid or -n for the n-th trailer, inner tokens)], well formed?)"""
    out = []
    i = 0
    ntrailer = 0
    ok = True
    n = len(toks)
    if not toks or toks[0] != {"t": "open", "n": "pdf", "a": -1, "c": []}:
        return out, False
    i = 1
    while i < n:
        t = toks[i]
        if t["t"] == "open" and t["n"] in ("object", "trailer"):
            j = i + 1
            while j < n and not (toks[j]["t"] == "close" and toks[j]["n"] == t["n"]):
                j += 1
            inner = toks[i + 1:j]
            # <object id="N">\n ... \n</object>\n\n
            if len(inner) < 2 or inner[0]["t"] != "nl" or inner[-1]["t"] != "nl":
                ok = False
            if t["n"] == "trailer":
                ntrailer += 1
                out.append((-ntrailer, inner[1:-1]))
            else:
                out.append((t["a"], inner[1:-1]))
            i = j + 1
        elif t["t"] == "nl" or (t["t"] == "close" and t["n"] == "pdf"):
            i += 1
        else:
            ok = False
            i += 1
    return out, ok


# ------------------------------------------------------------------------------------------------ outline targets
def abstract_target(doc, raw, pages, depth=0):
    """the value record of DumpPdf.tla for a raw /Dest, /D or /A entry"""
    if depth > 6:
        raise NotAbstractable("nesting")
    if raw is None:
        return {"k": "none"}
    if isinstance(raw, PDFObjRef):
        return {"k": "ref", "v": abstract_target(doc, raw.resolve(), pages, depth + 1)}
    if isinstance(raw, (bytes, str)):
        return {"k": "str"}
    if isinstance(raw, PSLiteral):
        return {"k": "lit"}
    if isinstance(raw, list):
        if not raw:
            raise NotAbstractable("empty destination array")
        first = raw[0]
        pg = pages.get(first.objid, -1) if isinstance(first, PDFObjRef) else -2
        return {"k": "arr", "pg": pg}
    if isinstance(raw, dict):
        if "S" in raw:
            s = raw.get("S")
            return {"k": "act", "s": s.name if isinstance(s, PSLiteral) and isinstance(s.name, str) else "other",
                    "d": abstract_target(doc, raw.get("D"), pages, depth + 1) if raw.get("D") else {"k": "none"}}
        if not raw:
            raise NotAbstractable("empty dictionary")
        return {"k": "dict", "d": abstract_target(doc, raw["D"], pages, depth + 1) if "D" in raw else {"k": "noD"}}
    raise NotAbstractable(type(raw).__name__)


def name_used(raw, depth=0):
    """the first string / name object met when all references are followed (or None)"""
    if depth > 6 or raw is None:
        return None
    raw = resolve1(raw)
    if isinstance(raw, (bytes, str)):
        return raw
    if isinstance(raw, PSLiteral):
        return raw.name
    if isinstance(raw, dict):
        return name_used(raw.get("D"), depth + 1)
    return None


def named_value(doc, key, pages):
    if key is None:
        return {"k": "absent"}
    try:
        v = doc.get_dest(key)
    except PDFDestinationNotFound:
        return {"k": "absent"}
    return abstract_target(doc, v, pages)


_OUTLINE = re.compile(r'<outline level="(\d+)" title="([^"]*)">\n(?:<dest>(.*?)</dest>\n)?(?:<pageno>(\d+)</pageno>\n)?</outline>\n', re.S)


def run_dumpoutline(data, password=""):
    """-> ([{level, title (escaped text as written), pageno (0 = none), hasdest}], error name or "none", raw text)"""
    with tempfile.NamedTemporaryFile(suffix=".pdf", delete=False) as f:
        f.write(data)
    out = io.StringIO()
    err = "none"
    try:
        tool().dumpoutline(out, f.name, [], set(), password=password)
    except Exception as e:      # noqa: BLE001 - which exception ends the run is what is being observed
        err = type(e).__name__
    finally:
        os.unlink(f.name)
    text = out.getvalue()
    items = [{"level": int(m.group(1)), "title": m.group(2), "pageno": int(m.group(4)) if m.group(4) else 0, "hasdest": m.group(3) is not None}
             for m in _OUTLINE.finditer(text)]
    return items, err, text


def record_outline(data, password=""):
    """the dumpoutline part of a DumpPdfTrace.tla document"""
    doc = PDFDocument(PDFParser(io.BytesIO(data)), password)
    pages = {p.pageid: n for n, p in enumerate(PDFPage.create_pages(doc), 1)}
    items = []
    try:
        listed = list(doc.get_outlines())
    except Exception:       # noqa: BLE001 - no outlines (or broken ones): nothing to record
        listed = None
    out, err, _ = run_dumpoutline(data, password)
    rec = {"items": [], "out": [{"level": o["level"], "title": o["title"], "pageno": o["pageno"]} for o in out], "err": err}
    if listed is None:
        return {"items": [], "out": [], "err": "none"}, len(pages), 0
    esc = tool().escape
    for (level, title, dest, a, _se) in listed:
        key = name_used(dest) if dest else name_used(resolve1(a).get("D") if isinstance(resolve1(a), dict) else None)
        rec["items"].append({"level": level, "title": esc(title), "dest": abstract_target(doc, dest if dest else None, pages),
                             "a": abstract_target(doc, a, pages) if a else {"k": "none"}, "nv": named_value(doc, key, pages)})
    return rec, len(pages), len(listed)


def record_dump(data, codec, password="", max_objects=40, max_size=600):
    """one dumpallobjs run for DumpPdfTrace.tla"""
    doc, text, err = run_dumpallobjs(data, codec, password)
    toks = tokenize(text)
    objs, ok = split_objects(toks)
    secs = [{"ids": list(x.get_objids()), "fallback": isinstance(x, PDFXRefFallback)} for x in doc.xrefs]
    nulls, seen = [], set()
    for s in secs:
        for i in s["ids"]:
            if i in seen:
                continue
            seen.add(i)
            try:
                if doc.getobj(i) is None:
                    nulls.append(i)
            except Exception:       # noqa: BLE001 - an object that cannot be read is outside this trace (C13)
                raise NotAbstractable("object %d cannot be read" % i)
    rec = {"codec": codec or "none", "err": err or "none", "ids": [i for i, _ in objs], "secs": secs, "nulls": nulls, "objs": [],
           "well_formed_blocks": ok, "skipped": 0}
    trailers = [x.get_trailer() for x in doc.xrefs if not isinstance(x, PDFXRefFallback)]
    for i, inner in objs:
        if len(rec["objs"]) >= max_objects:
            rec["skipped"] += 1
            continue
        try:
            val = abstract_object(trailers[-i - 1] if i < 0 else doc.getobj(i))
        except NotAbstractable:
            rec["skipped"] += 1
            continue
        if size_of(val) > max_size:
            rec["skipped"] += 1
            continue
        rec["objs"].append({"id": i, "val": val, "toks": inner})
    if err:
        # the run stopped at the first stream: give the model that object
        for s in secs:
            for i in s["ids"]:
                o = doc.getobj(i)
                if isinstance(o, PDFStream):
                    try:
                        rec["objs"] = [{"id": i, "val": abstract_object(o), "toks": []}]
                    except NotAbstractable:
                        pass
                    return rec
    return rec
