"""Projection of the real decryption path for C10.

open_doc()        PDFDocument(parser, password) -> ("opened", doc) | (exception class name, None)
observe_items()   the real value of every item of a realised CryptDoc, classified against plaintext/ciphertext
Recorder          run-time wrappers (installed only while recording, PDFMINER_VERIF=1) on the security handlers'
                  decrypt(), pdfdocument.decipher_all and PDFStream.decode -> event list for CryptTrace.tla
raw_objects()     ground truth about a file for the trace spec: per object number, where it lives and the raw
                  (still encrypted) lengths of its strings / stream - read with deciphering switched off
"""
from __future__ import annotations

import io
import logging
import os

logging.disable(logging.CRITICAL)

from pdfminer import pdfdocument as _pd                     # noqa: E402
from pdfminer import pdftypes as _pt                        # noqa: E402
from pdfminer.pdfdocument import PDFDocument                # noqa: E402
from pdfminer.pdfparser import PDFParser                    # noqa: E402
from pdfminer.pdftypes import PDFObjRef, PDFStream, resolve1  # noqa: E402
from pdfminer.psparser import PSLiteral                     # noqa: E402

from ..tlc import MachineryError                            # noqa: E402


def open_doc(data, password):
    try:
        doc = PDFDocument(PDFParser(io.BytesIO(data)), password)
        return "opened", doc
    except Exception as e:            # the class is the observation
        return type(e).__name__, None


def nav(doc, objid, path):
    o = doc.getobj(objid)
    for k in path:
        if k == "<data>":
            return o.get_data()
        o = resolve1(o)
        if isinstance(o, PDFStream):
            o = o.attrs
        o = o[k]
    return resolve1(o)


def classify(got, plain, cipher):
    """abstraction shared with the model: plain (layer count 0) | padded (0 + PKCS#7 residue) | cipher (+1) | garbage"""
    if isinstance(got, str):
        return got
    if got == plain:
        return "plain"
    if isinstance(got, bytes):
        k = len(got) - len(plain)
        if got.startswith(plain) and 1 <= k <= 16 and k == 16 - len(plain) % 16 and got[len(plain):] == bytes([k]) * k:
            return "padded"
        if cipher is not None and got == cipher and cipher != plain:
            return "cipher"
    return "garbage"


def observe_items(doc, items, cipher_of):
    """-> list of classes, one per item (same order)"""
    out = []
    for it in items:
        try:
            got = nav(doc, it["objid"], it["path"])
        except Exception as e:
            got = "exc:" + type(e).__name__
        if it.get("kind") == "atom":                      # an indirect name / number: its value as PDF text
            if isinstance(got, PSLiteral):
                nm = got.name
                got = b"/" + (nm if isinstance(nm, bytes) else nm.encode("utf-8"))
            elif isinstance(got, (int, float)) and not isinstance(got, bool):
                got = repr(got).encode()
        out.append(classify(got, it["plain"], cipher_of(it)))
    return out


# ------------------------------------------------------------------------------------------------ recording
class Recorder:
    """Wraps (in this process, while active) every security handler's decrypt, pdfdocument.decipher_all and
    PDFStream.decode.  Events are appended after the wrapped call returns (finally), so error paths are logged."""

    def __init__(self):
        self.events = []
        self._saved = []
        self._ctx = []            # stack of "da" / "decode"

    def __enter__(self):
        if os.environ.get("PDFMINER_VERIF") != "1":
            raise MachineryError("observation wrappers are only installed under PDFMINER_VERIF=1")
        rec = self
        classes = []
        for name in ("PDFStandardSecurityHandler", "PDFStandardSecurityHandlerV4", "PDFStandardSecurityHandlerV5"):
            c = getattr(_pd, name, None)
            if c is None:
                raise MachineryError("wrapper target missing: pdfdocument.%s" % name)
            classes.append(c)
        for c in classes:
            if "decrypt" not in c.__dict__:
                continue
            orig = c.__dict__["decrypt"]

            def wrapped(self, objid, genno, data, attrs=None, *a, _orig=orig, **kw):
                out = None
                try:
                    out = _orig(self, objid, genno, data, attrs, *a, **kw)
                    return out
                finally:
                    ty = "-"
                    if attrs is not None:
                        t = attrs.get("Type")
                        ty = t.name if isinstance(t, PSLiteral) else "-"
                        if not isinstance(ty, str):
                            ty = ty.decode("latin-1")
                    rec.events.append({"e": "dec", "n": objid if isinstance(objid, int) else -1,
                                       "g": genno if isinstance(genno, int) else -1,
                                       "k": "stream" if attrs is not None else "string",
                                       "il": len(data), "ol": -1 if out is None else len(out), "ty": ty,
                                       "id": out is not None and bytes(out) == bytes(data),
                                       "in": rec._ctx[-1] if rec._ctx else "other"})
            self._saved.append((c, "decrypt", orig))
            setattr(c, "decrypt", wrapped)
        if not hasattr(_pd, "decipher_all"):
            raise MachineryError("wrapper target missing: pdfdocument.decipher_all")
        orig_da = _pd.decipher_all

        def da(decipher, objid, genno, x):
            rec._ctx.append("da")
            try:
                return orig_da(decipher, objid, genno, x)
            finally:
                rec._ctx.pop()
                rec.events.append({"e": "da", "n": objid, "g": genno})
        self._saved.append((_pd, "decipher_all", orig_da))
        _pd.decipher_all = da
        # decipher_all recurses through the module-level name in pdftypes: leave that one alone (nested calls
        # are not top-level calls); only the call made by getobj is an event.
        if "decode" not in PDFStream.__dict__:
            raise MachineryError("wrapper target missing: PDFStream.decode")
        orig_dec = PDFStream.__dict__["decode"]

        def decode(self):
            rec._ctx.append("decode")
            try:
                return orig_dec(self)
            finally:
                rec._ctx.pop()
                rec.events.append({"e": "decode", "n": self.objid if isinstance(self.objid, int) else -1,
                                   "g": self.genno if isinstance(self.genno, int) else -1})
        self._saved.append((PDFStream, "decode", orig_dec))
        PDFStream.decode = decode
        return self

    def __exit__(self, *a):
        for (o, name, orig) in reversed(self._saved):
            setattr(o, name, orig)
        self._saved = []
        return False

    def mark(self, ev):
        self.events.append(ev)


class RawDoc(PDFDocument):
    """the document with deciphering switched off (ground truth about what is in the file)"""

    ref_sec = None        # reference StdSec (authenticated): only used to open object-stream containers

    def _initialize_password(self, password=""):
        assert self._parser is not None
        self._parser.fallback = False
        self.decipher = None

    def _get_objects(self, stream):
        sec = self.ref_sec
        if stream.rawdata is not None and stream.objid is not None:
            # work on a copy: the container's own raw bytes stay available
            raw = stream.rawdata
            if sec is not None and sec.alg != "ID":
                raw = sec.decrypt(stream.objid, stream.genno or 0, raw)
            stream = PDFStream(dict(stream.attrs), raw)
        return super()._get_objects(stream)


def _lit(v):
    v = resolve1(v)
    if isinstance(v, PSLiteral):
        n = v.name
        return n if isinstance(n, str) else n.decode("latin-1")
    return None


def raw_objects(data, sec=None):
    """-> (objs, meta)  objs: list of dicts {n, g, home, s: [raw string lengths], d: [raw lengths of strings in the
    stream dictionary], sl: raw stream length or -1, ty, c: container objid or 0}
    home: body | objstm | pre (the Encrypt dictionary object, resolved before a handler exists) | xref"""
    doc = RawDoc(PDFParser(io.BytesIO(data)))
    doc.ref_sec = sec
    enc_id = 0
    xref_ids = set()
    for x in doc.xrefs:
        tr = x.get_trailer()
        e = tr.get("Encrypt")
        if isinstance(e, PDFObjRef):
            enc_id = e.objid
    objs = []
    seen = set()
    for x in doc.xrefs:
        # (PDFXRefStream.get_objids mis-handles multi-range /Index - C02's business; use the ranges directly)
        ids = [st + k for (st, cnt) in x.ranges for k in range(cnt)] if hasattr(x, "ranges") else list(x.get_objids())
        for n in ids:
            if n in seen or n == 0:
                continue
            seen.add(n)
            try:
                strmid, _, genno = x.get_pos(n)
            except KeyError:
                continue
            try:
                o = doc.getobj(n)
            except Exception:
                continue
            s, d = [], []

            def walk(v, acc):
                if isinstance(v, bytes):
                    acc.append(len(v))
                elif isinstance(v, list):
                    for y in v:
                        walk(y, acc)
                elif isinstance(v, dict):
                    for y in v.values():
                        walk(y, acc)
            sl, ty = -1, "-"
            if isinstance(o, PDFStream):
                walk(o.attrs, d)
                sl = len(o.rawdata) if o.rawdata is not None else len(o.data or b"")
                ty = _lit(o.attrs.get("Type")) or "-"
            else:
                walk(o, s)
            home = "body"
            if strmid is not None:
                home = "objstm"
            elif n == enc_id:
                home = "pre"
            elif ty == "XRef":
                home = "xref"
            objs.append({"n": n, "g": genno if strmid is None else 0, "home": home, "s": s, "d": d, "sl": sl, "ty": ty,
                         "c": strmid or 0})
    enc = None
    if doc.encryption is not None:
        enc = resolve1(doc.encryption[1])
    return objs, doc, enc


def walk_observe(doc, objids, rec=None, raw=False):
    """what a user of the library sees: getobj every object, read every string, get_data() every stream.
    -> {objid: [("s"|"d"|"stream", bytes), ...]}  (s: strings of the object, d: strings of a stream dictionary)"""
    out = {}
    for n in objids:
        vals = []
        try:
            o = doc.getobj(n)

            def walk(v, tag):
                if isinstance(v, bytes):
                    vals.append((tag, v))
                elif isinstance(v, list):
                    for y in v:
                        walk(y, tag)
                elif isinstance(v, dict):
                    for y in v.values():
                        walk(y, tag)
            if isinstance(o, PDFStream):
                walk(o.attrs, "d")
                if raw:
                    vals.append(("stream", o.rawdata))
                else:
                    try:
                        vals.append(("stream", o.get_data()))
                    except Exception as e:
                        vals.append(("stream", "exc:" + type(e).__name__))
            else:
                walk(o, "s")
        except Exception as e:
            vals.append(("exc", type(e).__name__))
        out[n] = vals
        if rec is not None:
            rec.mark({"e": "obs", "n": n})
    return out
