"""Observation of the real navigation code (C17): projections used by the replay (binding A) and the recorder of
traces for specs/nav/NavTrace.tla (binding B).  Public API and public attributes only; nothing in /repo is edited."""
from __future__ import annotations

import itertools
import sys
from io import BytesIO

from ..tlc import MachineryError

try:
    from pdfminer.data_structures import NumberTree
    from pdfminer.pdfdocument import (PDFDestinationNotFound, PDFDocument, PDFNoOutlines, PDFNoPageLabels)
    from pdfminer.pdfpage import PDFPage
    from pdfminer.pdfparser import PDFParser
    from pdfminer.pdftypes import PDFObjRef, resolve1
    from pdfminer.psparser import PSLiteral
    from pdfminer.utils import decode_text
    PDFDocument.get_page_labels, PDFDocument.get_outlines, PDFDocument.get_dest, PDFDocument.lookup_name
except (ImportError, AttributeError) as e:       # a name the harness reads is gone: machinery, not a verdict
    raise MachineryError("C17 observation target missing: %r" % (e,))


def open_doc(data, password="", caching=True):
    fp = data if hasattr(data, "read") else BytesIO(data)
    return PDFDocument(PDFParser(fp), password=password, caching=caching)


def page_labels(doc, n):
    """-> list of n labels, or None when the document has no /PageLabels"""
    try:
        return list(itertools.islice(doc.get_page_labels(), n))
    except PDFNoPageLabels:
        return None


def outlines_with_frames(doc, out=None):
    """-> [(level, title, dest, action, live generator frames at the yield)]; the last component is the length of
    the chain of `search` generators delegating to one another (gi_yieldfrom) when the item is produced.
    (`out` may be passed in to keep what was produced before an exception)"""
    g = doc.get_outlines()
    out = [] if out is None else out
    for (level, title, dest, action, _se) in g:
        depth = 1
        x = g
        while getattr(x, "gi_yieldfrom", None) is not None:
            x = x.gi_yieldfrom
            depth += 1
        out.append((level, title, dest, action, depth))
    return out


def dest_page(doc, value):
    """the object number of the page a destination value shows ([page /Fit ...] or << /D [...] >>)"""
    v = resolve1(value)
    if isinstance(v, dict):
        v = resolve1(v.get("D"))
    if isinstance(v, list) and v and isinstance(v[0], PDFObjRef):
        return v[0].objid
    return None


def ask_dest(doc, key):
    """-> ("value", raw value) | ("NotFound",) | ("None",) | ("TypeError",) ; other exceptions propagate
    (pdfminer's own PDFTypeError is not a TypeError: it propagates)"""
    try:
        v = doc.get_dest(key)
    except PDFDestinationNotFound:
        return ("NotFound",)
    except TypeError:
        return ("TypeError",)
    if v is None:
        return ("None",)
    return ("value", v)


# ------------------------------------------------------------------------------------------------ binding B
class Unsupported(Exception):
    pass


def expected_text(b):
    """the Python string a text string stands for, by the platform's UTF-16 codec resp. the harness's Annex D.2
    table; where the standard defines nothing (ill-formed UTF-16, undefined bytes) whatever the code returns"""
    from ..realise import navdoc
    if b.startswith(b"\xfe\xff"):
        try:
            return b[2:].decode("utf-16-be")
        except UnicodeDecodeError:
            return decode_text(b)
    if all(navdoc.doc_defined(c) for c in b):
        return "".join(chr(navdoc.doc_iso(c)) for c in b)
    return decode_text(b)


def _lit(x):
    return x.name if isinstance(x, PSLiteral) else None


def derive_number_tree(doc, limit=20000):
    """the /PageLabels number tree re-derived through getobj/resolve1: nodes [{nums: [[key, dict id]], kids: [idx]}]
    (1-based indices, node 1 = root, breadth first) and the label dictionaries [{style, prefix: [bytes], st}]"""
    if "PageLabels" not in doc.catalog:
        return None
    nodes, dicts = [], []
    queue = [doc.catalog["PageLabels"]]
    seen = set()
    i = 0
    while i < len(queue):
        raw = queue[i]
        i += 1
        if isinstance(raw, PDFObjRef):
            if raw.objid in seen:
                raise Unsupported("number tree node reached twice (C13)")
            seen.add(raw.objid)
        d = resolve1(raw)
        if not isinstance(d, dict):
            raise Unsupported("number tree node is not a dictionary")
        rec = {"nums": [], "kids": []}
        nums = resolve1(d.get("Nums")) or []
        if len(nums) % 2:
            raise Unsupported("odd /Nums")
        for k, v in zip(nums[0::2], nums[1::2]):
            k = resolve1(k)
            ld = resolve1(v)
            if not isinstance(k, int) or not isinstance(ld, dict):
                raise Unsupported("number tree entry is not (integer, dictionary)")
            style = ld.get("S")
            st = resolve1(ld.get("St", 1))
            prefix = resolve1(ld.get("P", b""))
            if (style is not None and _lit(style) is None) or not isinstance(st, int) or not isinstance(prefix, bytes):
                raise Unsupported("label dictionary with unusual value types")
            dicts.append({"style": _lit(style) if style is not None else "none", "prefix": list(prefix),
                          "prefix_str": expected_text(prefix), "st": st})
            rec["nums"].append([k, len(dicts)])
        for kd in resolve1(d.get("Kids")) or []:
            queue.append(kd)
            rec["kids"].append(len(queue))
            if len(queue) > limit:
                raise Unsupported("number tree too large")
        nodes.append(rec)
    return {"nodes": nodes, "dicts": dicts}


def derive_outlines(doc, limit=20000):
    """the outline hierarchy re-derived through resolve1: items [{title: [bytes] | null, dest, a, first, next, last}]
    (1-based, item 1 = the outline dictionary; 0 = no such link)"""
    if "Outlines" not in doc.catalog:
        return None
    index = {}
    items = []
    queue = [doc.catalog["Outlines"]]

    def idx_of(ref):
        if not isinstance(ref, PDFObjRef):
            raise Unsupported("outline link is not a reference")
        if ref.objid not in index:
            queue.append(ref)
            index[ref.objid] = len(queue)
            if len(queue) > limit:
                raise Unsupported("outline too large")
        return index[ref.objid]

    root = doc.catalog["Outlines"]
    if isinstance(root, PDFObjRef):
        index[root.objid] = 1
    i = 0
    while i < len(queue):
        d = resolve1(queue[i])
        i += 1
        if not isinstance(d, dict):
            d = {}
        t = resolve1(d.get("Title")) if "Title" in d else None
        if t is not None and not isinstance(t, bytes):
            raise Unsupported("outline Title is not a string")
        items.append({"title": list(t) if t is not None else [], "hastitle": t is not None,
                      "title_str": expected_text(t) if t is not None else "", "dest": "Dest" in d, "a": "A" in d,
                      "first": idx_of(d["First"]) if "First" in d else 0, "next": idx_of(d["Next"]) if "Next" in d else 0,
                      "last": "Last" in d})
    return {"items": items}


def derive_name_tree(doc, limit=20000):
    """/Names /Dests re-derived: nodes [{limits: [[bytes],[bytes]] | [], names: [[[bytes], value id]], leaf: bool,
    kids: [idx]}] and the /Dests dictionary [[name code points], value id]; value ids intern repr()"""
    ids = {}

    def vid(v):
        k = repr(v)
        if k not in ids:
            ids[k] = len(ids) + 1
        return ids[k]
    out = {"nodes": [], "dict": [], "hasdict": "Dests" in doc.catalog}
    names = resolve1(doc.catalog.get("Names"))
    root = names.get("Dests") if isinstance(names, dict) else None
    if root is not None:
        queue = [root]
        i = 0
        while i < len(queue):
            d = resolve1(queue[i])
            i += 1
            if not isinstance(d, dict):
                raise Unsupported("name tree node is not a dictionary")
            rec = {"limits": [], "names": [], "leaf": "Names" in d, "kids": []}
            if "Limits" in d:
                lim = [resolve1(x) for x in resolve1(d["Limits"])]
                if len(lim) != 2 or not all(isinstance(x, bytes) for x in lim):
                    raise Unsupported("unusual /Limits")
                rec["limits"] = [list(lim[0]), list(lim[1])]
            if "Names" in d:
                arr = resolve1(d["Names"])
                if len(arr) % 2:
                    raise Unsupported("odd /Names")
                for k, v in zip(arr[0::2], arr[1::2]):
                    k = resolve1(k)
                    if not isinstance(k, bytes):
                        raise Unsupported("name tree key is not a string")
                    rec["names"].append([list(k), vid(v)])
            elif "Kids" in d:
                for kd in resolve1(d["Kids"]):
                    queue.append(kd)
                    rec["kids"].append(len(queue))
                    if len(queue) > limit:
                        raise Unsupported("name tree too large")
            out["nodes"].append(rec)
    if out["hasdict"]:
        d0 = resolve1(doc.catalog["Dests"])
        if isinstance(d0, dict):
            out["dict"] = [[[ord(c) for c in k], vid(v)] for k, v in d0.items()]
    if root is None and not out["hasdict"]:
        return None, vid
    return out, vid


def record_document(data, name, password="", extra_queries=()):
    """-> trace dict for NavTrace.tla"""
    doc = open_doc(data, password)
    npages = sum(1 for _ in PDFPage.create_pages(doc))
    tr = {"name": name, "npages": npages, "labels": [], "outlines": [], "dests": [], "texts": []}
    texts = []
    # ---- page labels
    nt = derive_number_tree(doc)
    if nt is not None:
        old = sys.getrecursionlimit()
        labels = page_labels(doc, npages)
        plabels = [p.label for p in PDFPage.create_pages(open_doc(data, password))]
        if labels is not None:
            nt["out"] = labels
            nt["same_on_pages"] = (plabels == labels)
            tr["labels"] = [nt]
            texts += [bytes(dd["prefix"]) for dd in nt["dicts"]]
    # ---- outlines
    ol = derive_outlines(doc)
    if ol is not None:
        got = []
        try:
            outlines_with_frames(doc, got)
            ol["err"] = "none"
        except RecursionError:
            ol["err"] = "RecursionError"
        ol["out"] = [{"level": lv, "title": t, "dest": d is not None, "a": a is not None, "frames": fr}
                     for (lv, t, d, a, fr) in got]
        tr["outlines"] = [ol]
        for it in ol["items"]:
            if it["hastitle"]:
                texts.append(bytes(it["title"]))
    # ---- named destinations
    nm, vid = derive_name_tree(doc)
    if nm is not None:
        keys = [bytes(k) for n in nm["nodes"] for k, _ in n["names"]]
        qs = [("string", k) for k in keys]
        qs += [("string", k + b"~") for k in keys[:: max(1, len(keys) // 20)]] + [("string", b""), ("string", b"\xff")]
        qs += [("name", "".join(chr(c) for c in k)) for k, _ in nm["dict"]]
        qs += [("name", k.decode("latin-1")) for k in keys[:: max(1, len(keys) // 10)]] + [("name", "nosuchname")]
        qs += list(extra_queries)
        nm["queries"] = []
        for kind, key in qs:
            r = ask_dest(doc, key)
            nm["queries"].append({"kind": kind, "key": list(key) if isinstance(key, bytes) else [ord(c) for c in key],
                                  "res": r[0], "val": vid(r[1]) if r[0] == "value" else 0})
        nm["treevalid"] = tree_valid(nm["nodes"])
        tr["dests"] = [nm]
    tr["texts"] = [{"bytes": list(b), "out": [ord(c) for c in decode_text(b)]} for b in sorted(set(texts))[:400]]
    return tr


def tree_valid(nodes):
    """keys ascending over the whole tree, /Limits exact on every node but the root, none on the root (7.9.6)"""
    def keys(i):
        nd = nodes[i - 1]
        out = [bytes(k) for k, _ in nd["names"]]
        for c in nd["kids"]:
            out += keys(c)
        return out
    if not nodes or nodes[0]["limits"]:
        return False
    allk = keys(1)
    if allk != sorted(set(allk)):
        return False
    for i in range(2, len(nodes) + 1):
        ks = keys(i)
        if not ks or [bytes(x) for x in nodes[i - 1]["limits"]] != [ks[0], ks[-1]]:
            return False
    return True
