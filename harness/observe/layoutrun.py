"""Observation of the real layout analysis (C08 / C09).

* predicates of C08 / C09 evaluated directly on an analysed container of the real code, the arithmetic recomputed
  with fractions.Fraction from the glyph boxes (c08_failures, c09_failures);
* run-time wrappers (installed in this process only, never edited into /repo) that record the grouping decisions of
  one LTLayoutContainer.analyze call: the text objects, the yielded lines, every find_neighbors answer, the boxes
  yielded by group_textlines, every heap operation and group creation of group_textboxes and the final tree;
* trace_of(): the record validated by specs/layout/LayoutTrace.tla - every arithmetic predicate as a boolean fact
  (Fraction-recomputed; where binary64 rounding makes the code's own evaluation differ, the fact is marked
  rounding-sensitive and the code's value is used), coordinates as order-preserving ranks.
"""
from __future__ import annotations

import builtins
import heapq as _heapq
from fractions import Fraction

from pdfminer import layout as L
from pdfminer.layout import (
    LTAnno, LTChar, LTLayoutContainer, LTTextBox, LTTextBoxVertical, LTTextGroup, LTTextGroupTBRL, LTTextLine,
    LTTextLineHorizontal, LTTextLineVertical,
)

from ..tlc import MachineryError

F = Fraction


# ================================================================================================ geometry, twice
class Geo:
    """the documented predicates over boxes (x0, y0, x1, y1); exact=True: rational arithmetic on the exact values of the
    binary64 inputs; exact=False: binary64 arithmetic in the order the library evaluates it"""

    def __init__(self, la, exact=True):
        c = F if exact else float
        self.c = c
        self.exact = exact
        self.lo = c(la.line_overlap)
        self.cm = c(la.char_margin)
        self.wm = c(la.word_margin)
        self.lm = c(la.line_margin)
        self.bf = None if la.boxes_flow is None else c(la.boxes_flow)
        self.dv = bool(la.detect_vertical)

    def b(self, bb):
        c = self.c
        return (c(bb[0]), c(bb[1]), c(bb[2]), c(bb[3]))

    @staticmethod
    def w(a):
        return a[2] - a[0]

    @staticmethod
    def h(a):
        return a[3] - a[1]

    def halign(self, a, b):
        if not (b[1] <= a[3] and a[1] <= b[3]):
            return False
        vov = min(abs(a[1] - b[3]), abs(a[3] - b[1]))
        hov = b[0] <= a[2] and a[0] <= b[2]
        hd = 0 if hov else min(abs(a[0] - b[2]), abs(a[2] - b[0]))
        return min(self.h(a), self.h(b)) * self.lo < vov and hd < max(self.w(a), self.w(b)) * self.cm

    def valign(self, a, b):
        if not (b[0] <= a[2] and a[0] <= b[2]):
            return False
        hov = min(abs(a[0] - b[2]), abs(a[2] - b[0]))
        vo = b[1] <= a[3] and a[1] <= b[3]
        vd = 0 if vo else min(abs(a[1] - b[3]), abs(a[3] - b[1]))
        return min(self.w(a), self.w(b)) * self.lo < hov and vd < max(self.h(a), self.h(b)) * self.cm

    def space(self, o, prev, g):
        """a word space in front of glyph g that follows glyph prev in a line of orientation o"""
        if not self.wm:
            return False
        margin = self.wm * max(self.w(g), self.h(g))
        if o == "H":
            return prev[2] < g[0] - margin
        return g[3] + margin < prev[1]

    # ---- lines -> boxes
    def neighbor(self, o, a, b, ob):
        """the documented neighbour relation: b is found from a (a, b: boxes of lines; o, ob their orientation)"""
        if o != ob:
            return False
        if o == "H":
            d = self.lm * self.h(a)
            q = (a[0], a[1] - d, a[2], a[3] + d)
        else:
            d = self.lm * self.w(a)
            q = (a[0] - d, a[1], a[2] + d, a[3])
        if b[2] <= q[0] or q[2] <= b[0] or b[3] <= q[1] or q[3] <= b[1]:
            return False
        if o == "H":
            return (abs(self.h(b) - self.h(a)) <= d and
                    (abs(b[0] - a[0]) <= d or abs(b[2] - a[2]) <= d or
                     abs((b[0] + b[2]) / 2 - (a[0] + a[2]) / 2) <= d))
        return (abs(self.w(b) - self.w(a)) <= d and
                (abs(b[1] - a[1]) <= d or abs(b[3] - a[3]) <= d or
                 abs((b[1] + b[3]) / 2 - (a[1] + a[3]) / 2) <= d))

    # ---- boxes -> groups
    def dist(self, a, b):
        x0 = min(a[0], b[0])
        y0 = min(a[1], b[1])
        x1 = max(a[2], b[2])
        y1 = max(a[3], b[3])
        return (x1 - x0) * (y1 - y0) - self.w(a) * self.h(a) - self.w(b) * self.h(b)

    def key(self, kind, a):
        if kind == "LRTB":
            return (1 - self.bf) * a[0] - (1 + self.bf) * (a[1] + a[3])
        return -(1 + self.bf) * (a[0] + a[2]) - (1 - self.bf) * a[3]

    @staticmethod
    def nonekey(o, a):
        return (0, -a[2], -a[1]) if o == "V" else (1, -a[1], a[0])


def union(bbs):
    bbs = list(bbs)
    return (min(b[0] for b in bbs), min(b[1] for b in bbs), max(b[2] for b in bbs), max(b[3] for b in bbs))


def ref_lines(geo, boxes):
    """reference lines from the documentation: [(o, [items])]; items: glyph ids (1-based), 0 = word space"""
    n = len(boxes)
    out = []
    s = 0
    while s < n:
        o = "S"
        if s + 1 < n:
            h = geo.halign(boxes[s], boxes[s + 1])
            v = geo.dv and geo.valign(boxes[s], boxes[s + 1])
            o = "H" if h and not v else "V" if v and not h else "S"
        e = s
        if o != "S":
            al = geo.halign if o == "H" else geo.valign
            e = s + 1
            while e + 1 < n and al(boxes[e], boxes[e + 1]):
                e += 1
        oo = "V" if o == "V" else "H"
        items = []
        for j in range(s, e + 1):
            if j > s and geo.space(oo, boxes[j - 1], boxes[j]):
                items.append(0)
            items.append(j + 1)
        out.append((oo, items))
        s = e + 1
    return out


def components(n, edge):
    comp = list(range(n))

    def find(x):
        while comp[x] != x:
            comp[x] = comp[comp[x]]
            x = comp[x]
        return x
    for i in range(n):
        for j in range(n):
            if i != j and edge(i, j):
                comp[find(i)] = find(j)
    groups = {}
    for i in range(n):
        groups.setdefault(find(i), set()).add(i)
    return {frozenset(g) for g in groups.values()}


# ================================================================================================ tree access
def orient(o):
    return "V" if isinstance(o, (LTTextLineVertical, LTTextBoxVertical)) else "H"


def tree_lines(cont):
    """-> (boxes [(box, [lines])], empties [lines], others [objs]) of an analysed container"""
    boxes, empties, others = [], [], []
    for o in cont:
        if isinstance(o, LTTextBox):
            boxes.append((o, list(o)))
        elif isinstance(o, LTTextLine):
            empties.append(o)
        else:
            others.append(o)
    return boxes, empties, others


def analysed(cont, la):
    from pdfminer.layout import LTFigure
    return not (isinstance(cont, LTFigure) and not la.all_texts)


# ================================================================================================ C08 on the real tree
def c08_failures(cont, items, la):
    """items: the container's objects before analysis, in order.  -> [(key, message)] ; empty = C08 holds here"""
    bad = []
    chars = [o for o in items if isinstance(o, LTChar)]
    others0 = [o for o in items if not isinstance(o, LTChar)]
    if not chars or not analysed(cont, la):
        if [builtins.id(o) for o in cont] != [builtins.id(o) for o in items]:
            bad.append(("conservation", "container without text objects (or figure without all_texts) was altered"))
        return bad
    gid = {builtins.id(c): i + 1 for i, c in enumerate(chars)}
    boxes, empties, others = tree_lines(cont)
    # conservation
    seen = []
    for ln in [ln for _, ls in boxes for ln in ls] + empties:
        for o in ln:
            if not isinstance(o, LTAnno):
                seen.append(gid.get(builtins.id(o), 0))
    if sorted(seen) != list(range(1, len(chars) + 1)):
        bad.append(("conservation", "glyph ids in the hierarchy: %r, expected each of 1..%d once" % (sorted(seen), len(chars))))
    if [builtins.id(o) for o in others] != [builtins.id(o) for o in others0]:
        bad.append(("conservation", "non-text items of the container lost, duplicated or reordered"))
    # order of the container: boxes, then other items, then empty lines
    kinds = ["b" if isinstance(o, LTTextBox) else "e" if isinstance(o, LTTextLine) else "o" for o in cont]
    if kinds != sorted(kinds, key="boe".index):
        bad.append(("conservation", "container order is not boxes + other items + empty lines: %s" % "".join(kinds)))
    # bounding boxes
    for ln in [ln for _, ls in boxes for ln in ls] + empties:
        cs = [o for o in ln if not isinstance(o, LTAnno)]
        if not cs or tuple(ln.bbox) != union(c.bbox for c in cs):
            bad.append(("bbox-union", "line bbox %r is not the union of its glyphs" % (ln.bbox,)))
    for bx, ls in boxes:
        if not ls or tuple(bx.bbox) != union(ln.bbox for ln in ls):
            bad.append(("bbox-union", "box bbox %r is not the union of its lines" % (bx.bbox,)))

    def walk(g):
        if isinstance(g, LTTextGroup):
            ch = list(g)
            if tuple(g.bbox) != union(c.bbox for c in ch):
                bad.append(("bbox-union", "group bbox %r is not the union of its members" % (g.bbox,)))
            for c in ch:
                walk(c)
    for g in (cont.groups or ()):
        walk(g)
    # one orientation, newline
    for bx, ls in boxes:
        if any(orient(ln) != orient(bx) for ln in ls):
            bad.append(("orientation", "box holds lines of another orientation"))
    for ln in [ln for _, ls in boxes for ln in ls] + empties:
        objs = list(ln)
        annos = [o.get_text() for o in objs if isinstance(o, LTAnno)]
        if not objs or not isinstance(objs[-1], LTAnno) or objs[-1].get_text() != "\n" or annos.count("\n") != 1:
            bad.append(("newline", "line does not end in exactly one line break: %r" % ln.get_text()))
        if any(a not in (" ", "\n") for a in annos):
            bad.append(("newline", "foreign LTAnno in a line"))
        if orient(ln) == "V" and not la.detect_vertical:
            bad.append(("orientation", "vertical line although detect_vertical is off"))
        ids = [gid.get(builtins.id(o), 0) for o in objs if not isinstance(o, LTAnno)]
        if ids != list(range(ids[0], ids[0] + len(ids))) if ids else True:
            bad.append(("orientation", "glyphs of a line are not consecutive in content order: %r" % ids))
    # line order
    for bx, ls in boxes:
        ks = [(-ln.x1 if orient(bx) == "V" else -ln.y1) for ln in ls]
        if ks != sorted(ks):
            bad.append(("line-order", "lines of a box are not ordered top to bottom / right to left"))
    # indices
    idx = [bx.index for bx, _ in boxes]
    if idx != list(range(len(boxes))):
        bad.append(("index", "text boxes are numbered %r in output order, not 0..%d" % (idx[:12], len(boxes) - 1)))
    # text
    for bx, ls in boxes:
        if bx.get_text() != "".join(ln.get_text() for ln in ls):
            bad.append(("text-concat", "box text is not the concatenation of its lines"))
    for ln in [ln for _, ls in boxes for ln in ls] + empties:
        if ln.get_text() != "".join(o.get_text() for o in ln):
            bad.append(("text-concat", "line text is not the concatenation of its members"))

    def gtext(g):
        if isinstance(g, LTTextGroup) and g.get_text() != "".join(c.get_text() for c in g):
            bad.append(("text-concat", "group text is not the concatenation of its members"))
        if isinstance(g, LTTextGroup):
            for c in g:
                gtext(c)
    for g in (cont.groups or ()):
        gtext(g)
    return bad


# ================================================================================================ C09 on the real tree
def in_bounds(cont, bb):
    return cont.x0 <= bb[0] and cont.y0 <= bb[1] and bb[2] <= cont.x1 and bb[3] <= cont.y1


def column_page(geo, bbs):
    """the hypothesis of the column-order clause (see Layout.tla ColumnPage); bbs: boxes of horizontal text boxes"""
    n = len(bbs)
    for i in range(n):
        for j in range(n):
            if i == j:
                continue
            a, b = bbs[i], bbs[j]
            if a[0] == b[0]:
                if not (a[1] >= b[3] or b[1] >= a[3]):
                    return False
            elif not (a[2] < b[0] or b[2] < a[0]):
                return False
    cols = {}
    for b in bbs:
        cols.setdefault(b[0], []).append(b)
    if len({max(b[3] for b in c) for c in cols.values()}) > 1 or len({min(b[1] for b in c) for c in cols.values()}) > 1:
        return False
    inner = []
    for c in cols.values():
        c = sorted(c, key=lambda b: -b[3])
        inner += [geo.dist(c[i], c[i + 1]) for i in range(len(c) - 1)]
    cross = [geo.dist(a, b) for a in bbs for b in bbs if a[0] != b[0]]
    return not inner or not cross or max(inner) < min(cross)


def c09_failures(cont, items, la, facts=None, bounds=None):
    """-> [(key, message)]; evaluates the documented grouping predicates on the analysed container with exact rational
    arithmetic.  Where that fails but the same predicates evaluated in binary64 (as the library computes them) hold, the
    case is rounding-sensitive (a gap that equals its threshold to the last place): counted in facts["rounding"], not a
    failure - binary64 rounding is outside the property."""
    bad = c09_failures_with(cont, items, la, True, facts, bounds)
    if bad and not c09_failures_with(cont, items, la, False, None, bounds):
        if facts is not None:
            facts["rounding"] = facts.get("rounding", 0) + 1
        return []
    return bad


def c09_failures_with(cont, items, la, exact, facts=None, bounds=None):
    """bounds: the box the container is known to have (a generated page); default: the box the container says it has"""
    bad = []
    chars = [o for o in items if isinstance(o, LTChar)]
    if not chars or not analysed(cont, la):
        return bad
    geo = Geo(la, exact)
    gid = {builtins.id(c): i + 1 for i, c in enumerate(chars)}
    gb = [geo.b(c.bbox) for c in chars]
    boxes, empties, _ = tree_lines(cont)
    all_lines = [ln for _, ls in boxes for ln in ls] + empties

    def shape(ln):
        it = []
        for o in ln:
            if isinstance(o, LTAnno):
                if o.get_text() == " ":
                    it.append(0)
            else:
                it.append(gid.get(builtins.id(o), -9))
        return (orient(ln), it)
    got = sorted((shape(ln) for ln in all_lines), key=lambda s: [x for x in s[1] if x > 0][:1])
    ref = ref_lines(geo, gb)
    strip = lambda ls: [(o, [x for x in it if x > 0]) for o, it in ls]  # noqa: E731
    if strip(got) != strip(ref):
        bad.append(("join-iff", "lines %r, documented margins give %r" % (strip(got)[:6], strip(ref)[:6])))
    elif got != ref:
        bad.append(("space-iff", "word spaces %r, documented word_margin gives %r" % (got[:6], ref[:6])))
    # boxes = connected components of the documented neighbour relation (lines inside the container only)
    tls = [ln for _, ls in boxes for ln in ls]
    inside = (lambda bb: bounds[0] <= bb[0] and bounds[1] <= bb[1] and bb[2] <= bounds[2] and bb[3] <= bounds[3]) \
        if bounds is not None else (lambda bb: in_bounds(cont, bb))
    if tls and all(inside(ln.bbox) for ln in tls):
        lb = [geo.b(ln.bbox) for ln in tls]
        lo = [orient(ln) for ln in tls]
        comps = components(len(tls), lambda i, j: geo.neighbor(lo[i], lb[i], lb[j], lo[j]))
        pos = {builtins.id(ln): i for i, ln in enumerate(tls)}
        part = {frozenset(pos[builtins.id(ln)] for ln in ls) for _, ls in boxes}
        if part != comps:
            bad.append(("box-iff-connected", "boxes %r, connected components of the documented neighbour relation %r"
                        % (sorted(map(sorted, part))[:6], sorted(map(sorted, comps))[:6])))
    # order
    if la.boxes_flow is None:
        ks = [Geo.nonekey(orient(bx), geo.b(bx.bbox)) for bx, _ in boxes]
        if ks != sorted(ks):
            bad.append(("column-order", "boxes_flow=None: boxes are not ordered by their bottom-left corner"))
    else:
        def walk(g):
            if isinstance(g, LTTextGroup):
                kind = "TBRL" if isinstance(g, LTTextGroupTBRL) else "LRTB"
                ks = [geo.key(kind, geo.b(c.bbox)) for c in g]
                if ks != sorted(ks):
                    bad.append(("column-order", "members of a group are not ordered by the boxes_flow weighting"))
                for c in g:
                    walk(c)
        for g in (cont.groups or ()):
            walk(g)
        bbs = [geo.b(bx.bbox) for bx, _ in boxes]
        if len(boxes) > 1 and -1 < geo.bf < 1 and all(orient(bx) == "H" for bx, _ in boxes) and column_page(geo, bbs):
            want = sorted(range(len(bbs)), key=lambda i: (bbs[i][0], -bbs[i][1]))
            if want != list(range(len(bbs))):
                bad.append(("column-order", "column page: boxes are not column by column, top to bottom"))
            if facts is not None:
                facts["colpage"] = True
    return bad


# ================================================================================================ recording wrappers
class Recorder:
    """records the analysis of containers while installed (with Recorder() as rec: ...; rec.runs)"""

    def __init__(self, max_heap_boxes=40):
        self.runs = []
        self.stack = []
        self.max_heap_boxes = max_heap_boxes
        self.saved = []

    # -- installation
    def _patch(self, obj, name, new):
        if not hasattr(obj, name):
            raise MachineryError("wrapper target missing: %s.%s" % (getattr(obj, "__name__", obj), name))
        self.saved.append((obj, name, obj.__dict__.get(name, None), name in obj.__dict__))
        setattr(obj, name, new)

    def __enter__(self):
        rec = self
        o_analyze = LTLayoutContainer.analyze
        o_go = LTLayoutContainer.group_objects
        o_gtl = LTLayoutContainer.group_textlines
        o_gtb = LTLayoutContainer.group_textboxes
        o_fnh = LTTextLineHorizontal.find_neighbors
        o_fnv = LTTextLineVertical.find_neighbors
        o_ginit = LTTextGroup.__init__

        def analyze(self, laparams):
            run = {"cont": self, "la": laparams, "items": list(self), "textobjs": None, "lines": None, "gtl_in": None,
                   "boxes0": None, "nbr": [], "heap": None, "groups": [], "done": False}
            rec.stack.append(run)
            try:
                r = o_analyze(self, laparams)
                run["done"] = True
                return r
            finally:
                rec.stack.pop()
                rec.runs.append(run)

        def group_objects(self, laparams, objs):
            run = rec.stack[-1]
            objs = list(objs)
            run["textobjs"] = objs
            run["lines"] = []
            for ln in o_go(self, laparams, objs):
                run["lines"].append((ln, [o for o in ln]))
                yield ln

        def group_textlines(self, laparams, lines):
            run = rec.stack[-1]
            lines = list(lines)
            run["gtl_in"] = lines
            run["boxes0"] = []
            for bx in o_gtl(self, laparams, lines):
                run["boxes0"].append((bx, list(bx)))
                yield bx

        def fn(orig):
            def find_neighbors(self, plane, ratio):
                res = orig(self, plane, ratio)
                if rec.stack:
                    rec.stack[-1]["nbr"].append((self, list(res)))
                return res
            return find_neighbors

        def group_textboxes(self, laparams, boxes):
            run = rec.stack[-1]
            boxes = list(boxes)
            if len(boxes) <= rec.max_heap_boxes:
                run["heap"] = {"boxes": boxes, "ev": []}
                run["in_gtb"] = True
            try:
                return o_gtb(self, laparams, boxes)
            finally:
                run["in_gtb"] = False

        def ginit(self, objs):
            objs = list(objs)
            if rec.stack and rec.stack[-1].get("in_gtb"):
                rec.stack[-1]["heap"]["ev"].append(("group", self, objs))
            o_ginit(self, objs)

        class HeapProxy:
            @staticmethod
            def heapify(x):
                if rec.stack and rec.stack[-1].get("in_gtb"):
                    rec.stack[-1]["heap"]["ev"].append(("init", [t for t in x]))
                return _heapq.heapify(x)

            @staticmethod
            def heappop(h):
                t = _heapq.heappop(h)
                if rec.stack and rec.stack[-1].get("in_gtb"):
                    rec.stack[-1]["heap"]["ev"].append(("pop", t))
                return t

            @staticmethod
            def heappush(h, t):
                if rec.stack and rec.stack[-1].get("in_gtb"):
                    rec.stack[-1]["heap"]["ev"].append(("push", t))
                return _heapq.heappush(h, t)

        self._patch(LTLayoutContainer, "analyze", analyze)
        self._patch(LTLayoutContainer, "group_objects", group_objects)
        self._patch(LTLayoutContainer, "group_textlines", group_textlines)
        self._patch(LTLayoutContainer, "group_textboxes", group_textboxes)
        self._patch(LTTextLineHorizontal, "find_neighbors", fn(o_fnh))
        self._patch(LTTextLineVertical, "find_neighbors", fn(o_fnv))
        self._patch(LTTextGroup, "__init__", ginit)
        if not hasattr(L, "heapq"):
            raise MachineryError("wrapper target missing: pdfminer.layout.heapq")
        self.saved.append((L, "heapq", L.heapq, True))
        L.heapq = HeapProxy
        return self

    def __exit__(self, *a):
        for obj, name, old, had in reversed(self.saved):
            if had:
                setattr(obj, name, old)
            else:
                delattr(obj, name)
        self.saved = []


# ================================================================================================ trace records
def ranks(values):
    vs = sorted(set(values))
    return {v: i for i, v in enumerate(vs)}


def both(fn_exact, fn_float, counter, what):
    """evaluate a predicate exactly and as the library's binary64 arithmetic does; on disagreement the library's value
    is the fact and the case is counted as rounding-sensitive"""
    e = fn_exact()
    f = fn_float()
    if e != f:
        counter[what] = counter.get(what, 0) + 1
        return f
    return e


def trace_of(run, tid, origin=""):
    """the record for LayoutTrace.tla, or None if the container was not analysed (no text / figure without all_texts)"""
    cont, la = run["cont"], run["la"]
    if run["textobjs"] is None or not run["textobjs"] or not run["done"]:
        return None
    ge, gf = Geo(la, True), Geo(la, False)
    rs = {}
    chars = run["textobjs"]
    n = len(chars)
    gid = {builtins.id(c): i + 1 for i, c in enumerate(chars)}
    be = [ge.b(c.bbox) for c in chars]
    bf_ = [gf.b(c.bbox) for c in chars]
    tr = {"tid": tid, "origin": origin, "n": n, "dv": bool(la.detect_vertical),
          "flow": la.boxes_flow is not None}
    tr["h"] = [both(lambda: ge.halign(be[i], be[i + 1]), lambda: gf.halign(bf_[i], bf_[i + 1]), rs, "halign")
               for i in range(n - 1)]
    tr["v"] = [both(lambda: ge.valign(be[i], be[i + 1]), lambda: gf.valign(bf_[i], bf_[i + 1]), rs, "valign")
               for i in range(n - 1)]
    tr["spH"] = [False] + [both(lambda: ge.space("H", be[i - 1], be[i]), lambda: gf.space("H", bf_[i - 1], bf_[i]), rs, "space")
                           for i in range(1, n)]
    tr["spV"] = [False] + [both(lambda: ge.space("V", be[i - 1], be[i]), lambda: gf.space("V", bf_[i - 1], bf_[i]), rs, "space")
                           for i in range(1, n)]

    def items_of(objs):
        out = []
        for o in objs:
            if isinstance(o, LTAnno):
                t = o.get_text()
                out.append(0 if t == " " else -1 if t == "\n" else -7)
            else:
                out.append(gid.get(builtins.id(o), -9))
        return out
    lines = run["lines"]
    tr["lines"] = [{"o": orient(ln), "it": items_of(objs)} for ln, objs in lines]
    lidx = {builtins.id(ln): i + 1 for i, (ln, _) in enumerate(lines)}

    def empty_fact(ln, objs):
        txt = "".join(o.get_text() for o in objs)
        cs = [o for o in objs if not isinstance(o, LTAnno)]
        u = union(c.bbox for c in cs)
        return u[2] - u[0] <= 0 or u[3] - u[1] <= 0 or txt.isspace()
    tr["emptyF"] = [empty_fact(ln, objs) for ln, objs in lines]
    boxes, empties, others = tree_lines(cont)
    tr["emp"] = [lidx.get(builtins.id(ln), 0) for ln in empties]
    tls = run["gtl_in"] or []
    tidx = {builtins.id(ln): i + 1 for i, ln in enumerate(tls)}
    tr["tl"] = [lidx.get(builtins.id(ln), 0) for ln in tls]
    m = len(tls)
    # neighbours: observed answers, documented relation as facts
    obs = {builtins.id(ln): [tidx.get(builtins.id(x), 0) for x in res] for ln, res in run["nbr"]}
    tr["nbr"] = [obs.get(builtins.id(ln), [-1]) for ln in tls]
    lbe = [ge.b(ln.bbox) for ln in tls]
    lbf = [gf.b(ln.bbox) for ln in tls]
    lor = [orient(ln) for ln in tls]
    inb = all(in_bounds(cont, ln.bbox) for ln in tls)
    tr["inb"] = inb
    if inb and m <= 400:
        def near(i, j):
            # cheap binary64 pre-filter: lines clearly outside the (slightly enlarged) query cannot be neighbours
            a, b = lbf[i], lbf[j]
            d = abs(gf.lm) * max(gf.h(a), gf.w(a)) * 1.001 + 1e-6 * (1 + abs(a[0]) + abs(a[1]) + abs(a[2]) + abs(a[3]))
            return not (b[2] < a[0] - d or a[2] + d < b[0] or b[3] < a[1] - d or a[3] + d < b[1])
        tr["nbrF"] = [[j + 1 for j in range(m)
                       if near(i, j) and both(lambda: ge.neighbor(lor[i], lbe[i], lbe[j], lor[j]),
                                              lambda: gf.neighbor(lor[i], lbf[i], lbf[j], lor[j]), rs, "neighbor")]
                      for i in range(m)]
    else:
        tr["inb"] = False
        tr["nbrF"] = [[] for _ in range(m)]
    tr["boxes0"] = [{"o": orient(bx), "ls": [tidx.get(builtins.id(ln), 0) for ln in ls]} for bx, ls in (run["boxes0"] or [])]
    bidx = {builtins.id(bx): i + 1 for i, (bx, _) in enumerate(run["boxes0"] or [])}
    # line sort keys as ranks (H: -y1, V: -x1), per orientation
    rk = ranks([-ln.y1 for ln in tls] + [-ln.x1 for ln in tls])
    tr["lkey"] = [rk[-ln.x1] if orient(ln) == "V" else rk[-ln.y1] for ln in tls]
    # final tree with rank coordinates
    xs, ys = [], []
    everything = list(chars) + [ln for ln, _ in lines] + [bx for bx, _ in boxes]

    def allgroups(g, acc):
        if isinstance(g, LTTextGroup):
            acc.append(g)
            for c in g:
                allgroups(c, acc)
        return acc
    groups = []
    for g in (cont.groups or ()):
        allgroups(g, groups)
    everything += groups
    for o in everything:
        xs += [o.x0, o.x1]
        ys += [o.y0, o.y1]
    rx, ry = ranks(xs), ranks(ys)

    def rb(o):
        return [rx[o.x0], ry[o.y0], rx[o.x1], ry[o.y1]]
    tr["gb"] = [rb(c) for c in chars]
    out = []
    pos = {builtins.id(o): i + 1 for i, o in enumerate(run["items"])}
    for o in cont:
        if isinstance(o, LTTextBox):
            out.append({"k": "box", "o": orient(o), "idx": o.index, "bb": rb(o), "b0": bidx.get(builtins.id(o), 0),
                        "tok": o.get_text() == "".join(ln.get_text() for ln in o),
                        "ls": [{"o": orient(ln), "it": items_of(list(ln)), "bb": rb(ln), "t": tidx.get(builtins.id(ln), 0),
                                "tok": ln.get_text() == "".join(x.get_text() for x in ln)} for ln in o]})
        elif isinstance(o, LTTextLine):
            out.append({"k": "empty", "o": orient(o), "idx": -1, "bb": rb(o), "b0": 0, "tok": True,
                        "ls": [{"o": orient(o), "it": items_of(list(o)), "bb": rb(o), "t": lidx.get(builtins.id(o), 0),
                                "tok": o.get_text() == "".join(x.get_text() for x in o)}]})
        else:
            out.append({"k": "item", "o": "H", "idx": pos.get(builtins.id(o), 0), "bb": [0, 0, 0, 0], "b0": 0, "tok": True,
                        "ls": []})
    tr["out"] = out
    tr["others"] = [pos[builtins.id(o)] for o in run["items"] if not isinstance(o, LTChar)]
    # group hierarchy: nodes 1..nb are the boxes (group_textlines order), then groups in creation order
    tr["gtb"] = False
    tr["nodes"] = []
    tr["roots"] = []
    tr["ev"] = []
    tr["init"] = []
    if la.boxes_flow is not None:
        nb = len(run["boxes0"] or [])
        node = dict(bidx)
        gl = []
        hp = run["heap"]
        if hp is not None:
            for e in hp["ev"]:
                if e[0] == "group":
                    node[builtins.id(e[1])] = nb + len(gl) + 1
                    gl.append(e[1])
        else:
            for g in groups:
                pass
        if hp is not None and all(builtins.id(g) in node for g in groups):
            kinds = {}
            for bx, _ in run["boxes0"]:
                kinds[node[builtins.id(bx)]] = "BV" if isinstance(bx, LTTextBoxVertical) else "BH"
            nodes = [{"kd": kinds[i + 1], "ch": [], "bb": rb(run["boxes0"][i][0]), "kle": True} for i in range(nb)]
            for g in gl:
                kind = "TBRL" if isinstance(g, LTTextGroupTBRL) else "LRTB"
                ch = list(g)
                ke = [ge.key(kind, ge.b(c.bbox)) for c in ch]
                kf = [gf.key(kind, gf.b(c.bbox)) for c in ch]
                kle = both(lambda: ke == sorted(ke), lambda: kf == sorted(kf), rs, "groupkey")
                nodes.append({"kd": kind, "ch": [node.get(builtins.id(c), 0) for c in ch], "bb": rb(g), "kle": kle})
            tr["nodes"] = nodes
            tr["roots"] = [node.get(builtins.id(g), 0) for g in (cont.groups or ())]
            # heap events; dist as ranks of the binary64 values the code pushed
            dvals = []
            for e in hp["ev"]:
                if e[0] == "init":
                    dvals += [t[1] for t in e[1]]
                elif e[0] in ("pop", "push"):
                    dvals.append(e[1][1])
            dr = ranks(dvals)
            idn = {}
            for bx, _ in run["boxes0"]:
                idn[builtins.id(bx)] = node[builtins.id(bx)]
            for g in gl:
                idn[builtins.id(g)] = node[builtins.id(g)]

            def ent(t):
                # t = (skip, dist, id1, id2, obj1, obj2); the objects identify the nodes
                return [1 if t[0] else 0, dr[t[1]], idn.get(builtins.id(t[4]), 0), idn.get(builtins.id(t[5]), 0)]
            # exactness of dist
            for e in hp["ev"]:
                if e[0] == "push" or e[0] == "init":
                    for t in (e[1] if e[0] == "init" else [e[1]]):
                        if F(t[1]) != ge.dist(ge.b(t[4].bbox), ge.b(t[5].bbox)):
                            rs["dist"] = rs.get("dist", 0) + 1
            live = set(range(1, nb + 1))
            bbs = {idn[builtins.id(bx)]: tuple(bx.bbox) for bx, _ in run["boxes0"]}
            for g in gl:
                bbs[idn[builtins.id(g)]] = tuple(g.bbox)
            evs = []
            cur = None
            for e in hp["ev"]:
                if e[0] == "init":
                    tr["init"] = [ent(t) for t in e[1]]
                elif e[0] == "pop":
                    if cur:
                        evs.append(cur)
                    t = ent(e[1])
                    a, b = t[2], t[3]
                    isany = False
                    if a in live and b in live:
                        u = union([bbs[a], bbs[b]])
                        # objects of the plane strictly overlapping the bounding rectangle (exact: comparisons only);
                        # restricted to the container as the spatial index is
                        for o in live - {a, b}:
                            ob = bbs[o]
                            if not (ob[2] <= u[0] or u[2] <= ob[0] or ob[3] <= u[1] or u[3] <= ob[1]):
                                isany = True
                    cur = {"e": t, "isanyF": isany, "push": [], "g": 0, "gk": "", "gch": [], "dead": not (a in live and b in live)}
                elif e[0] == "push":
                    if cur is None:
                        raise MachineryError("heap push before the first pop")
                    cur["push"].append(ent(e[1]))
                elif e[0] == "group":
                    if cur is None:
                        raise MachineryError("group created before the first pop")
                    g = e[1]
                    cur["g"] = idn[builtins.id(g)]
                    cur["gk"] = "TBRL" if isinstance(g, LTTextGroupTBRL) else "LRTB"
                    cur["gch"] = [idn.get(builtins.id(c), 0) for c in e[2]]
                    live -= set(cur["gch"])
                    live.add(cur["g"])
            if cur:
                evs.append(cur)
            tr["ev"] = evs
            tr["gtb"] = True
            tr["allin"] = all(in_bounds(cont, bb) for bb in bbs.values())
    tr.setdefault("allin", False)
    tr["rounding"] = rs
    return tr
