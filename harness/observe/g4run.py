"""C19: drive the real Group 4 decoder, with run-time observation wrappers (nothing in /repo is edited)."""
import logging

logging.disable(logging.CRITICAL)

from ..tlc import MachineryError  # noqa: E402

try:
    from pdfminer import ccitt as C
    from pdfminer.ccitt import CCITTFaxDecoder, CCITTG4Parser, ccittfaxdecode
    for _a in ("_do_vertical", "_do_pass", "_do_horizontal", "_flush_line", "_parse_mode", "feedbytes", "_parse_bit"):
        if not hasattr(CCITTG4Parser, _a):
            raise AttributeError("CCITTG4Parser." + _a)
    if not hasattr(CCITTFaxDecoder, "output_line") or not hasattr(C.BitParser, "add"):
        raise AttributeError("CCITTFaxDecoder.output_line / BitParser.add")
except (ImportError, AttributeError) as e:
    raise MachineryError("C19 anchors missing in pdfminer.ccitt: %r" % (e,))

from ..realise import t6  # noqa: E402


def decode(data, w, align, blackis1, omit_false=False, extra=None):
    """ccittfaxdecode with the PDF parameter dictionary -> (bytes | None, exception name | None)
    extra: further legal entries of the dictionary (/Rows, /EndOfLine, /EndOfBlock, /DamagedRowsBeforeError)"""
    params = {"K": -1, "Columns": w}
    params.update(extra or {})
    if align or not omit_false:
        params["EncodedByteAlign"] = bool(align)
    if blackis1 or not omit_false:
        params["BlackIs1"] = bool(blackis1)
    try:
        return ccittfaxdecode(data, params), None
    except BaseException as e:  # noqa: B902 - whatever the decoder raises is the observation
        return None, type(e).__name__


class Recorder:
    """wraps the mode steps and output_line of the decoder classes in this process; one event list per install()"""

    def __init__(self, snap=False):
        self.ev = []
        self.snap = snap          # also keep a copy of the coding line after every mode step (small widths only)
        self._saved = []

    def install(self):
        ev = self.ev
        P = CCITTG4Parser
        snap = self.snap

        def line(s):
            return {"cur": list(s._curline)} if snap else {}

        def wrap(cls, name, after):
            orig = cls.__dict__[name]
            self._saved.append((cls, name, orig))

            def w(self_, *a):
                try:
                    return orig(self_, *a)
                finally:
                    after(self_, *a)
            setattr(cls, name, w)

        blank = {"d": 0, "n1": 0, "n2": 0, "pos": 0, "col": 0, "y": 0, "ch": []}
        wrap(P, "_do_vertical", lambda s, dx: ev.append(dict(blank, m="v", d=dx, pos=s._curpos, col=s._color, **line(s))))
        wrap(P, "_do_pass", lambda s: ev.append(dict(blank, m="p", pos=s._curpos, col=s._color, **line(s))))
        wrap(P, "_do_horizontal", lambda s, n1, n2: ev.append(dict(blank, m="h", n1=n1, n2=n2, pos=s._curpos, col=s._color, **line(s))))
        # output_line receives the internal row (1 = white) before polarity/packing
        wrap(CCITTFaxDecoder, "output_line", lambda s, y, bits: ev.append(dict(blank, m="line", y=y, ch=t6.changes(list(bits)))))
        return self

    def uninstall(self):
        for cls, name, orig in reversed(self._saved):
            setattr(cls, name, orig)
        self._saved = []


def steps_of_row(ref_row, syms, w):
    """Feed [reference row coded horizontally] + [syms] to a real CCITTG4Parser and snapshot it after every mode step
    of the second row.  -> (snapshots [(pos, color, curline)], output rows [(y, bits)], exception name | None)"""
    rows_out = []

    class P(CCITTG4Parser):
        def output_line(self, y, bits):
            rows_out.append((y, list(bits)))

    first = t6.encode([ref_row], w, t6.STRATEGIES["honly"](None))[0]
    data = t6.assemble([t6.bits_of_row(first), t6.bits_of_row(syms)], align=False)
    rec = Recorder(snap=True).install()
    err = None
    try:
        p = P(w)
        p.feedbytes(data)
    except BaseException as e:  # noqa: B902
        err = type(e).__name__
    finally:
        rec.uninstall()
    return rec.ev[len(first):], rows_out, err


def generic_prefix_decode(code, end, msg, align, data):
    """PrefixCode.tla on the real BitParser/feedbytes: a parser whose MODE trie is `code` (built with the real
    BitParser.add), whose accept callback records the symbol, signals ByteSkip after an item flagged eol and EOFB on
    `end`.  -> (symbols, exception name | None)"""
    trie = [None, None]
    for sym, word in code.items():
        C.BitParser.add(trie, sym, "".join(map(str, word)))
    got = []

    class P(CCITTG4Parser):
        MODE = trie

        def _parse_mode(self, v):
            if v == end:
                raise self.EOFB
            if v is None:
                raise self.InvalidData(v)
            got.append(v)
            k = len(got) - 1
            if self.bytealign and k < len(msg) and msg[k]["eol"]:
                raise self.ByteSkip
            return self.MODE

    err = None
    try:
        p = P(8, bytealign=align)
        p.feedbytes(data)
    except BaseException as e:  # noqa: B902
        err = type(e).__name__
    return got, err
