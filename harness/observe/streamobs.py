"""Observation of the real stream decoders (C03, binding B) - installed at run time, /repo is not edited.

* LZW: LZWDecoder.feed is wrapped; one event per code (code, width it was read with, table length after,
  bytes put out).
* apply_png_predictor / apply_tiff_predictor are observed at function entry and exit only: the per-row events are
  the returned bytes cut at the row length of the standard (no assumption about the loops inside).
* rldecode is a single function with a loop inside; its iterations are observed with a sys.monitoring LINE event
  on one anchor line when that line exists, otherwise the run events are derived from the result (noted in
  evidence as a degraded observation) - a rewritten function body must end in a verdict, not in a machinery failure.
* PDFStream.decode: the decoder names it calls, in order, are recorded by wrapping the names it looks up in
  pdfminer.pdftypes.
"""
from __future__ import annotations

import inspect
import sys
from contextlib import contextmanager

from ..tlc import MachineryError

import pdfminer.lzw as _lzw
import pdfminer.pdftypes as _pdftypes
import pdfminer.runlength as _runlength
import pdfminer.utils as _utils

TOOL = 4


# ------------------------------------------------------------------------------------------------ LZW
def lzw_events(enc, ec=1, direct=False):
    """-> (decoded bytes or None, exception name or None, [ {c, w, t, o} ... ])
    The data is decoded the way a document's stream is: PDFStream({/Filter /LZWDecode [/DecodeParms
    << /EarlyChange 0 >>]}).get_data(); direct=True calls lzwdecode(enc) instead (ec = 1 only)."""
    cls = _lzw.LZWDecoder
    if not hasattr(cls, "feed") or not hasattr(cls, "run"):
        raise MachineryError("LZWDecoder.feed/run not found")
    orig = cls.feed
    ev = []

    def feed(self, code):
        nb = self.nbits
        n0 = len(ev)
        try:
            x = orig(self, code)
        except BaseException as e:
            ev.append({"c": code, "w": nb, "t": len(self.table), "o": 0, "exc": type(e).__name__})
            raise
        if len(ev) == n0:
            ev.append({"c": code, "w": nb, "t": len(self.table), "o": len(x)})
        return x

    cls.feed = feed
    try:
        try:
            if direct and ec == 1:
                out = _lzw.lzwdecode(enc)
            else:
                from pdfminer.psparser import LIT
                attrs = {"Filter": LIT("LZWDecode")}
                if ec != 1:
                    attrs["DecodeParms"] = {"EarlyChange": ec}
                out = _pdftypes.PDFStream(attrs, enc).get_data()
            return out, None, ev
        except Exception as e:       # noqa: BLE001 - reported to the caller
            return None, type(e).__name__, ev
    finally:
        cls.feed = orig


# ------------------------------------------------------------------------------------------------ loop anchors
def _anchor(func, text):
    try:
        lines, first = inspect.getsourcelines(func)
    except (OSError, TypeError) as e:
        raise MachineryError("cannot read the source of %s: %s" % (getattr(func, "__name__", func), e))
    hits = [first + i for i, ln in enumerate(lines) if text in ln]
    if len(hits) != 1:
        raise MachineryError("observation anchor %r found %d times in %s" % (text, len(hits), func.__name__))
    return hits[0]


@contextmanager
def _line_hook(func, text, on_hit):
    """call on_hit(frame) each time the anchor line of func is about to run"""
    mon = sys.monitoring
    code = func.__code__
    line = _anchor(func, text)
    try:
        mon.use_tool_id(TOOL, "verif-c03")
    except ValueError as e:
        raise MachineryError("sys.monitoring tool id busy: %s" % e)

    def cb(c, ln):
        if c is not code or ln != line:
            return mon.DISABLE
        on_hit(sys._getframe(1))
        return None

    mon.register_callback(TOOL, mon.events.LINE, cb)
    mon.set_local_events(TOOL, code, mon.events.LINE)
    try:
        yield
    finally:
        mon.set_local_events(TOOL, code, 0)
        mon.register_callback(TOOL, mon.events.LINE, None)
        mon.free_tool_id(TOOL)
        mon.restart_events()


DEGRADED = set()      # observations that had to fall back from loop events to results (reported as a note)


def _rl_from_result(enc, out):
    """run events derived from the result alone: walk the encoded data run by run and attribute to each run the
    slice of the real output it accounts for (None if the output does not have that shape)"""
    ev = []
    pos = 0
    done = 0
    while pos < len(enc) and enc[pos] != 128:
        L = enc[pos]
        o = L + 1 if L < 128 else 257 - L
        used = L + 2 if L < 128 else 2
        if pos + used > len(enc) or done + o > len(out):
            return None
        ev.append({"L": L, "o": o})
        pos += used
        done += o
    return ev if done == len(out) else None


def rl_events(enc):
    """-> (decoded or None, exc name or None, [ {L, o} per run ])
    The iterations of the loop inside rldecode are observed on one source line when that line exists; when the
    function has another shape the events are derived from its result (function entry / exit only)."""
    func = _runlength.rldecode
    state = {"seen": 0, "out": 0}
    ev = []

    def hit(fr):
        loc = fr.f_locals
        n = len(loc["decoded_array"])
        if state["seen"]:
            ev.append({"L": loc["length"], "o": n - state["out"]})
        state["seen"] += 1
        state["out"] = n

    try:
        hook = _line_hook(func, "length = next(data_iter", hit)
        hook.__enter__()
    except MachineryError:
        hook = None
        DEGRADED.add("rldecode")
    try:
        try:
            out = func(enc)
        except Exception as e:   # noqa: BLE001
            return None, type(e).__name__, ev
    finally:
        if hook is not None:
            hook.__exit__(None, None, None)
    if hook is None or (not ev and out):
        if hook is not None:
            DEGRADED.add("rldecode")
        ev = _rl_from_result(enc, out) or []
    return out, None, ev


def _rows_from_result(out, enc, rowlen, png):
    """per scan line what the function returned for it (and, for PNG, the filter type byte of the input row)"""
    if rowlen <= 0 or len(out) % rowlen:
        return [{"off": 0, "ty": 0, "raw": list(out)}]
    step = rowlen + 1 if png else rowlen
    return [{"off": r * step, "ty": enc[r * step] if png and r * step < len(enc) else 0,
             "raw": list(out[r * rowlen:(r + 1) * rowlen])} for r in range(len(out) // rowlen)]


def png_events(pred, colors, columns, bits, enc):
    """-> (decoded or None, exc name or None, [ {off, ty, raw} per scan line ])
    observed at function entry / exit: the rows are the result cut at the row length of the standard"""
    func = _utils.apply_png_predictor
    try:
        out = func(pred, colors, columns, bits, enc)
    except Exception as e:   # noqa: BLE001
        return None, type(e).__name__, []
    return out, None, _rows_from_result(out, enc, (colors * columns * bits + 7) // 8, True)


def tiff_events(colors, columns, bits, enc):
    func = _utils.apply_tiff_predictor
    try:
        out = func(colors, columns, bits, enc)
    except Exception as e:   # noqa: BLE001
        return None, type(e).__name__, []
    return out, None, _rows_from_result(out, enc, (colors * columns * bits + 7) // 8, False)


# ------------------------------------------------------------------------------------------------ PDFStream.decode
_NAMES = {"lzwdecode": "LZW", "ascii85decode": "A85", "asciihexdecode": "AHx", "rldecode": "RL",
          "apply_png_predictor": "png", "apply_tiff_predictor": "tiff", "ccittfaxdecode": "CCF"}


class _ZlibProxy:
    def __init__(self, real, log):
        self._real = real
        self._log = log

    def decompress(self, *a, **k):
        self._log.append("Fl")
        return self._real.decompress(*a, **k)

    def __getattr__(self, n):
        return getattr(self._real, n)


@contextmanager
def decode_calls():
    """with decode_calls() as log:  ... stream.get_data() ...   log = list of decoder names called"""
    log = []
    saved = {}
    for n in list(_NAMES) + ["zlib"]:
        if not hasattr(_pdftypes, n):
            raise MachineryError("pdfminer.pdftypes.%s not found (decode observation)" % n)
        saved[n] = getattr(_pdftypes, n)

    def wrap(fn, tag):
        def w(*a, **k):
            # observed at function entry: the codec and the parameter PDFStream.decode hands to it
            if tag == "LZW":
                ec = a[1] if len(a) > 1 else k.get("early_change", 1)
                log.append("LZW0" if ec == 0 else "LZW")
            elif tag == "CCF":
                prm = a[1] if len(a) > 1 else k.get("params")
                kk = prm.get("K") if isinstance(prm, dict) else None
                log.append("CCF" if kk == -1 else "CCF?")
            else:
                log.append(tag)
            return fn(*a, **k)
        return w

    try:
        for n, tag in _NAMES.items():
            setattr(_pdftypes, n, wrap(saved[n], tag))
        _pdftypes.zlib = _ZlibProxy(saved["zlib"], log)
        yield log
    finally:
        for n, v in saved.items():
            setattr(_pdftypes, n, v)


def attrs_shape(attrs, depth=0):
    """the filter-related entries of a real stream dictionary as the [t, v] values of FilterChainOps"""
    from pdfminer.pdftypes import PDFObjRef
    from pdfminer.psparser import PSLiteral

    def conv(v, d):
        if d > 6:
            raise MachineryError("reference chain too deep in a stream dictionary")
        if isinstance(v, PDFObjRef):
            return {"t": "ref", "v": conv(v.resolve(), d + 1)}
        if isinstance(v, PSLiteral):
            n = v.name
            return {"t": "name", "v": n if isinstance(n, str) else n.decode("latin-1")}
        if isinstance(v, bool):
            return {"t": "bool", "v": int(v)}
        if isinstance(v, int):
            return {"t": "int", "v": v}
        if v is None:
            return {"t": "null", "v": 0}
        if isinstance(v, (list, tuple)):
            return {"t": "arr", "v": [conv(x, d + 1) for x in v]}
        if isinstance(v, dict):
            return {"t": "dict", "v": {k: conv(x, d + 1) for k, x in v.items()
                                       if isinstance(x, (int, PDFObjRef)) and not isinstance(x, bool)}}
        return {"t": "other", "v": 0}

    return {k: conv(attrs[k], depth) for k in ("F", "Filter", "DP", "DecodeParms", "FDecodeParms") if k in attrs}
