"""C13: run the three extraction entry points on one (damaged) document under the work meter and classify the outcome.

The budget is  K * len(input) + C  executed lines (see BUDGET_K / BUDGET_C; calibrated in notes/C13.md: the undamaged
seeds need 15-60 lines per input byte, the costliest damaged-but-terminating run seen needs < 400).
"""
from __future__ import annotations

import io
import logging

from .workmeter import Meter, classify

BUDGET_K = 400
BUDGET_C = 400_000
CPU_LIMIT = 30          # CPU seconds (user + system) per entry point; backs the line budget up inside C functions

ENTRIES = ("extract_text", "extract_pages", "extract_text_to_fp:xml")


def budget_for(data):
    return BUDGET_K * len(data) + BUDGET_C


def _entry(name, data, password="", caching=True):
    """caching: the option every entry point has for the object / resource caches (extract_text and extract_pages call
    it caching, extract_text_to_fp disable_caching); with it off getobj re-reads objects on every request"""
    from pdfminer.high_level import extract_pages, extract_text, extract_text_to_fp
    if name == "extract_text":
        return lambda: extract_text(io.BytesIO(data), password=password, caching=caching)
    if name == "extract_pages":
        def go():
            n = 0
            txt = []
            for page in extract_pages(io.BytesIO(data), password=password, caching=caching):
                n += 1
                txt.append(_page_text(page))
            return "\f".join(txt)
        return go
    if name == "extract_text_to_fp:xml":
        def go():
            out = io.BytesIO()
            extract_text_to_fp(io.BytesIO(data), out, output_type="xml", password=password, disable_caching=not caching)
            return out.getvalue()
        return go
    raise ValueError(name)


def _page_text(o):
    from pdfminer.layout import LTChar, LTContainer
    if isinstance(o, LTChar):
        return o.get_text()
    if isinstance(o, LTContainer):
        return "".join(_page_text(c) for c in o)
    return ""


_meter = None


def run_all(data, password="", caching=True, budgets=None):
    """-> list of (entry, outcome class, lines, digest-able result or exception text)
    budgets: optional per-entry line budgets replacing K * len + C (the scaling check)"""
    global _meter
    if _meter is None:
        _meter = Meter()
        logging.disable(logging.CRITICAL)
    out = []
    b = budget_for(data)
    for i, e in enumerate(ENTRIES):
        if budgets is not None:
            b = budgets[i]
        res, exc = _meter.run(_entry(e, data, password, caching), b, cpu=CPU_LIMIT)
        oc = classify(_meter, exc)
        detail = res if exc is None else "%s: %s" % (type(exc).__name__, str(exc)[:200])
        out.append((e, oc, _meter.count, detail))
    return out
