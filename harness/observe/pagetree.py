"""Observation of the real page-tree code (C04): projections used by the replay (binding A) and the
recorder of traces for specs/pages/PageTreeTrace.tla and PageGeomTrace.tla (binding B).

Nothing in /repo is edited: the recorder calls the public API and reads public attributes; the one wrapper
(device.begin_page, to see the matrix process_page hands over) is installed on an object the harness creates."""
from __future__ import annotations

from fractions import Fraction
from io import BytesIO

from ..tlc import MachineryError

try:
    from pdfminer.converter import PDFPageAggregator
    from pdfminer.layout import LTChar
    from pdfminer.pdfdocument import PDFDocument
    from pdfminer.pdfinterp import PDFPageInterpreter, PDFResourceManager
    from pdfminer.pdfpage import LITERAL_PAGE, LITERAL_PAGES, PDFPage
    from pdfminer.pdfparser import PDFParser
    from pdfminer.pdftypes import PDFObjRef, resolve1
    from pdfminer import settings
    PDFPage.create_pages, PDFPage.get_pages, PDFPageInterpreter.process_page, PDFPageAggregator.begin_page
except (ImportError, AttributeError) as e:       # a name the harness reads is gone: machinery, not a verdict
    raise MachineryError("C04 observation target missing: %r" % (e,))

INHERITABLE = ("Resources", "MediaBox", "CropBox", "Rotate")
RECORDED = INHERITABLE + ("Annots",)        # Annots: recorded as well, never inherited


def open_doc(data, password=""):
    fp = data if hasattr(data, "read") else BytesIO(data)
    return PDFDocument(PDFParser(fp), password=password)


def chars_of(ltpage):
    out = []

    def walk(o):
        if isinstance(o, LTChar):
            out.append((o.get_text(), tuple(o.matrix), o.fontname))
        elif hasattr(o, "__iter__"):
            for x in o:
                walk(x)
    walk(ltpage)
    return out


# ------------------------------------------------------------------------------------------------ binding B
class _Interner:
    def __init__(self):
        self.ids = {}

    def __call__(self, v):
        if v is None:
            return 0
        k = repr(v)
        if k not in self.ids:
            self.ids[k] = len(self.ids) + 1
        return self.ids[k]


class Unsupported(Exception):
    """the document is outside C04's domain (e.g. a /Kids element that is not a reference: C13)"""


def derive_tree(doc, limit=5000):
    """Re-derives the document graph through getobj only.  Labels are assigned breadth first (root = 1) - on
    purpose not in the order of the walk under test."""
    vid = _Interner()
    root = doc.catalog.get("Pages")
    if not isinstance(root, PDFObjRef):
        raise Unsupported("catalog /Pages is not a reference")
    label_of = {root.objid: 1}
    order = [root.objid]
    nodes = []
    i = 0
    while i < len(order):
        objid = order[i]
        i += 1
        try:
            d = doc.getobj(objid)
        except Exception:
            d = None
        rec = {"kind": "Other", "vals": {a: 0 for a in RECORDED}, "kids": []}
        if isinstance(d, dict):
            t = d.get("Type")
            if t is None and not settings.STRICT:
                t = d.get("type")
            for a in RECORDED:
                rec["vals"][a] = vid(d.get(a))
            if t is LITERAL_PAGE:
                rec["kind"] = "Page"
            elif t is LITERAL_PAGES and "Kids" in d:
                rec["kind"] = "Pages"
                kids = resolve1(d["Kids"])
                if not isinstance(kids, list):
                    raise Unsupported("/Kids is not an array")
                for kd in kids:
                    if not isinstance(kd, PDFObjRef):
                        raise Unsupported("/Kids element is not a reference")
                    if kd.objid not in label_of:
                        label_of[kd.objid] = len(order) + 1
                        order.append(kd.objid)
                        if len(order) > limit:
                            raise Unsupported("more than %d nodes" % limit)
                    rec["kids"].append(label_of[kd.objid])
            elif t is LITERAL_PAGES:
                rec["kind"] = "Pages"
        nodes.append(rec)
    cat = {a: vid(doc.catalog.get(a)) for a in RECORDED}
    return nodes, cat, label_of, vid


def _milli(x):
    """a number as an integer count of 1/1000; None if it is not exact in that unit (or too large for TLC)"""
    f = Fraction(x) * 1000
    if f.denominator != 1 or abs(f.numerator) > 10 ** 8:
        return None
    return int(f)


class _NoContents(PDFPageInterpreter):
    """process_page as it is, but the content streams are not interpreted (C04 is about the page set-up)"""

    def render_contents(self, resources, streams, ctm=None):
        return


def geometry_events(doc, pages, interpret=False):
    """one event per page for PageGeomTrace.tla; -> (events, skipped)"""
    rsrc = PDFResourceManager()
    dev = PDFPageAggregator(rsrc, laparams=None)
    seen = []
    orig = dev.begin_page

    def begin_page(page, ctm):
        seen.append(tuple(ctm))
        return orig(page, ctm)
    dev.begin_page = begin_page
    interp = (PDFPageInterpreter if interpret else _NoContents)(rsrc, dev)
    events = []
    skipped = 0
    for page in pages:
        raw = page.attrs.get("MediaBox")
        try:
            boxw = [resolve1(v) for v in resolve1(raw)] if raw is not None else None
        except TypeError:
            boxw = None
        rraw = resolve1(page.attrs.get("Rotate", 0))
        del seen[:]
        interp.process_page(page)
        lt = dev.get_result()
        if boxw is None or len(boxw) != 4 or not all(isinstance(v, (int, float)) for v in boxw) \
                or not isinstance(rraw, int) or abs(rraw) > 10 ** 6 or len(seen) != 1:
            skipped += 1
            continue
        ev = {"boxw": [_milli(v) for v in boxw], "mediabox": [_milli(v) for v in page.mediabox], "rraw": rraw,
              "rotate": page.rotate, "bbox": [_milli(v) for v in lt.bbox],
              "ctm": [_milli(v) if j >= 4 else (int(v) if float(v).is_integer() else None)
                      for j, v in enumerate(seen[0])]}
        if any(v is None for key in ("boxw", "mediabox", "bbox", "ctm") for v in ev[key]):
            skipped += 1
            continue
        events.append(ev)
    return events, skipped


def record_document(data, name, selections, password="", interpret=False):
    """-> trace dict for PageTreeTrace.tla (+ 'geom' events) or raises Unsupported"""
    doc = open_doc(data, password)
    if "Pages" not in doc.catalog:
        raise Unsupported("no /Pages")
    nodes, cat, label_of, vid = derive_tree(doc)
    pages = list(PDFPage.create_pages(doc))
    if not pages:
        # create_pages falls back to scanning the cross-reference table when the tree yields nothing: not C04
        pass
    evs = []
    for p in pages:
        if p.pageid not in label_of:
            raise Unsupported("page %r was not reached through the tree (fallback scan)" % (p.pageid,))
        vals = {a: vid(p.attrs.get(a)) for a in INHERITABLE}
        vals["Annots"] = vid(p.annots)
        evs.append({"node": label_of[p.pageid], "vals": vals})
    index_of = {p.pageid: i for i, p in enumerate(pages)}
    sels = []
    for pagenos, maxpages in selections:
        fp = data if hasattr(data, "read") else BytesIO(data)
        fp.seek(0)
        got = [index_of[p.pageid] for p in PDFPage.get_pages(fp, pagenos or None, maxpages=maxpages, password=password)]
        sels.append({"pagenos": sorted(pagenos), "maxpages": maxpages, "yielded": got})
    geom, skipped = geometry_events(doc, pages, interpret)
    return {"name": name, "tree": nodes, "cat": cat, "pages": evs, "sels": sels, "geom": geom, "geom_skipped": skipped}
