"""Work meter for C13: runs a callable under an executed-line counter with a hard budget.

* every executed Python line (sys.monitoring LINE event, all code - pdfminer, stdlib) counts one unit;
* when the budget is exhausted the run is observed for WINDOW more lines, recording the shallowest pdfminer frame that
  stays on the stack (the frame that owns the loop which does not end), then a private BaseException subclass is
  raised inside the running code (library `except Exception` clauses cannot swallow it);
* every RecursionError raised anywhere during the run is noticed (RAISE event), including those a library
  `except Exception:` swallows;
* a CPU-time alarm (ITIMER_PROF / SIGPROF: user + system time of this process, so work inside C functions counts, while
  machine load - time spent waiting for a core - does not) backs the line budget up.

classify() maps the outcome to  ok | family | leak:<Exc>@<file>:<func> | hang:<file>:<func> | recursion:<file>:<func>.
"""
from __future__ import annotations

import os
import signal
import sys

from ..tlc import MachineryError

TOOL = 3
WINDOW = 6000
mon = sys.monitoring
EV = mon.events


class BudgetExceeded(BaseException):
    """raised inside the metered code when the executed-line budget (or the CPU-time limit) is exhausted"""


def _pdfminer_dir():
    import pdfminer
    return os.path.dirname(os.path.abspath(pdfminer.__file__)) + os.sep


PKG = None


def _site(code):
    name = code.co_name
    if name.startswith("<"):
        # <genexpr>, <listcomp>, <lambda>: named after the function they are written in
        outer = [p for p in code.co_qualname.split(".") if not p.startswith("<")]
        name = outer[-1] if outer else name
    return "%s:%s" % (os.path.basename(code.co_filename), name)


def _depth_and_frames(frame):
    """-> (depth, list of pdfminer frames innermost first)"""
    out = []
    d = 0
    while frame is not None:
        d += 1
        out.append(frame)
        frame = frame.f_back
    return d, out


class Meter:
    def __init__(self):
        global PKG
        if PKG is None:
            PKG = _pdfminer_dir()
        self.count = 0
        self.budget = 0
        self.over = 0
        self.recursion = None       # site of the first RecursionError seen
        self.hang_site = None
        self._stack = []
        self._sampled = False
        self._rec_exc = None

    # ------------------------------------------------------------------ monitoring callbacks
    def _line(self, code, lineno):
        self.count += 1
        if self.count > self.budget:
            self._over_budget()

    def _over_budget(self):
        self.over += 1
        if self.over % 25 != 1 and self.over < WINDOW:
            return              # the stack is sampled every 25th line of the window (deep stacks are costly to walk)
        f = sys._getframe(2)
        # stack as list outermost-first of pdfminer frames with their depth
        chain = []
        while f is not None:
            chain.append(f)
            f = f.f_back
        chain.reverse()
        ids = [(i, fr) for i, fr in enumerate(chain) if fr.f_code.co_filename.startswith(PKG)]
        if self.over == 1 or not self._sampled:
            self._sampled = True
            self._stack = [(i, id(fr), _site(fr.f_code)) for i, fr in ids]
        else:
            # keep the common prefix: frames that were on the stack at every observation since the budget ran out
            cur = [(i, id(fr), _site(fr.f_code)) for i, fr in ids]
            n = 0
            # (frame objects are recycled: the same id at the same depth may be another function's frame)
            while n < len(cur) and n < len(self._stack) and cur[n] == self._stack[n]:
                n += 1
            self._stack = self._stack[:n]
        if self.over >= WINDOW:
            self.hang_site = self._stack[-1][2] if self._stack else "?:?"
            mon.set_events(TOOL, 0)
            raise BudgetExceeded("line budget %d exhausted" % self.budget)

    def _raise(self, code, offset, exc):
        # (nothing is computed here: the interpreter is at its recursion limit)
        if self._rec_exc is None and isinstance(exc, RecursionError):
            self._rec_exc = exc

    def _alarm(self, signum, frame):
        self.hang_site = self.hang_site or ("cpu:" + innermost_site_of_frame(frame))
        raise BudgetExceeded("CPU time limit")

    # ------------------------------------------------------------------ run
    def run(self, fn, budget, cpu=30):
        """-> (result or None, exception or None).  BudgetExceeded is returned as the exception."""
        self.count = 0
        self.budget = budget
        self.over = 0
        self.recursion = None
        self.hang_site = None
        self._stack = []
        self._sampled = False
        self._rec_exc = None
        try:
            mon.use_tool_id(TOOL, "verif-c13")
        except ValueError:
            pass
        mon.register_callback(TOOL, EV.LINE, self._line)
        mon.register_callback(TOOL, EV.RAISE, self._raise)
        # CPU seconds of this process, never wall-clock time: a loaded machine must not turn a slow run into a hang
        old = signal.signal(signal.SIGPROF, self._alarm)
        signal.setitimer(signal.ITIMER_PROF, cpu)
        res = exc = None
        try:
            mon.set_events(TOOL, EV.LINE | EV.RAISE)
            try:
                res = fn()
            finally:
                mon.set_events(TOOL, 0)
                signal.setitimer(signal.ITIMER_PROF, 0)
        except BudgetExceeded as e:
            exc = e
        except BaseException as e:      # noqa: BLE001 - the outcome is what is being classified
            if isinstance(e, (KeyboardInterrupt, SystemExit)):
                raise
            exc = e
        finally:
            signal.signal(signal.SIGPROF, old)
            mon.register_callback(TOOL, EV.LINE, None)
            mon.register_callback(TOOL, EV.RAISE, None)
        if self._rec_exc is not None:
            # the traceback of a swallowed exception reaches from where it was raised to where it was caught
            self.recursion = recursion_site(self._rec_exc.__traceback__)
            self._rec_exc = None
        return res, exc


def innermost_site_of_frame(frame):
    global PKG
    if PKG is None:
        PKG = _pdfminer_dir()
    while frame is not None:
        if frame.f_code.co_filename.startswith(PKG):
            return _site(frame.f_code)
        frame = frame.f_back
    return "?:?"


def innermost_site(tb):
    """file:function of the innermost pdfminer frame of a traceback ('?:?' when none)"""
    global PKG
    if PKG is None:
        PKG = _pdfminer_dir()
    site = "?:?"
    while tb is not None:
        c = tb.tb_frame.f_code
        # (PDFStream.__getitem__ is a one-line wrapper around a dictionary lookup: its caller names the defect)
        if c.co_filename.startswith(PKG) and c.co_name != "__getitem__":
            site = _site(c)
        tb = tb.tb_next
    return site


def recursion_site(tb, frame=None):
    """canonical site of a recursion: among the pdfminer functions on the stack, those that occur (almost) most often
    form the cycle; the alphabetically first of them names it."""
    global PKG
    if PKG is None:
        PKG = _pdfminer_dir()
    cnt = {}
    while tb is not None:
        c = tb.tb_frame.f_code
        if c.co_filename.startswith(PKG):
            s = _site(c)
            cnt[s] = cnt.get(s, 0) + 1
        tb = tb.tb_next
    n = 0
    while frame is not None and n < 3000:
        c = frame.f_code
        if c.co_filename.startswith(PKG):
            s = _site(c)
            cnt[s] = cnt.get(s, 0) + 1
        frame = frame.f_back
        n += 1
    if not cnt:
        return "?:?"
    m = max(cnt.values())
    if m < 5:
        return sorted(cnt)[0]
    return sorted(s for s, k in cnt.items() if k * 2 >= m)[0]


def family():
    from pdfminer.psexceptions import PSException
    return (PSException, AssertionError)


def classify(meter, exc):
    """outcome class of one metered run (see module docstring)"""
    if meter.recursion is not None or isinstance(exc, RecursionError):
        return "recursion:" + (meter.recursion or recursion_site(exc.__traceback__))
    if exc is None:
        return "ok"
    if isinstance(exc, BudgetExceeded):
        return "hang:" + (meter.hang_site or "?:?")
    if isinstance(exc, family()):
        return "family"
    return "leak:%s@%s" % (type(exc).__name__, innermost_site(exc.__traceback__))


def self_check():
    """the meter must stop an endless loop, notice a swallowed RecursionError, and let a normal run through"""
    m = Meter()

    def loop():
        while True:
            pass

    def rec(n=0):
        return rec(n + 1)

    def swallowed():
        try:
            rec()
        except Exception:      # noqa: BLE001
            return 1

    r, e = m.run(loop, 2000, cpu=10)
    if not isinstance(e, BudgetExceeded):
        raise MachineryError("work meter did not stop an endless loop")
    r, e = m.run(swallowed, 10 ** 6, cpu=10)
    if e is not None or r != 1 or m.recursion is None:
        raise MachineryError("work meter did not notice a swallowed RecursionError")
    r, e = m.run(lambda: sum(range(10)), 1000, cpu=10)
    if e is not None or r != 45 or not (0 < m.count < 50):
        raise MachineryError("work meter miscounts a trivial run (%r, %r, %d)" % (r, e, m.count))
