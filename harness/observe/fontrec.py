"""Observation of font construction and per-code lookups on real documents (binding B of C06 / C07).

Nothing in /repo is edited: wrappers are installed on EncodingDB.get_encoding and PDFResourceManager.get_font at run time,
in this process only, and removed again.  Events are logged after the wrapped call returns."""
from __future__ import annotations

import contextlib
import io

from ..tlc import MachineryError


def base_table_digest():
    """digest of the four class-level base-encoding tables of EncodingDB (they are shared by every font without Differences)"""
    import zlib

    from pdfminer.encodingdb import EncodingDB
    h = 0
    for name in sorted(EncodingDB.encodings):
        h = zlib.crc32(repr((name, sorted(EncodingDB.encodings[name].items()))).encode(), h)
    return h


def pristine_tables():
    """the four base tables rebuilt from latin_enc.ENCODING + glyphlist (data), independent of EncodingDB's state"""
    from pdfminer.glyphlist import glyphname2unicode
    from pdfminer.latin_enc import ENCODING
    t = {"StandardEncoding": {}, "MacRomanEncoding": {}, "WinAnsiEncoding": {}, "PDFDocEncoding": {}}
    for (name, std, mac, win, pdf) in ENCODING:
        for k, c in (("StandardEncoding", std), ("MacRomanEncoding", mac), ("WinAnsiEncoding", win), ("PDFDocEncoding", pdf)):
            if c:
                t[k][c] = glyphname2unicode[name]
    return t


@contextlib.contextmanager
def recording():
    """while active: every font built by get_font carries  font._verif_getenc = [(name, diff, result-copy, result-object)]"""
    from pdfminer import pdfinterp
    from pdfminer.encodingdb import EncodingDB

    try:
        orig_ge = EncodingDB.__dict__["get_encoding"].__func__
        orig_gf = pdfinterp.PDFResourceManager.get_font
    except (KeyError, AttributeError) as e:
        raise MachineryError("wrapper target missing: %r" % e)
    log = []

    def get_encoding(cls, name, diff=None):
        d = list(diff) if diff is not None else None
        res = None
        try:
            res = orig_ge(cls, name, d)
            return res
        finally:
            log.append((name, d, dict(res) if res is not None else None, res))

    def get_font(self, objid, spec):
        mark = len(log)
        cached = bool(objid) and objid in self._cached_fonts
        d0 = base_table_digest()
        font = orig_gf(self, objid, spec)
        if not cached and not hasattr(font, "_verif_getenc"):
            try:
                font._verif_getenc = log[mark:]
                font._verif_spec = spec
                font._verif_tabs = (d0, base_table_digest())
            except AttributeError:
                pass
        return font

    EncodingDB.get_encoding = classmethod(get_encoding)
    pdfinterp.PDFResourceManager.get_font = get_font
    try:
        yield log
    finally:
        EncodingDB.get_encoding = classmethod(orig_ge)
        pdfinterp.PDFResourceManager.get_font = orig_gf


def fonts_of_file(path, deep=False, maxpages=6, password=""):
    """-> [(origin, font)] distinct fonts reachable from the page resources (deep: also run the content, which reaches
    fonts of form XObjects).  Errors while opening a sample are returned as [] (C13 is about those)."""
    from pdfminer.pdfdevice import PDFDevice
    from pdfminer.pdfinterp import PDFPageInterpreter, PDFResourceManager
    from pdfminer.pdfpage import PDFPage

    out = []
    seen = set()
    with recording():
        rm = PDFResourceManager()
        it = PDFPageInterpreter(rm, PDFDevice(rm))
        try:
            with open(path, "rb") as fp:
                for pno, pg in enumerate(PDFPage.get_pages(fp, maxpages=maxpages, password=password,
                                                           check_extractable=False)):
                    if deep:
                        it.process_page(pg)
                    else:
                        it.init_resources(pg.resources)
                    for name, font in sorted(it.fontmap.items(), key=lambda kv: str(kv[0])):
                        if id(font) in seen:
                            continue
                        seen.add(id(font))
                        out.append(("%s#p%d/%s" % (path, pno + 1, name), font))
        except Exception as e:  # a sample that cannot be opened/parsed is not this property's business
            out.append(("%s!%s" % (path, type(e).__name__), None))
    return out


def cps(s):
    return [ord(ch) for ch in s]


def simple_font_trace(origin, font):
    """trace record for SimpleFontTrace.tla, or None if the font is not a simple font built through get_encoding"""
    from fractions import Fraction

    from pdfminer.casting import safe_float
    from pdfminer.encodingdb import EncodingDB, name2unicode
    from pdfminer.pdffont import PDFSimpleFont, PDFUnicodeNotDefined
    from pdfminer.psparser import PSLiteral

    if not isinstance(font, PDFSimpleFont):
        return None
    calls = getattr(font, "_verif_getenc", None)
    if not calls or len(calls) != 1:
        return None
    name, diff, res_copy, res_obj = calls[0]
    if res_copy is None:
        return None
    base = EncodingDB.get_encoding(name)
    pristine = pristine_tables().get(name if name in EncodingDB.encodings else "StandardEncoding")
    d0, d1 = getattr(font, "_verif_tabs", (0, 0))

    def table(d):
        return [cps(d[c]) if c in d else [] for c in range(256)]

    dl = []
    unmapped = 0
    for x in diff or []:
        if isinstance(x, bool):
            continue
        if isinstance(x, int):
            dl.append({"t": "int", "v": x, "ok": False, "val": []})
        elif isinstance(x, PSLiteral):
            try:
                v = name2unicode(x.name)
                dl.append({"t": "name", "v": 0, "ok": True, "val": cps(v), "name": str(x.name)})
            except (KeyError, ValueError):
                unmapped += 1
                dl.append({"t": "name", "v": 0, "ok": False, "val": [], "name": str(x.name)})
    umap = getattr(font, "unicode_map", None)
    tu = getattr(umap, "cid2unichr", {}) if umap is not None else {}
    widths = font.widths
    hs = font.hscale
    codes = []
    for c in range(256):
        try:
            txt = font.to_unichr(c)
            t = cps(txt)
        except PDFUnicodeNotDefined:
            txt = None
            t = [-1]
        w = font.char_width(c)
        wc = safe_float(widths.get(c))
        wm = safe_float(widths.get(txt)) if txt is not None else None

        def eq(x):
            # same operands, exact comparison through rationals of the binary64 products
            return x is not None and Fraction(w) == Fraction(x * hs)
        codes.append({"hastu": c in tu, "tu": cps(tu[c]) if c in tu else [], "txt": t,
                      "inw": wc is not None, "eqw": eq(wc), "inm": wm is not None, "eqm": eq(wm),
                      "eqd": eq(font.default_width) if isinstance(font.default_width, (int, float)) else False})
    return {"origin": origin, "kind": type(font).__name__, "encname": str(name), "base": table(base), "diff": dl,
            "tabs0": d0, "tabs1": d1, "pristine": dict(base) == pristine,
            "enc": table(res_copy), "final": table(font.cid2unicode), "builtin": font.cid2unicode is not res_obj,
            "codes": codes, "unmapped_diff_names": unmapped}
