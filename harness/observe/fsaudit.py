"""Audit-hook sandbox worker for C15 (run as a subprocess:  python -m harness.observe.fsaudit jobs.json out.json).

Each job describes a scratch tree (directories, decoy files), an input PDF and whether image export is on.  The
worker builds the tree, runs pdfminer.high_level.extract_text_to_fp on the input with sys.addaudithook recording
every file-system related audit event raised while the extraction runs, and reports the events, the exception
class (if any) and the difference between the tree before and after (created / modified / deleted files).
Nothing in /repo is touched; the hook lives in this process only."""
from __future__ import annotations

import base64
import gzip
import hashlib
import io
import json
import logging
import os
import pickle
import shutil
import sys

logging.disable(logging.CRITICAL)

PREFIXES = ("open", "os.", "shutil.", "pickle.", "subprocess.", "socket.", "glob.", "tempfile.", "pathlib.", "mmap.",
            "ctypes.dlopen", "urllib.", "webbrowser.", "fcntl.", "ftplib.", "http.", "smtplib.")
IGNORE = ("os.putenv", "os.unsetenv")
# (os.listdir / os.scandir / os.walk ARE recorded: a directory listing steered by the document is file-system access;
#  the worker's own snapshotting runs while recording is off.  There is no audit event for the os.stat family.)

_rec = {"on": False, "events": [], "root": None}
MUTATING = ("os.mkdir", "os.remove", "os.rename", "os.rmdir", "os.link", "os.symlink", "os.truncate", "os.chmod", "os.chown",
            "shutil.rmtree", "shutil.move", "shutil.copyfile", "os.system", "os.exec", "os.posix_spawn", "os.fork",
            "subprocess.Popen")


def _inside_root(path):
    root = _rec["root"]
    if root is None or not isinstance(path, str):
        return True
    try:
        rp = os.path.realpath(path)
    except (ValueError, OSError):
        return True                     # cannot name a file at all
    return rp == root or rp.startswith(root + os.sep)


def _hook(event, args):
    if not _rec["on"]:
        return
    if not event.startswith(PREFIXES) or event in IGNORE:
        return
    e = {"ev": event}
    if event == "open":
        path, mode, flags = (list(args) + [None, None, None])[:3]
        if isinstance(path, bytes):
            path = path.decode("utf-8", "surrogateescape")
        e["path"] = path if isinstance(path, str) else repr(path)
        e["mode"] = mode if isinstance(mode, str) else None
        e["flags"] = flags if isinstance(flags, int) else None
        w = False
        if isinstance(mode, str):
            w = any(c in mode for c in "wxa+")
        elif isinstance(flags, int):
            w = bool(flags & (os.O_WRONLY | os.O_RDWR | os.O_CREAT | os.O_TRUNC | os.O_APPEND))
        e["write"] = w
        _rec["on"] = False
        try:
            e["existed"] = isinstance(path, str) and os.path.lexists(path)
        except (ValueError, OSError):
            e["existed"] = False
        try:                            # resolved while the scratch tree (and its symbolic links) still exists
            e["real"] = os.path.realpath(path) if isinstance(path, str) else None
        except (ValueError, OSError):
            e["real"] = None
        if w and not _inside_root(path):
            e["blocked"] = True         # safety net: nothing is ever written outside the scratch tree
            # what would the kernel have done?  (component-wise resolution, not lexical normalisation)
            try:
                os.stat(os.path.dirname(path) or ".")
                e["would"] = "OSError" if len(os.path.basename(path).encode("utf-8", "surrogateescape")) > 255 else "create"
            except FileNotFoundError:
                e["would"] = "FileNotFoundError"
            except NotADirectoryError:
                e["would"] = "NotADirectoryError"
            except (OSError, ValueError) as x:
                e["would"] = type(x).__name__
        _rec["on"] = True
    else:
        e["args"] = [a if isinstance(a, (str, int, type(None))) else repr(a)[:200] for a in args[:3]]
        if event in ("os.listdir", "os.scandir", "os.walk", "os.fwalk", "glob.glob", "glob.glob/2") and args:
            p0 = args[0]
            if isinstance(p0, bytes):
                p0 = p0.decode("utf-8", "surrogateescape")
            e["path"] = p0 if isinstance(p0, str) else "."
            _rec["on"] = False
            try:
                e["real"] = os.path.realpath(e["path"])
            except (ValueError, OSError):
                e["real"] = None
            _rec["on"] = True
        if event.startswith(MUTATING):
            _rec["on"] = False
            ok = all(_inside_root(a) for a in args[:2] if isinstance(a, str))
            _rec["on"] = True
            if not ok or not event.startswith(("os.mkdir", "os.remove", "os.rename", "os.rmdir")):
                e["blocked"] = True
    _rec["events"].append(e)
    if e.get("blocked"):
        raise PermissionError("verif sandbox: %s outside the scratch tree blocked" % event)


DECOY_PICKLE = gzip.compress(pickle.dumps({"IS_VERTICAL": False, "CODE2CID": {}, "CID2UNICHR_H": {}, "CID2UNICHR_V": {}}, 2))


def snapshot(root):
    out = {}
    for d, _, files in os.walk(root):
        for f in files:
            p = os.path.join(d, f)
            try:
                with open(p, "rb") as fh:
                    out[os.path.relpath(p, root)] = hashlib.sha1(fh.read()).hexdigest()
            except OSError:
                out[os.path.relpath(p, root)] = "?"
    return out


def run_job(job, high_level, cmapdb, image_mod):
    root = job["root"]
    if job.get("fresh", True):
        shutil.rmtree(root, ignore_errors=True)
        os.makedirs(root)
        for d in job["dirs"]:
            os.makedirs(os.path.join(root, d), exist_ok=True)
        for rel, kind in job["files"]:
            p = os.path.join(root, rel)
            try:
                with open(p, "wb") as f:
                    f.write(DECOY_PICKLE if kind == "pickle" else b"pre-existing " + rel.encode("utf-8", "replace"))
            except (OSError, ValueError):
                pass                    # a candidate whose parent does not exist cannot pre-exist
        for link, target in job.get("symlinks", []):
            try:
                os.symlink(os.path.join(root, target), os.path.join(root, link))
            except OSError:
                pass
        for rel in job.get("prefiles", []):
            # candidate image files that already exist (kernel path semantics, never outside the scratch tree)
            try:
                p = os.path.join(root, "out", rel)
                parent = os.path.realpath(os.path.dirname(p))
                rr = os.path.realpath(root)
                if (parent == rr or parent.startswith(rr + os.sep)) and not os.path.lexists(p):
                    with open(p, "wb") as f:
                        f.write(b"pre-existing image candidate")
            except (OSError, ValueError):
                pass
    if job.get("pdf_path"):
        inp = job["pdf_path"]
    else:
        inp = os.path.join(root, "in.pdf")
        with open(inp, "wb") as f:
            f.write(base64.b64decode(job["pdf"]))
    os.environ["CMAP_PATH"] = os.path.join(root, job.get("cmap_path", "res")) + "/"
    for attr in dir(cmapdb.CMapDB):                 # any cache a tree under test keeps about directories
        v = getattr(cmapdb.CMapDB, attr)
        if attr.startswith("_") and not attr.startswith("__") and isinstance(v, dict):
            v.clear()
    _rec["root"] = os.path.realpath(root)
    try:
        os.chdir(os.path.join(root, "dec") if os.path.isdir(os.path.join(root, "dec")) else root)
    except OSError:
        pass
    cmapdb.CMapDB._cmap_cache.clear()
    cmapdb.CMapDB._umap_cache.clear()
    before = snapshot(root)
    outdir = os.path.join(root, "out") if job.get("images") else None
    exports = []
    orig_export = image_mod.ImageWriter.export_image

    def export(self, image):
        name = orig_export(self, image)
        exports.append(name)
        return name
    image_mod.ImageWriter.export_image = export
    exc = None
    _rec["events"] = []
    fp = open(inp, "rb")
    _rec["on"] = True
    try:
        high_level.extract_text_to_fp(fp, io.StringIO(), output_dir=outdir, **(job.get("kwargs") or {}))
    except BaseException as e:          # the class is the observation
        exc = type(e).__name__
    finally:
        _rec["on"] = False
        fp.close()
        image_mod.ImageWriter.export_image = orig_export
    after = snapshot(root)
    res = {"id": job["id"], "events": _rec["events"], "exc": exc, "exports": exports,
           "created": sorted(set(after) - set(before)),
           "modified": sorted(k for k in before if k in after and after[k] != before[k]),
           "deleted": sorted(set(before) - set(after)), "input": inp}
    os.chdir("/")
    if job.get("cleanup", True) and job.get("fresh", True):
        shutil.rmtree(root, ignore_errors=True)
    return res


def main():
    jobs = json.load(open(sys.argv[1]))
    if os.environ.get("PDFMINER_VERIF") != "1":
        print("observation only under PDFMINER_VERIF=1", file=sys.stderr)
        sys.exit(2)
    import pdfminer
    from pdfminer import cmapdb, high_level
    from pdfminer import image as image_mod
    # warm-up: make the interpreter import everything extraction needs before recording starts
    try:
        from pdfminer import _saslprep, ccitt, jbig2, lzw, ascii85, runlength  # noqa: F401
        import cryptography.hazmat.backends  # noqa: F401
        import cryptography.hazmat.primitives.ciphers  # noqa: F401
        import PIL.Image  # noqa: F401
    except Exception:
        pass
    sys.addaudithook(_hook)
    out = []
    for job in jobs:
        out.append(run_job(job, high_level, cmapdb, image_mod))
    json.dump({"results": out, "pdfminer": os.path.dirname(pdfminer.__file__),
               "cmap_dir": os.path.join(os.path.dirname(cmapdb.__file__), "cmap")}, open(sys.argv[2], "w"))


if __name__ == "__main__":
    main()
