"""Observation side of C12 (purity / history independence).

* canonical projections of the three public entry points (extract_pages, extract_text, extract_text_to_fp xml)
* content digests of every process-wide table pdfminer keeps (EncodingDB tables, glyph list, font metrics, predefined
  colour spaces, CMapDB caches, the interned literal / keyword tables, a few module-level scalars)
* a pool of "zygote" worker processes: each imports pdfminer ONCE and never extracts anything itself; for every request
  it forks a child, the child computes the result in a process state that is exactly the state after import (a fresh
  process) and exits.  So every reference result comes from a fresh process without paying interpreter start-up per case.

Run as a module (`python -m harness.observe.purity --zygote`) it is such a worker.
"""
from __future__ import annotations

import hashlib
import io
import json
import os
import pickle
import re
import struct
import subprocess
import sys
import threading

KINDS = ("pages", "text", "xml")
SAMPLE_PASSWORDS = {"rc4-40.pdf": "foo", "rc4-128.pdf": "foo", "aes-128.pdf": "foo", "aes-128-m.pdf": "foo",
                    "aes-256.pdf": "foo", "aes-256-m.pdf": "foo", "aes-256-r6.pdf": "usersecret"}


def password_for(path):
    return SAMPLE_PASSWORDS.get(os.path.basename(str(path)), "")


def digest(s):
    if isinstance(s, str):
        s = s.encode("utf-8", "surrogatepass")
    return hashlib.blake2b(s, digest_size=8).hexdigest()


# ------------------------------------------------------------------------------------------------ projections
def _j(v):
    if v is None or isinstance(v, (bool, int, float, str)):
        return v
    if isinstance(v, (list, tuple)):
        return [_j(x) for x in v]
    return repr(v)


def project_item(o, out):
    from pdfminer.layout import LTAnno, LTChar, LTContainer, LTCurve, LTImage
    name = type(o).__name__
    if isinstance(o, LTChar):
        gs = o.graphicstate
        out.append(["c", o.get_text(), o.fontname, o.adv, list(o.bbox), o.size, o.upright, list(o.matrix),
                    getattr(o.ncs, "name", None), getattr(o.ncs, "ncomponents", None),
                    _j(getattr(gs, "ncolor", None)), _j(getattr(gs, "scolor", None))])
    elif isinstance(o, LTAnno):
        out.append(["a", o.get_text()])
    elif isinstance(o, LTContainer):
        out.append(["<", name, list(o.bbox), getattr(o, "index", None), getattr(o, "name", None)])
        for x in o:
            project_item(x, out)
        out.append([">"])
    elif isinstance(o, LTCurve):
        out.append([name, list(o.bbox), _j(o.pts), o.linewidth, o.stroke, o.fill, o.evenodd,
                    _j(o.stroking_color), _j(o.non_stroking_color)])
    elif isinstance(o, LTImage):
        out.append([name, list(o.bbox), o.name, _j(o.srcsize), o.imagemask, o.bits, _j(o.colorspace)])
    else:
        out.append([name, list(getattr(o, "bbox", ()))])


def project_page(lt):
    """canonical string of one LTPage (everything but the page's ordinal within the call)"""
    out = [["page", list(lt.bbox), lt.rotate]]
    for x in lt:
        project_item(x, out)
    out.append(["groups", _groups(getattr(lt, "groups", None))])
    return json.dumps(out, ensure_ascii=False, separators=(",", ":"))


def _groups(g):
    """LTPage.groups: the hierarchy of text groups, leaves are text boxes (by index and bbox)"""
    from pdfminer.layout import LTTextBox, LTTextGroup
    if g is None:
        return None
    if isinstance(g, LTTextGroup):
        return [type(g).__name__, list(g.bbox), [_groups(x) for x in g]]
    if isinstance(g, LTTextBox):
        return ["box", g.index, list(g.bbox)]
    if isinstance(g, (list, tuple)):
        return [_groups(x) for x in g]
    return repr(type(g).__name__)


_XML_PAGE = re.compile(rb'^<page id="\d+"', re.M)


def xml_body(b):
    """output of extract_text_to_fp(output_type='xml') without the document frame and with the ordinal page ids masked"""
    head_end = b.find(b"<pages>\n")
    if head_end < 0 or not b.endswith(b"</pages>\n"):
        return b"?frame?" + b
    body = b[head_end + 8: -9]
    return _XML_PAGE.sub(b'<page id="#"', body)


def _src(src):
    return io.BytesIO(src) if isinstance(src, (bytes, bytearray)) else open(src, "rb")


def run_call(kind, src, caching, pages, password=""):
    """One public call.  -> canonical result: list of page strings (kind 'pages') or a one-element list (text / xml).
    pages: None (all pages) or a list of zero-based page numbers.  Exceptions are part of the result."""
    from pdfminer.high_level import extract_pages, extract_text, extract_text_to_fp
    from pdfminer.layout import LAParams
    pn = set(pages) if pages is not None else None
    fp = _src(src)
    try:
        if kind == "pages":
            out = []
            try:
                for lt in extract_pages(fp, password=password, page_numbers=pn, caching=caching):
                    out.append(project_page(lt))
            except Exception as e:
                out.append("EXC:%s:%s" % (type(e).__name__, str(e)[:200]))
            return out
        try:
            if kind == "text":
                return [extract_text(fp, password=password, page_numbers=pn, caching=caching)]
            if kind == "xml":
                o = io.BytesIO()
                extract_text_to_fp(fp, o, output_type="xml", laparams=LAParams(), page_numbers=pn, password=password,
                                   disable_caching=not caching)
                return [xml_body(o.getvalue()).decode("utf-8", "replace")]
        except Exception as e:
            return ["EXC:%s:%s" % (type(e).__name__, str(e)[:200])]
        raise ValueError("unknown kind %r" % kind)
    finally:
        fp.close()


def count_pages(src, password=""):
    from pdfminer.pdfpage import PDFPage
    fp = _src(src)
    try:
        return sum(1 for _ in PDFPage.get_pages(fp, password=password))
    except Exception:
        return 0
    finally:
        fp.close()


# ------------------------------------------------------------------------------------------------ shared tables
def _h(v):
    """order-independent, within-process content hash of nested dict / list / scalar values (int)"""
    if isinstance(v, dict):
        return hash(frozenset((k if isinstance(k, (int, str, bytes)) else repr(k), _h(x)) for k, x in v.items()))
    if isinstance(v, (list, tuple)):
        return hash(tuple(_h(x) for x in v))
    if isinstance(v, (set, frozenset)):
        return hash(frozenset(_h(x) for x in v))
    if isinstance(v, (int, str, bytes, float, bool)) or v is None:
        return hash((type(v).__name__, v))
    inner = getattr(v, "__dict__", None)
    if isinstance(inner, dict) and inner:
        # an object held in a process-wide container: identity and content of its attributes (one level of objects)
        return hash((id(v), frozenset((k, _h(x) if isinstance(x, (dict, list, tuple, set, int, str, bytes, float, bool)) or x is None
                                       else id(x)) for k, x in inner.items())))
    return hash(repr(v))


def _flat_hash(d):
    """dict of hashable scalars"""
    try:
        return hash(frozenset(d.items()))
    except TypeError:
        return _h(d)


def interned_constants():
    """For every module-level (and class-level) PSLiteral / PSKeyword constant of the pdfminer package - LITERAL_PAGE, KEYWORD_BI,
    the members of LITERALS_FLATE_DECODE ... - whether the interning table still maps the constant's name to THAT object
    (looked up without interning anything).  The library compares parsed names with these constants by identity."""
    import sys
    from pdfminer.psparser import PSKeyword, PSKeywordTable, PSLiteral, PSLiteralTable
    out = {}

    def look(where, v):
        if isinstance(v, PSLiteral):
            out[where] = hash(PSLiteralTable.dict.get(v.name) is v)
        elif isinstance(v, PSKeyword):
            out[where] = hash(PSKeywordTable.dict.get(v.name) is v)
        elif isinstance(v, (tuple, list)) and v and all(isinstance(x, (PSLiteral, PSKeyword)) for x in v):
            for i, x in enumerate(v):
                look("%s[%d]" % (where, i), x)
    for mname, mod in list(sys.modules.items()):
        if mod is None or not (mname == "pdfminer" or mname.startswith("pdfminer.")):
            continue
        for attr, v in list(vars(mod).items()):
            look("%s.%s" % (mname, attr), v)
            if isinstance(v, type) and getattr(v, "__module__", None) == mname:
                for cattr, cv in list(vars(v).items()):
                    look("%s.%s.%s" % (mname, attr, cattr), cv)
    return out


# process-wide containers that have their own table with their own rule (append-only caches)
WATCHED_ELSEWHERE = {("pdfminer.cmapdb", "CMapDB", "_cmap_cache"), ("pdfminer.cmapdb", "CMapDB", "_umap_cache"),
                     ("pdfminer.encodingdb", "EncodingDB", "std2unicode"), ("pdfminer.encodingdb", "EncodingDB", "mac2unicode"),
                     ("pdfminer.encodingdb", "EncodingDB", "win2unicode"), ("pdfminer.encodingdb", "EncodingDB", "pdf2unicode"),
                     ("pdfminer.encodingdb", "EncodingDB", "encodings")}


def _pdfminer_modules():
    import sys
    return [(n, m) for n, m in list(sys.modules.items()) if m is not None and (n == "pdfminer" or n.startswith("pdfminer."))]


def class_attributes():
    """GENERIC watch: every mutable class attribute (dict / list / set) of every class defined in a pdfminer module - a
    class-level container is process-wide state; one that changes during an extraction call is a memo / cache / registry
    that outlives the call"""
    out = {}
    for mname, mod in _pdfminer_modules():
        for cname, cls in list(vars(mod).items()):
            if not (isinstance(cls, type) and getattr(cls, "__module__", None) == mname):
                continue
            for attr, v in list(vars(cls).items()):
                if isinstance(v, (dict, list, set)) and not attr.startswith("__") and (mname, cname, attr) not in WATCHED_ELSEWHERE:
                    out["%s.%s.%s" % (mname, cname, attr)] = _h(v)
    return out


# module-level containers that have their own table
GLOBALS_WATCHED_ELSEWHERE = {"PREDEFINED_COLORSPACE", "FONT_METRICS", "glyphname2unicode", "ENCODING", "IDENTITY_ENCODER"}


def module_globals():
    """GENERIC watch: every mutable container (dict / list / set, OrderedDict included) bound at module level in a pdfminer module
    (one entry per defining object; the containers with a table of their own are left to that table)"""
    out = {}
    seen = set()
    for mname, mod in _pdfminer_modules():
        for name, v in list(vars(mod).items()):
            if name.startswith("__") or name in GLOBALS_WATCHED_ELSEWHERE or not isinstance(v, (dict, list, set)):
                continue
            if id(v) in seen:
                continue
            seen.add(id(v))
            out["%s.%s" % (mname, name)] = _h(v)
    return out


def function_defaults():
    """GENERIC watch: every mutable default argument (dict / list / set in __defaults__ / __kwdefaults__) of every function and
    method defined in a pdfminer module - a mutable default is one object for the whole process"""
    import types
    out = {}

    def look(where, f):
        f = getattr(f, "__func__", f)
        if not isinstance(f, types.FunctionType):
            return
        ds = list(f.__defaults__ or ()) + list((f.__kwdefaults__ or {}).values())
        for i, d in enumerate(ds):
            if isinstance(d, (dict, list, set)):
                out["%s#%d" % (where, i)] = _h(d)
    for mname, mod in _pdfminer_modules():
        for name, v in list(vars(mod).items()):
            if isinstance(v, type) and getattr(v, "__module__", None) == mname:
                for attr, f in list(vars(v).items()):
                    look("%s.%s.%s" % (mname, name, attr), f)
            elif getattr(v, "__module__", None) == mname:
                look("%s.%s" % (mname, name), v)
    return out


class _Tables:
    """a table whose summary cannot be computed (the cache changed shape, an attribute is gone) is recorded as
    unobservable instead of stopping the check: whether the change matters is decided on the results"""

    def __init__(self):
        self.out = {}

    def put(self, name, cls, fn):
        try:
            self.out[name] = (cls, fn())
        except Exception as e:  # noqa: BLE001
            self.out[name] = (cls, {"unobservable": hash(type(e).__name__)})


def shared_tables():
    """-> {table name: (class, {entry key: entry content hash})}   class: 'immutable' | 'append'
    Entry hashes are Python hashes: comparable within this process only (before / after a call)."""
    from pdfminer import settings
    from pdfminer.cmapdb import CMapDB
    from pdfminer.encodingdb import EncodingDB
    from pdfminer.fontmetrics import FONT_METRICS
    from pdfminer.glyphlist import glyphname2unicode
    from pdfminer.latin_enc import ENCODING
    from pdfminer.pdfcolor import PREDEFINED_COLORSPACE
    from pdfminer.pdffont import IDENTITY_ENCODER
    from pdfminer.pdfpage import PDFPage
    from pdfminer.psparser import PSBaseParser, PSKeywordTable, PSLiteralTable
    t = _Tables()
    t.put("EncodingDB.encodings", "immutable", lambda: {k: hash((id(v), _flat_hash(v))) for k, v in EncodingDB.encodings.items()})
    for nm in ("std2unicode", "mac2unicode", "win2unicode", "pdf2unicode"):
        # entry by entry (<= 256 codes): an ASSIGNED, an ADDED and a REMOVED code each show up under their own key
        t.put("EncodingDB." + nm, "immutable", lambda: {k: hash(v) for k, v in getattr(EncodingDB, nm).items()})
    t.put("glyphname2unicode", "immutable", lambda: {"*": _flat_hash(glyphname2unicode), "n": len(glyphname2unicode)})
    t.put("latin_enc.ENCODING", "immutable", lambda: {"*": hash(tuple(ENCODING))})
    t.put("FONT_METRICS", "immutable", lambda: {k: hash((_h(v[0]), _flat_hash(v[1]))) for k, v in FONT_METRICS.items()})
    t.put("PREDEFINED_COLORSPACE", "immutable", lambda: {k: hash((id(v), v.name, v.ncomponents)) for k, v in PREDEFINED_COLORSPACE.items()})
    t.put("CMapDB._cmap_cache", "append", lambda: {k: hash((id(v), _h(v.attrs), _h(v.code2cid))) for k, v in CMapDB._cmap_cache.items()})
    # an entry is the list [horizontal, vertical]; any other shape (one map per name, ...) is summarised as it is - a
    # differently shaped cache is a matter for the results, not a reason for the observation to fail
    def maps(v):
        return v if isinstance(v, (list, tuple)) else [v]
    t.put("CMapDB._umap_cache", "append", lambda: {k: hash(tuple((id(u), _h(getattr(u, "attrs", None)), _flat_hash(getattr(u, "cid2unichr", {})))
                                                      for u in maps(v)))
                                          for k, v in CMapDB._umap_cache.items()})
    t.put("PSLiteralTable", "append", lambda: {k: hash((id(v), v.name)) for k, v in PSLiteralTable.dict.items()})
    t.put("PSKeywordTable", "append", lambda: {k: hash((id(v), v.name)) for k, v in PSKeywordTable.dict.items()})
    t.put("class attributes (generic)", "append", class_attributes)
    t.put("function default arguments (generic)", "append", function_defaults)
    t.put("module-level containers (generic)", "append", module_globals)
    t.put("interned constants", "append", interned_constants)     # (modules imported later add constants)
    t.put("module scalars", "immutable", lambda: {"settings.STRICT": hash(settings.STRICT), "PSBaseParser.BUFSIZ": hash(PSBaseParser.BUFSIZ),
                                                  "PDFPage.INHERITABLE_ATTRS": hash(frozenset(PDFPage.INHERITABLE_ATTRS)),
                                                  "IDENTITY_ENCODER": _flat_hash(IDENTITY_ENCODER)})
    return t.out


def table_summary(entries):
    return "%016x" % (hash(frozenset(entries.items())) & 0xFFFFFFFFFFFFFFFF)


def table_delta(before, after):
    """per table: {name, cls, nb, na, before, after, oldafter, changed: [keys]}  (oldafter: summary of `after` restricted
    to the keys present before - equal to `before` iff no existing entry was modified or removed)"""
    out = []
    for name, (cls, b) in before.items():
        a = after[name][1]
        old = {k: a[k] for k in b if k in a}
        miss = object()
        changed = [repr(k)[:60] for k in b if k in a and a[k] != b[k]][:5]
        removed = [repr(k)[:60] for k in b if a.get(k, miss) is miss][:5]
        # oldafter covers removal too: a key that existed before and is gone makes `old` smaller than `b`
        out.append({"name": name, "cls": cls, "nb": len(b), "na": len(a), "before": table_summary(b),
                    "after": table_summary(a), "oldafter": table_summary(old),
                    "changed": changed + ["removed " + k for k in removed]})
    return out


# ------------------------------------------------------------------------------------------------ cached document objects
def deep_digest(v):
    """content hash (within this process) of a parsed PDF object: lists and dictionaries deeply, a stream by its dictionary
    (its data is decoded lazily in place - that is not a change of the object), a reference by its object number"""
    from pdfminer.pdftypes import PDFObjRef, PDFStream
    from pdfminer.psparser import PSKeyword, PSLiteral
    if isinstance(v, dict):
        return hash(frozenset((repr(k), deep_digest(x)) for k, x in v.items()))
    if isinstance(v, (list, tuple)):
        return hash(("seq",) + tuple(deep_digest(x) for x in v))
    if isinstance(v, PDFStream):
        return hash(("stream", deep_digest(v.attrs)))
    if isinstance(v, PDFObjRef):
        return hash(("ref", v.objid))
    if isinstance(v, (PSLiteral, PSKeyword)):
        return hash(("name", repr(v.name)))
    if isinstance(v, (int, float, str, bytes, bool)) or v is None:
        return hash((type(v).__name__, v))
    return hash(type(v).__name__)


class CacheWatch:
    """Wraps PDFPageInterpreter.process_page (in this process, at run time): the objects in the page's document's object
    cache (PDFDocument._cached_objs) are digested before and after every page.  An object that was in the cache before
    the page and has different content after it was mutated in place - whoever gets it from the cache next (another page,
    another resource) sees something the file does not say."""

    def __init__(self):
        self.records = []
        self.installed = False

    def install(self):
        if self.installed:
            return self
        from pdfminer.pdfinterp import PDFPageInterpreter
        from ..tlc import MachineryError
        if not hasattr(PDFPageInterpreter, "process_page"):
            raise MachineryError("PDFPageInterpreter.process_page is gone: cannot watch cached objects")
        orig = PDFPageInterpreter.process_page
        watch = self

        def snapshot(doc):
            cache = getattr(doc, "_cached_objs", None)
            if not isinstance(cache, dict):
                return {}
            out = {}
            for objid, entry in cache.items():
                obj = entry[0] if isinstance(entry, tuple) and entry else entry
                try:
                    out[objid] = deep_digest(obj)
                except Exception:  # noqa: BLE001
                    out[objid] = 0
            return out

        def process_page(interp, page):
            doc = getattr(page, "doc", None)
            before = snapshot(doc)
            try:
                return orig(interp, page)
            finally:
                after = snapshot(doc)
                changed = sorted(k for k in before if after.get(k, None) != before[k])
                watch.records.append({"nb": len(before), "na": len(after), "before": table_summary(before),
                                      "oldafter": table_summary({k: after[k] for k in before if k in after}),
                                      "changed": [str(k) for k in changed][:8]})
        PDFPageInterpreter.process_page = process_page
        self.installed = True
        return self

    def take(self):
        r, self.records = self.records, []
        return r


# ------------------------------------------------------------------------------------------------ zygote worker
def handle(req):
    op = req["op"]
    if op == "call":
        r = run_call(req["kind"], req["src"], req["caching"], req["pages"], req.get("password", ""))
        if req.get("digest"):
            return [digest(x) for x in r]
        return r
    if op == "npages":
        return count_pages(req["src"], req.get("password", ""))
    if op == "tokens":
        from ..realise.puritydocs import token_table
        return token_table(req.get("part", "h"))
    if op == "pid":
        return os.getpid()
    raise ValueError("unknown op %r" % op)


def _write_all(fd, b):
    mv = memoryview(b)
    while mv:
        n = os.write(fd, mv)
        mv = mv[n:]


def zygote_main():
    import logging
    logging.disable(logging.CRITICAL)
    # import, never run
    import pdfminer.high_level  # noqa: F401
    import pdfminer.layout  # noqa: F401
    import pdfminer.pdfpage  # noqa: F401
    inp = sys.stdin.buffer
    while True:
        hdr = inp.read(4)
        if len(hdr) < 4:
            return
        req = pickle.loads(inp.read(struct.unpack(">I", hdr)[0]))
        pid = os.fork()
        if pid == 0:
            try:
                res = {"ok": handle(req)}
            except BaseException as e:  # noqa: BLE001
                res = {"error": "%s: %s" % (type(e).__name__, e)}
            blob = pickle.dumps(res)
            _write_all(1, struct.pack(">I", len(blob)) + blob)
            os._exit(0)
        _, st = os.waitpid(pid, 0)
        if st != 0:
            blob = pickle.dumps({"error": "fresh child exited with status %d" % st})
            _write_all(1, struct.pack(">I", len(blob)) + blob)


class FreshPool:
    """n zygote workers; worker i runs with PYTHONHASHSEED = seeds[i % len(seeds)]."""

    def __init__(self, n=8, seeds=("0", "1", "7", "12345")):
        self.workers = []
        self.seeds = []
        root = os.path.dirname(os.path.dirname(os.path.dirname(os.path.abspath(__file__))))
        for i in range(n):
            env = dict(os.environ)
            env["PYTHONHASHSEED"] = seeds[i % len(seeds)]
            env["PYTHONPATH"] = os.pathsep.join(p for p in sys.path if p)
            p = subprocess.Popen([sys.executable, "-m", "harness.observe.purity", "--zygote"], cwd=root, env=env,
                                 stdin=subprocess.PIPE, stdout=subprocess.PIPE)
            self.workers.append(p)
            self.seeds.append(env["PYTHONHASHSEED"])
        self.locks = [threading.Lock() for _ in self.workers]
        self.served = 0

    def ask(self, i, req):
        from ..tlc import MachineryError
        w = self.workers[i % len(self.workers)]
        with self.locks[i % len(self.workers)]:
            blob = pickle.dumps(req)
            w.stdin.write(struct.pack(">I", len(blob)) + blob)
            w.stdin.flush()
            hdr = w.stdout.read(4)
            if len(hdr) < 4:
                raise MachineryError("fresh-process worker %d died" % i)
            res = pickle.loads(w.stdout.read(struct.unpack(">I", hdr)[0]))
            self.served += 1
        if "error" in res:
            raise MachineryError("fresh-process worker failed on %r: %s" % ({k: v for k, v in req.items() if k != "src"}, res["error"]))
        return res["ok"]

    def map(self, reqs, offset=0):
        """reqs: list of requests -> list of results (request k goes to worker (k + offset) mod n)"""
        out = [None] * len(reqs)
        err = []
        n = len(self.workers)

        def run(w):
            try:
                for k in range(len(reqs)):
                    if (k + offset) % n == w:
                        out[k] = self.ask(w, reqs[k])
            except BaseException as e:  # noqa: BLE001
                err.append(e)
        ths = [threading.Thread(target=run, args=(w,)) for w in range(n)]
        for t in ths:
            t.start()
        for t in ths:
            t.join()
        if err:
            raise err[0]
        return out

    def close(self):
        for w in self.workers:
            try:
                w.stdin.close()
            except Exception:
                pass
        for w in self.workers:
            try:
                w.wait(timeout=10)
            except Exception:
                w.kill()


if __name__ == "__main__":
    if "--zygote" in sys.argv:
        zygote_main()
