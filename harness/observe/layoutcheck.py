"""Shared orchestration of the C08 / C09 checks (specs/layout/Layout.tla, LayoutTrace.tla).

direction A: TLC enumerates every arrangement of each family x LAParams grid, checks the invariants of the property in
every state and prints every completed analysis; each is realised on the real code (LTChar objects added to an
LTPage/LTFigure, and generated PDFs through extract_pages / extract_text) at several powers of two and compared.
direction B: analyze() of pages of the repository samples is recorded (layoutrun.Recorder) and validated by TLC
against LayoutTrace.tla.
"""
from __future__ import annotations

import glob
import json
import multiprocessing
import resource
import signal
import os
import re
import time
import zlib
from concurrent.futures import ProcessPoolExecutor, ThreadPoolExecutor, as_completed
from concurrent.futures.process import BrokenProcessPool
from fractions import Fraction

from ..deviations import active, tla_set
from ..tlc import MachineryError, SPECS, require_coverage, run_tlc, write_cfg
from ..realise import layout_real as R
from . import layoutrun as O

SPEC = os.path.join(SPECS, "layout", "MC_Layout.tla")
TRACE_SPEC = os.path.join(SPECS, "layout", "LayoutTrace.tla")

C08_INV = ["Conservation", "BBoxIsUnion", "OneOrientationAndNewline", "LineOrder", "Indices0toN", "TextIsConcat"]
C09_INV = ["JoinIff", "SpaceIff", "OverlapReadings", "BoxIffConnected", "ColumnOrder", "ScaleInvariant"]
ACTIONS = ["BuildFirst", "BuildGlyph", "EndBuild", "SplitText", "GOAppend", "GOYield", "GONewH", "GOSingle", "GOFlush",
           "SplitEmpties", "GTLStep", "GTLCollect", "FlatSort", "FlatIndex", "GTBInit", "GTBDiscard", "GTBMerge", "GTBEnd",
           "AnalyzeGroups", "AssignIndex", "SortBoxes", "Finish"]

# family: (Params, Moves, MaxItems, Trs, Wheres, Firsts, actions that must be covered besides ACTIONS)
COVER = ("ParamsCover", "CoverMoves", 3, "BothTr", "PageAndFigure", "First1",
         ["GONewV", "GTBRepush", "SkipFigure", "BuildOther"])
FAMILIES = {
    "quick": {
        "lines":   ("ParamsLineQH", "LineMovesQ", 3, "NoTr", "PageOnly", "First1", ["GOAppend"]),
        "linesv":  ("ParamsLineQV", "LineMovesQ", 3, "BothTr", "PageOnly", "First1", ["GONewV"]),
        "stack":   ("ParamsStack", "StackMovesQ", 3, "NoTr", "PageOnly", "First1", []),
        "stack2":  ("ParamsStack", "StackMovesT", 2, "NoTr", "PageOnly", "First2", []),
        "columns": ("ParamsCols", "ColMovesQ", 4, "NoTr", "PageOnly", "First1", ["GTBRepush"]),
        "figures": ("ParamsFig", "FigMoves", 3, "NoTr", "PageAndFigure", "First1", ["SkipFigure", "BuildOther"]),
        "extreme": ("ParamsExtreme", "MixMovesQ", 3, "BothTr", "PageOnly", "First1", ["GONewV", "BuildOther"]),
        "overprint": ("ParamsOver", "OverMoves", 3, "BothTr", "PageOnly", "First1", []),
        "wide":    ("ParamsWideQ", "WideMovesQ", 3, "BothTr", "PageOnly", "First1", []),
        "vcolumns": ("ParamsVCol", "VColMovesQ", 4, "BothTr", "PageOnly", "FirstVCol", []),
        "nested":  ("ParamsNest", "NestMoves", 5, "BothTr", "PageOnly", "FirstNest", []),
        "degenerate": ("ParamsDegen", "DegenMoves", 3, "BothTr", "PageOnly", "FirstDegen", []),
    },
    "thorough": {
        "lines":   ("ParamsLineQ", "LineMovesQ", 3, "BothTr", "PageOnly", "First1", []),
        "linesT":  ("ParamsLineT", "LineMovesQ", 3, "BothTr", "PageOnly", "First1", []),
        "lines4":  ("ParamsLine4", "LineMoves4", 4, "BothTr", "PageOnly", "First1", []),
        "linesmix": ("ParamsLine4", "LineMovesT", 3, "BothTr", "PageOnly", "First2", []),
        "stack":   ("ParamsStack", "StackMovesQ", 4, "NoTr", "PageOnly", "First1", []),
        "stack3":  ("ParamsStack3", "StackMovesT", 3, "NoTr", "PageOnly", "First2", []),
        "stackv":  ("ParamsStackV", "StackMovesQ", 3, "BothTr", "PageOnly", "First1", []),
        "columns": ("ParamsCols", "ColMovesQ", 5, "NoTr", "PageOnly", "First1", []),
        "columns4": ("ParamsCols3", "ColMovesT", 4, "NoTr", "PageOnly", "First2", []),
        "columnsv": ("ParamsColsV", "ColMovesQ", 4, "BothTr", "PageOnly", "First1", []),
        "figures": ("ParamsFig", "FigMoves", 4, "NoTr", "PageAndFigure", "First1", []),
        "extreme": ("ParamsExtreme", "MixMovesT", 3, "BothTr", "PageOnly", "First1", []),
        "overprint": ("ParamsOver", "OverMoves", 4, "BothTr", "PageOnly", "First1", []),
        "wide":    ("ParamsWide", "WideMoves", 4, "BothTr", "PageOnly", "FirstWide", []),
        "vcolumns": ("ParamsVCol", "VColMovesT", 4, "BothTr", "PageOnly", "FirstVCol", []),
        "nested":  ("ParamsNestT", "NestMovesT", 5, "BothTr", "PageOnly", "FirstNest", []),
        "degenerate": ("ParamsDegenT", "DegenMoves", 4, "BothTr", "PageOnly", "FirstDegen", []),
    },
}
SIM = {"quick": (400, 9), "thorough": (6000, 9)}     # -simulate: behaviours, glyphs


SCALES = {"quick": "Scales864", "thorough": "Scales2864"}     # in-model ScaleInvariant
_TIER = ["quick"]


def consts(fam, dev):
    params, moves, maxitems, trs, wheres, firsts, _ = fam
    return {"Params": "<- " + params, "Moves": "<- " + moves, "MaxItems": maxitems, "Trs": "<- " + trs,
            "Wheres": "<- " + wheres, "Firsts": "<- " + firsts, "PG": "<- PG512", "G": 400, "Scales": "<- " + SCALES[_TIER[0]],
            "Dev": tla_set(dev) if dev else "<- NoDev"}


def run_family(ck, name, fam, invariants, dev, workers, coverage):
    cfg = write_cfg(os.path.join(ck.tmp, "lay_%s.cfg" % name), constants=consts(fam, dev), invariants=invariants,
                    properties=["Termination"], deadlock=True)
    emit = os.path.join(ck.tmp, "lay_%s.ndjson" % name)
    # depth-first queue: the frontier of the breadth-first search of the wide families spills to disk otherwise
    res = run_tlc(SPEC, cfg, emit=emit, coverage=coverage, workers=workers, timeout=3000, heap="6g", dfs=True)
    return name, fam, res, emit


def run_sim(ck, invariants, dev, seed):
    num, glyphs = SIM[ck.tier]
    fam = ("ParamsSim", "SimMoves", glyphs, "BothTr", "PageOnly", "First2", [])
    cfg = write_cfg(os.path.join(ck.tmp, "lay_sim.cfg"), constants=consts(fam, dev), invariants=invariants,
                    properties=["Termination"], deadlock=True)
    emit = os.path.join(ck.tmp, "lay_sim.ndjson")
    res = run_tlc(SPEC, cfg, emit=emit, workers=4, simulate={"num": num}, depth=120, seed=seed, timeout=900, heap="4g")
    m = re.search(r"The number of states generated: (\d+)", res.stdout)
    if m:
        res.generated = int(m.group(1))       # simulation mode: states visited along the random behaviours
    return "simulate", fam, res, emit


def tlc_direction_a(ck, invariants, dev, extra_jobs=()):
    """-> list of (family name, emit path).  TLC violation of an invariant on the intended design = the property does
    not hold of the design: reported as a violation with the invariant's name.
    extra_jobs: callables (other TLC runs: trace validation, as-coded design) run in the same thread pool; their
    results are returned by extra_results()."""
    fams = FAMILIES[ck.tier]
    _TIER[0] = ck.tier
    jobs = []
    nw = max(2, (os.cpu_count() or 4) // 3)
    with ThreadPoolExecutor(max_workers=5 if ck.tier == "quick" else 7) as ex:
        # biggest first
        for name, fam in sorted(fams.items(), key=lambda kv: kv[0] not in ("lines", "linesv", "lines4", "linesmix", "columns", "columns4")):
            jobs.append(ex.submit(run_family, ck, name, fam, invariants, dev, nw, False))
        jobs.append(ex.submit(run_family, ck, "cover", COVER, invariants, dev, 2, True))
        jobs.append(ex.submit(run_sim, ck, invariants, dev, ck.seed))
        xj = [ex.submit(j) for j in extra_jobs]
        done = [j.result() for j in jobs]
        _XR[:] = [j.result() for j in xj]
    outs = []
    for name, fam, res, emit in done:
        ck.add_tlc(res, "%s: %s x %s, <= %d items%s" % (name, fam[0], fam[1], fam[2], " (-simulate)" if name == "simulate" else ""))
        if not res.ok:
            st = res.error_trace[-1][1] if res.error_trace else {}
            ck.violation("model:" + str(res.violated),
                         "TLC: %s violated on the layout specification, family %s (page %s, LAParams %s)"
                         % (res.violated, name, st.get("page", "?")[:300], st.get("P", "?")[:200]),
                         {"family": name, "tlc": res.error_text[:6000]})
            continue
        if name == "cover":
            # vacuity guard: every action of the machine is taken (TLC -coverage on the small space)
            require_coverage(res, ACTIONS + fam[6])
            ck.extra["action_coverage"] = {a: v[1] for a, v in sorted(res.actions.items()) if a != "Finished"}
        if res.emitted == 0:
            raise MachineryError("family %s: TLC completed no analysis" % name)
        outs.append((name, emit))
    return outs


_XR = []


def extra_results():
    return list(_XR)


def head_of(line):
    """(page, p, wh) of a printed record without parsing its (large) outcome part"""
    i = line.find(',"out":')
    if line.startswith('{"page":') and i > 0:
        try:
            return json.loads(line[:i] + "}")
        except ValueError:
            pass
    r = json.loads(line)
    return {"page": r["page"], "p": r["p"], "wh": r["wh"]}


def parse_group(g):
    sim, head, lines = g
    rs = [json.loads(ln) for ln in lines]
    rs[0]["_sim"] = sim
    return rs


# ------------------------------------------------------------------------------------------------ replay workers
DIRECT_SCALES = [1, 8, Fraction(1, 4), 64]
_W = {}


class AnalysisTimeout(Exception):
    pass


def _alarm(signum, frame):
    raise AnalysisTimeout()


def _init_worker(mode, known_dev):
    """worker processes: a memory ceiling (a runaway analysis raises MemoryError instead of taking the machine down) and
    an alarm handler (an analysis that does not come back is reported, not waited for)"""
    _W["mode"] = mode
    _W["dev"] = known_dev
    _W["tier"] = _TIER[0]
    try:
        with open("/proc/self/statm") as f:
            cur = int(f.read().split()[0]) * resource.getpagesize()
        resource.setrlimit(resource.RLIMIT_AS, (cur + (3 << 30), cur + (3 << 30)))
    except (ValueError, OSError):
        pass
    signal.signal(signal.SIGPROF, _alarm)
    _W["slow"] = {}


def cpu_limit(seconds):
    """limit on the CPU time (never wall-clock: the machine may be loaded) of what follows; 0 switches it off"""
    signal.setitimer(signal.ITIMER_PROF, seconds)


CPU_ANALYSIS = 60          # CPU seconds for one analysis of an enumerated arrangement (it needs milliseconds)
CPU_ALIAS = 8              # ... with an extreme LAParams value in place of its ratio
CPU_SAMPLE = 240           # ... for the first pages of one sample file


def pool_map(fn, jobs, mode, dev):
    """map over a process pool; a worker that dies (killed, out of memory) is a machinery failure, never a hang"""
    ctx = multiprocessing.get_context("fork")
    try:
        with ProcessPoolExecutor(min(16, os.cpu_count() or 4), mp_context=ctx, initializer=_init_worker,
                                 initargs=(mode, dev)) as ex:
            return list(ex.map(fn, jobs))
    except BrokenProcessPool as e:
        raise MachineryError("a replay worker process died (%s)" % e)


def pool_fold(fn, jobs, mode, dev, fold):
    """run the jobs on a process pool and hand every result to fold() as soon as it is there - nothing is kept.
    A worker that dies (killed, out of memory) is a machinery failure, never a hang."""
    ctx = multiprocessing.get_context("fork")
    nproc = min(16, os.cpu_count() or 4)
    jobs = iter(jobs)
    try:
        with ProcessPoolExecutor(nproc, mp_context=ctx, initializer=_init_worker, initargs=(mode, dev)) as ex:
            pending = set()
            more = True
            while more or pending:
                while more and len(pending) < 3 * nproc:          # bounded number of submitted jobs
                    try:
                        pending.add(ex.submit(fn, next(jobs)))
                    except StopIteration:
                        more = False
                if not pending:
                    break
                done = next(as_completed(pending))
                pending.discard(done)
                fold(done.result())
    except BrokenProcessPool as e:
        raise MachineryError("a replay worker process died (%s)" % e)


def canon(tree):
    """the projected tree with the lines of every box that share their sort key (top edge; right edge in vertical boxes)
    put in content order - two trees equal under canon() differ only in the order of such lines"""
    out, groups = tree
    res = []
    for e in out:
        if e[0] == "box":
            key = (lambda ln: -ln[2][2]) if e[1] == "V" else (lambda ln: -ln[2][3])
            # only runs of consecutive lines with the same sort key are put in content order; lines with different
            # keys keep their places (a wrong order of those is a different tree)
            lines = []
            run = []
            for ln in e[4]:
                if run and key(run[-1]) != key(ln):
                    lines += sorted(run, key=lambda x: [g for g in x[1] if g > 0][:1])
                    run = []
                run.append(ln)
            lines += sorted(run, key=lambda x: [g for g in x[1] if g > 0][:1])
            res.append(e[:4] + (tuple(lines),))
        else:
            res.append(e)
    return tuple(res), groups


def short(rec):
    return {"page": [[it["k"], it["bb"], it["t"]] for it in rec["page"]], "p": rec["p"], "wh": rec["wh"]}


def replay_chunk(chunk):
    """chunk: list of groups (each a list of records with one key).  -> dict of counters and findings"""
    mode = _W["mode"]
    res = {"n": 0, "runs": 0, "dev": 0, "mismatch": [], "viol": [], "tie": 0, "tie_real": 0, "nontrivial": [],
           "colpage": 0, "scalecmp": 0, "samples": [], "pred_evals": 0, "sim_tie": 0, "gridties": 0, "alias_runs": 0, "alias_skipped": 0, "variant_runs": 0}
    for g in chunk:
        rs = parse_group(g)
        rec = rs[0]
        outs = {(R.model_out(r), R.model_groups(r)) for r in rs}
        outs_c = {(R.model_out(r, True), R.model_groups(r)) for r in rs}
        tie = len(outs) > 1
        res["tie"] += tie
        # -simulate follows one random choice at every id() tie: the outcome set of such an arrangement is incomplete
        sampled = rec.get("_sim") and any(r.get("tie") for r in rs)
        res["n"] += 1
        first = None
        per_scale = {}
        nb = rec["nb"]
        nglyph = sum(1 for it in rec["page"] if it["k"] == "c")
        if nglyph >= 2:
            res["nontrivial"].append(hash(R.rec_key(rec)) & 0xFFFFFFFFFFFF)
        runs = [(scale, rev, None, 0) for si, scale in enumerate(DIRECT_SCALES)
                for rev in ((False, True) if si == 0 else (si % 2 == 1,))]
        # other representatives of the glyph-text classes: blanks that are line feeds / carriage returns, glyphs whose
        # text has several characters (the tree must be the same, every line still ends in its own line break)
        if any(it["k"] == "c" and it["t"] == "s" for it in rec["page"]) or res["n"] % 8 == 0:
            runs += [(1, False, None, v) for v in R.VARIANTS[1:]]
        # extreme-but-valid LAParams (very large incl. inf, tiny positive) in place of the ratio that stands for them
        runs += [(1, False, al, 0) for al in R.la_aliases(rec["p"])]
        la_base = R.la_of(rec["p"])
        for scale, rev, alias, variant in runs:
            if True:
                if alias is not None and _W["slow"].get(alias, 0) >= 2:
                    res["alias_skipped"] += 1          # this value already ran out of CPU time twice in this worker
                    continue
                try:
                    cpu_limit(CPU_ANALYSIS if alias is None else CPU_ALIAS)
                    try:
                        cont, chars, items, la = R.analyze_direct(rec, scale, rev=rev, alias=alias, variant=variant)
                    finally:
                        cpu_limit(0)
                except MachineryError:
                    raise
                except AnalysisTimeout:
                    if alias is not None:
                        _W["slow"][alias] = _W["slow"].get(alias, 0) + 1
                    res["viol"].append(("no-termination", "analyze of a page of %d items did not return within %d s of CPU time%s"
                                        % (len(rec["page"]), CPU_ANALYSIS if alias is None else CPU_ALIAS,
                                           "" if alias is None else " with %s=%r" % (R.FIELDS[alias[0]], alias[1])),
                                        dict(short(rec), scale=str(scale), alias=repr(alias))))
                    continue
                except (Exception, MemoryError) as e:  # the analysis itself failed: termination / totality
                    res["viol"].append(("exception:" + type(e).__name__,
                                        "analyze raised %s: %s%s" % (type(e).__name__, str(e)[:200],
                                                                     "" if alias is None else " with %s=%r" % (R.FIELDS[alias[0]], alias[1])),
                                        dict(short(rec), scale=str(scale), alias=repr(alias))))
                    continue
                res["variant_runs"] += variant > 0
                if alias is not None:
                    res["alias_runs"] += 1
                    la = la_base                        # the predicates are evaluated with the ratio (exact arithmetic)
                got = (R.project(cont, chars, items, scale), R.proj_groups(cont, scale))
                res["runs"] += 1
                if first is None:
                    first = got
                per_scale.setdefault(scale, []).append((rev, got))
                ok = got in outs
                asdev = (not ok) and got in outs_c
                if not ok and not asdev and canon(got) in {canon(o) for o in outs | outs_c}:
                    # named deviation GridOrderTies: lines with the same top edge inside a box come in the order of
                    # the Plane grid.  No C08 clause speaks about that order; for C09 the outcome depends on the scale.
                    res["gridties"] += 1
                    if mode == "C09":
                        res["viol"].append(("dev:GridOrderTies", "lines with the same top edge inside a text box are ordered by the "
                                            "50 pt grid of utils.Plane, hence differently at another scale",
                                            dict(short(rec), scale=str(scale), rev=rev, observed=repr(got)[:1200])))
                    else:
                        # the property's own predicates are evaluated all the same
                        res["pred_evals"] += 1
                        for key, msg in O.c08_failures(cont, list(items), la):
                            res["viol"].append((key, msg, dict(short(rec), scale=str(scale), rev=rev, observed=repr(got)[:1200])))
                    continue
                check_pred = (not ok) or (res["n"] % 16 == 1 and scale == 1 and not rev and alias is None)
                fails = []
                if check_pred:
                    res["pred_evals"] += 1
                    its = list(items)
                    fails = O.c08_failures(cont, its, la) if mode == "C08" else O.c09_failures(cont, its, la)
                if asdev:
                    res["dev"] += 1
                    if mode == "C08":
                        nonidx = [f for f in fails if f[0] != "index"]
                        for key, msg in nonidx:
                            res["viol"].append((key, msg, dict(short(rec), scale=str(scale), rev=rev)))
                        if any(f[0] == "index" for f in fails):
                            res["viol"].append(("dev:NoIndexFlowNone", "boxes_flow=None: every text box keeps index -1",
                                                dict(short(rec), scale=str(scale))))
                    continue
                if not ok:
                    if fails:
                        for key, msg in fails:
                            res["viol"].append((key, msg, dict(short(rec), scale=str(scale), rev=rev,
                                                               observed=repr(got)[:1500], model=repr(sorted(outs)[0])[:1500])))
                    elif sampled:
                        res["sim_tie"] += 1
                    else:
                        res["mismatch"].append(dict(short(rec), scale=str(scale), rev=rev, observed=repr(got)[:800],
                                                    model=repr(sorted(outs)[0])[:800]))
                elif fails:
                    # the projected tree equals the model's, yet a predicate of the property fails on the real objects:
                    # it fails in something the projection does not carry (e.g. get_text of a container) - the
                    # predicate is the property as stated, so this is a violation
                    for key, msg in fails:
                        res["viol"].append((key, msg + " (the projected tree equals the specification's)",
                                            dict(short(rec), scale=str(scale), rev=rev)))
        # scale invariance on the real code: same outcome at every scale (compared where no id() tie is involved)
        if mode == "C09" and not tie and not sampled:
            base = per_scale.get(1, [(None, None)])[0][1]
            for scale, lst in per_scale.items():
                for rev, got in lst:
                    res["scalecmp"] += 1
                    if got != base and canon(got) == canon(base):
                        res["viol"].append(("dev:GridOrderTies", "the order of lines with the same top edge inside a text box "
                                            "changes between scale 1 and scale %s" % scale, dict(short(rec), scale=str(scale))))
                    elif got != base:
                        res["viol"].append(("scale-variant", "outcome at scale %s differs from scale 1" % scale,
                                            dict(short(rec), scale=str(scale), at_scale=repr(got)[:1200], at_1=repr(base)[:1200])))
        if tie:
            a = per_scale.get(1, [])
            if len(a) >= 2 and a[0][1] != a[1][1]:
                res["tie_real"] += 1
        if rec.get("colpage"):
            res["colpage"] += 1
        if len(res["samples"]) < 2 and nb >= 2 and first is not None:
            res["samples"].append({"arrangement": short(rec), "model_outcomes": len(outs), "real_out": repr(first)[:600]})
    return res


CPU_DOCUMENT = 120         # CPU seconds for one generated document (up to 150 pages of a few glyphs)


def pdf_guard(fn, data, la, recs, scale, env, res, what):
    """extract_pages / extract_text of a generated document under a CPU-time limit.  An exception or a time-out of the
    library on a well-formed generated document is a finding (analysis must come back), located by running the pages
    one by one.  -> result or None"""
    def run(d):
        cpu_limit(CPU_DOCUMENT)
        try:
            return fn(d, la)
        finally:
            cpu_limit(0)
    try:
        return run(data)
    except MachineryError:
        raise
    except (AnalysisTimeout, Exception, MemoryError) as e:
        key = "no-termination" if isinstance(e, AnalysisTimeout) else "exception:" + type(e).__name__
        culprit = recs[0]
        for r in recs[:150]:
            try:
                run(R.pdf_of([r], scale, env=env))
            except MachineryError:
                raise
            except (AnalysisTimeout, Exception, MemoryError):
                culprit = r
                break
        res["viol"].append((key, "%s of a generated document raised %s: %s" % (what, type(e).__name__, str(e)[:160]),
                            dict(short(culprit), scale=str(scale), route="pdf", rotate=env)))
        return None


def page_environments(groups, la, res):
    """C09, document route: the same arrangements on pages with /Rotate 0, 90, 180, 270 and a media box that is not square
    (text beyond the short side).  The grouping must be the specification's: which lines join does not depend on how the
    page is turned.  Every eligible arrangement goes to one of the four rotations."""
    elig = [rs for rs in groups if R.env_eligible(rs[0]) and not (rs[0].get("_sim") and any(r.get("tie") for r in rs))]
    if _W.get("tier") == "quick":
        elig = elig[::2]
    for ri, rot in enumerate(R.ENV_ROTATIONS):
        part = elig[ri::len(R.ENV_ROTATIONS)]
        if not part:
            continue
        data = R.pdf_of([rs[0] for rs in part], 1, env=rot)
        pages = pdf_guard(R.pdf_pages, data, la, [rs[0] for rs in part], 1, rot, res, "extract_pages")
        res["docs"] += 1
        if pages is None:
            continue
        if len(pages) != len(part):
            raise MachineryError("generated PDF has %d pages, expected %d" % (len(pages), len(part)))
        seen = R.env_page(rot, 1)[2]
        for pg, rs in zip(pages, part):
            rec = rs[0]
            outs = {(R.model_out(r), R.model_groups(r)) for r in rs} | {(R.model_out(r, True), R.model_groups(r)) for r in rs}
            chars = []
            got = (R.project_pdf_page(pg, rec, 1, dx=R.ENV_DX, chars_out=chars), R.proj_groups(pg, 1, dx=R.ENV_DX))
            res["pages"] += 1
            res["env_pages"] += 1
            if got in outs:
                continue
            fails = O.c09_failures(pg, [c for _, c in sorted(chars, key=lambda x: x[0])], la, bounds=seen)
            case = dict(short(rec), route="pdf", rotate=rot, page_bbox=repr(tuple(pg.bbox)), observed=repr(got)[:1000])
            if fails:
                for key, msg in fails:
                    res["viol"].append((key, msg + " (page with /Rotate %d, page box %r)" % (rot, tuple(pg.bbox)), case))
            elif canon(got) in {canon(o) for o in outs}:
                res["gridties"] += 1
            else:
                res["mismatch"].append(dict(case, model=repr(sorted(outs)[0])[:800]))


def replay_pdf_chunk(job):
    """job: (groups sharing one LAParams, scales, with_text) -> counters/findings.  One document per scale,
    one page per arrangement."""
    groups, scales, with_text = job
    groups = [parse_group(g) for g in groups]
    mode = _W["mode"]
    res = {"pages": 0, "docs": 0, "mismatch": [], "viol": [], "dev": 0, "text": 0, "scalecmp": 0, "gridties": 0, "env_pages": 0}
    if not groups:
        return res
    la = R.la_of(groups[0][0]["p"])
    per_scale = {}
    for scale in scales:
        data = R.pdf_of([rs[0] for rs in groups], scale)
        pages = pdf_guard(R.pdf_pages, data, la, [rs[0] for rs in groups], scale, None, res, "extract_pages")
        res["docs"] += 1
        if pages is None:
            continue
        if len(pages) != len(groups):
            raise MachineryError("generated PDF has %d pages, expected %d" % (len(pages), len(groups)))
        texts = None
        if with_text and mode == "C08":
            texts = pdf_guard(R.pdf_text, data, la, [rs[0] for rs in groups], scale, None, res, "extract_text")
            if texts is None:
                continue
            texts = texts.split("\f")
            if len(texts) != len(groups) + 1 or texts[-1] != "":
                raise MachineryError("extract_text output has %d form feeds for %d pages" % (len(texts) - 1, len(groups)))
        for i, (pg, rs) in enumerate(zip(pages, groups)):
            rec = rs[0]
            outs = {(R.model_out(r), R.model_groups(r)) for r in rs}
            outs_c = {(R.model_out(r, True), R.model_groups(r)) for r in rs}
            got = (R.project_pdf_page(pg, rec, scale), R.proj_groups(pg, scale))
            res["pages"] += 1
            per_scale.setdefault(i, {})[scale] = got
            sampled = rec.get("_sim") and any(r.get("tie") for r in rs)
            if got in outs or got in outs_c:
                if got not in outs:
                    res["dev"] += 1
            elif sampled:
                pass
            elif canon(got) in {canon(o) for o in outs | outs_c}:
                res["gridties"] += 1
                if mode == "C09":
                    res["viol"].append(("dev:GridOrderTies", "PDF route: lines with the same top edge inside a text box are "
                                        "ordered by the 50 pt grid of utils.Plane", dict(short(rec), scale=str(scale), route="pdf")))
            else:
                res["mismatch"].append(dict(short(rec), scale=str(scale), route="pdf", observed=repr(got)[:800],
                                            model=repr(sorted(outs)[0])[:800]))
            if texts is not None:
                res["text"] += 1
                # the text must be the concatenation of a tree the analysis can give: an outcome of the specification
                # (extract_text is a second run, its id() ties may fall differently) or the tree extract_pages gave
                want = {R.expected_text(o[0], rec) for o in outs | outs_c} | {R.expected_text(got[0], rec)}
                if texts[i] + "\f" not in want and not sampled:
                    res["viol"].append(("text-concat", "extract_text of the page is not the concatenation of its boxes' text",
                                        dict(short(rec), scale=str(scale), observed=texts[i][:300], expected=sorted(want)[0][:300])))
    if mode == "C09":
        page_environments(groups, la, res)
    if mode == "C09" and len(scales) > 1:
        for i, d in per_scale.items():
            if len({(R.model_out(r), R.model_groups(r)) for r in groups[i]}) > 1 or \
                    (groups[i][0].get("_sim") and any(r.get("tie") for r in groups[i])):
                continue
            vals = list(d.values())
            res["scalecmp"] += len(vals) - 1
            if any(v != vals[0] for v in vals[1:]) and all(canon(v) == canon(vals[0]) for v in vals[1:]):
                res["viol"].append(("dev:GridOrderTies", "PDF route: the order of lines with the same top edge inside a text box "
                                    "differs between scales %s" % (list(d),), dict(short(groups[i][0]), route="pdf")))
            elif any(v != vals[0] for v in vals[1:]):
                res["viol"].append(("scale-variant", "PDF route: outcome differs between scales %s" % (list(d),),
                                    dict(short(groups[i][0]), route="pdf")))
    return res


VIOL_PER_KEY = 20          # violating cases kept (with their replay data) per key and worker; all are counted
KEEP_MISMATCH = 3


def bucketize(ck, outs):
    """stream every record TLC printed into hash buckets on disk (nothing is kept in memory): one bucket = all records
    of some LAParams and a quarter of their arrangements, so that a worker can group the outcomes of an arrangement
    and build one PDF per LAParams.  Lines are tagged with the index of their family.  -> (paths, family names)"""
    bdir = os.path.join(ck.tmp, "buckets")
    os.makedirs(bdir, exist_ok=True)
    names = [n for n, _ in outs]
    buf = {}
    size = 0
    paths = set()

    def flush():
        for b, lines in buf.items():
            pth = os.path.join(bdir, "b%08x" % b)
            with open(pth, "a") as f:
                f.writelines(lines)
            paths.add(pth)
        buf.clear()
    for fi, (name, emit) in enumerate(outs):
        n = 0
        with open(emit) as f:
            for line in f:
                n += 1
                i = line.find(',"out":')
                j = line.find(',"p":')
                if not (line.startswith('{"page":') and 0 < j < i):
                    raise MachineryError("unexpected record layout in %s: %s" % (emit, line[:120]))
                b = (zlib.crc32(line[j:i].encode()) & 0xFFFFFF) * 4 + (zlib.crc32(line[:j].encode()) & 3)
                buf.setdefault(b, []).append("%d\t%s" % (fi, line))
                size += len(line)
                if size > (32 << 20):
                    flush()
                    size = 0
        os.remove(emit)
        if n == 0:
            raise MachineryError("family %s: TLC printed no completed analysis" % name)
    flush()
    return sorted(paths), names


def replay_bucket(job):
    """one bucket file: group the records by arrangement, replay every arrangement (objects and PDF) -> compact result"""
    path, names, pdf_every, pdf_scales, pdf_text_every = job
    sim_index = names.index("simulate") if "simulate" in names else -1
    groups = {}
    with open(path) as f:
        for raw in f:
            fi, line = raw.split("\t", 1)
            fi = int(fi)
            i = line.find(',"out":')
            g = groups.get(line[:i])
            if g is None:
                groups[line[:i]] = g = [set(), set()]
            g[0].add(fi)
            g[1].add((fi == sim_index, line))
    os.remove(path)
    per_family = {}
    glist = []
    for key, (fams, lines) in groups.items():
        exhaustive = [ln for s_, ln in lines if not s_]
        sim = not exhaustive                                   # an exhaustively explored copy wins
        use = sorted(set(exhaustive)) if exhaustive else sorted({ln for _, ln in lines})
        fam = min(f for f in fams if (f == sim_index) == sim)
        per_family[names[fam]] = per_family.get(names[fam], 0) + 1
        glist.append((sim, head_of(use[0]), use))
    groups = None
    out = {"per_family": per_family, "d": replay_chunk(glist), "p": []}
    byp = {}
    for i, g in enumerate(glist):
        if R.pdf_realisable(g[1]) and (zlib.crc32(g[2][0][:200].encode()) + i) % pdf_every == 0:
            byp.setdefault(R.pkey(g[1]["p"]), []).append(g)
    k = 0
    for lst in byp.values():
        for o in range(0, len(lst), 150):
            out["p"].append(replay_pdf_chunk((lst[o:o + 150], pdf_scales, (k % pdf_text_every) == 0)))
            k += 1
    # keep the result small: everything is counted, a bounded number of cases is carried along
    for r in [out["d"]] + out["p"]:
        cnt = {}
        kept = []
        for v in r["viol"]:
            cnt[v[0]] = cnt.get(v[0], 0) + 1
            if cnt[v[0]] <= VIOL_PER_KEY:
                kept.append(v)
        r["viol"] = kept
        r["viol_count"] = cnt
        r["mismatch_count"] = len(r["mismatch"])
        r["mismatch"] = r["mismatch"][:KEEP_MISMATCH]
    return out


def direction_a(ck, mode, invariants, dev, pdf_every, pdf_scales, pdf_text_every, extra_jobs=()):
    outs = tlc_direction_a(ck, invariants, dev, extra_jobs)
    t0 = time.time()
    paths, names = bucketize(ck, sorted(outs, key=lambda x: x[0] == "simulate"))
    tot = {"n": 0, "runs": 0, "dev": 0, "tie": 0, "tie_real": 0, "colpage": 0, "scalecmp": 0, "pred_evals": 0, "sim_tie": 0, "gridties": 0,
           "alias_runs": 0, "alias_skipped": 0, "variant_runs": 0}
    pdf = {"pages": 0, "docs": 0, "dev": 0, "text": 0, "scalecmp": 0, "gridties": 0, "env_pages": 0}
    per_family = {}
    mismatches = []
    nmis = [0]
    perkey = {}
    reported = {}

    def report(key, msg, case):
        # every violating case counts (perkey); at most VIOL_PER_KEY replay files per key are written
        reported[key] = reported.get(key, 0) + 1
        if reported[key] <= VIOL_PER_KEY or ck.is_known(key):
            ck.violation(key, msg, case)

    def fold(out):
        for k, v in out["per_family"].items():
            per_family[k] = per_family.get(k, 0) + v
        r = out["d"]
        for k in tot:
            tot[k] += r[k]
        for h in r["nontrivial"]:
            ck.case(0, ("A", h))
        for s in r["samples"]:
            ck.sample(s, limit=6)
        for r in [out["d"]] + out["p"]:
            nmis[0] += r["mismatch_count"]
            if len(mismatches) < KEEP_MISMATCH:
                mismatches.extend(r["mismatch"])
            for key, n in r["viol_count"].items():
                perkey[key] = perkey.get(key, 0) + n
            for key, msg, case in r["viol"]:
                report(key, msg, case)
        for r in out["p"]:
            for k in pdf:
                pdf[k] += r[k]
    pool_fold(replay_bucket, ((p, names, pdf_every, pdf_scales, pdf_text_every) for p in paths), mode, dev, fold)
    ck.extra["arrangements_per_family"] = per_family
    ck.extra["replay_buckets"] = len(paths)
    if perkey:
        ck.extra["violating_cases_per_key"] = perkey
    ck.evaluations += tot["runs"] + pdf["pages"]
    ck.replayed += tot["n"]
    ck.extra["direct_runs"] = tot["runs"]
    ck.extra["runs_with_extreme_laparams_values"] = tot["alias_runs"]
    ck.extra["runs_with_other_glyph_texts"] = tot["variant_runs"]
    if tot["alias_skipped"]:
        ck.extra["extreme_laparams_runs_skipped_after_timeouts"] = tot["alias_skipped"]
    ck.extra["pdf_pages_analysed"] = pdf["pages"]
    ck.extra["pdf_documents"] = pdf["docs"]
    ck.extra["pdf_pages_on_rotated_nonsquare_pages"] = pdf["env_pages"]
    ck.extra["pdf_extract_text_pages"] = pdf["text"]
    ck.extra["real_predicate_evaluations"] = tot["pred_evals"]
    ck.extra["ascoded_deviation_hits"] = tot["dev"] + pdf["dev"]
    ck.extra["tiebreak_dependent_arrangements"] = tot["tie"]
    ck.extra["tiebreak_dependence_realised_with_reversed_ids"] = tot["tie_real"]
    ck.extra["column_pages"] = tot["colpage"]
    ck.extra["simulated_runs_on_another_tiebreak_path"] = tot["sim_tie"]
    ck.extra["runs_differing_only_in_the_order_of_equal_top_lines"] = tot["gridties"] + pdf["gridties"]
    ck.extra["scale_comparisons"] = tot["scalecmp"] + pdf["scalecmp"]
    ck.extra["model_code_drift"] = nmis[0]
    ck.extra["replay_wall_s"] = round(time.time() - t0, 1)
    if nmis[0]:
        ck.note("%d realised arrangements where the real tree differs from every outcome of the specification while the "
                "property's own predicates hold on the real tree (spec/code drift), first: %s"
                % (nmis[0], json.dumps(mismatches[0])[:700]))
    if tot["tie"]:
        ck.note("TieBreakIrrelevant is refuted by TLC: %d arrangements have more than one outcome depending on the id() "
                "tie-break of group_textboxes; %d of them change their box order on the real code when id() order is "
                "reversed (allocation dependence - a C12 matter, the real result is always one of the model's outcomes)"
                % (tot["tie"], tot["tie_real"]))
    return tot["n"]


# ------------------------------------------------------------------------------------------------ direction B
def sample_files(tier, rng):
    files = sorted(glob.glob("/repo/samples/**/*.pdf", recursive=True))
    files = [f for f in files if "encryption" not in f and "nonfree" not in f] + \
            [f for f in files if "nonfree" in f and tier == "thorough"]
    prefer = ["simple1.pdf", "simple3.pdf", "simple4.pdf", "simple5.pdf", "jo.pdf", "issue-449-horizontal.pdf",
              "issue-449-vertical.pdf", "2b.pdf", "matplotlib.pdf", "issue_566_test_1.pdf", "test_pdf_with_tiling_color_patterns.pdf"]
    if tier == "quick":
        pick = [f for f in files if os.path.basename(f) in prefer]
        return pick
    return files


LA_VARIANTS = [
    dict(), dict(boxes_flow=None), dict(detect_vertical=True, all_texts=True),
    dict(line_margin=0.25, char_margin=1.0, word_margin=0.25, boxes_flow=-0.5),
]


def record_file(args):
    path, la_kwargs, maxpages, max_heap_boxes = args
    from pdfminer.high_level import extract_pages
    from pdfminer.layout import LAParams
    la = LAParams(**la_kwargs)
    out = {"path": path, "la": la_kwargs, "traces": [], "fail08": [], "fail09": [], "error": None, "containers": 0,
           "skipped": 0, "glyphs": 0}
    rec = O.Recorder(max_heap_boxes=max_heap_boxes)
    try:
        cpu_limit(CPU_SAMPLE)
        try:
            with rec:
                for _ in extract_pages(path, laparams=la, maxpages=maxpages):
                    pass
        finally:
            cpu_limit(0)
    except MachineryError:
        raise
    except AnalysisTimeout:
        out["fail08"].append(("no-termination", "layout analysis of the first pages did not return within 240 s of CPU time",
                              "%s %s" % (os.path.relpath(path, "/repo"), la_kwargs)))
        return out
    except MemoryError:
        out["fail08"].append(("no-termination", "layout analysis ran out of memory (3 GiB ceiling)",
                              "%s %s" % (os.path.relpath(path, "/repo"), la_kwargs)))
        return out
    except Exception as e:
        # a failure inside the layout analysis is a finding of C08 (analysis must come back); failures elsewhere
        # (parsing, fonts) belong to other properties
        import traceback
        tb = traceback.extract_tb(e.__traceback__)
        if any(fr.filename.endswith("layout.py") for fr in tb) and rec.stack is not None and \
                any(fr.name in ("analyze", "group_objects", "group_textlines", "group_textboxes") for fr in tb):
            out["fail08"].append(("exception:" + type(e).__name__, "layout analysis raised %s: %s" % (type(e).__name__, str(e)[:160]),
                                  "%s %s" % (os.path.relpath(path, "/repo"), la_kwargs)))
            return out
        out["error"] = "%s: %s" % (type(e).__name__, str(e)[:200])
        return out
    for i, run in enumerate(rec.runs):
        out["containers"] += 1
        origin = "%s %s container#%d" % (os.path.relpath(path, "/repo"), la_kwargs, i)
        for key, msg in O.c08_failures(run["cont"], run["items"], la):
            out["fail08"].append((key, msg, origin))
        f9 = {}
        for key, msg in O.c09_failures(run["cont"], run["items"], la, f9):
            out["fail09"].append((key, msg, origin))
        out["rounding09"] = out.get("rounding09", 0) + f9.get("rounding", 0)
        tr = O.trace_of(run, 0, origin)
        if tr is None:
            out["skipped"] += 1
            continue
        out["glyphs"] += tr["n"]
        out["traces"].append(tr)
    return out


def record_samples(ck, mode, corrupt=None):
    """run the real analysis on the samples with the recorder on; evaluate the property's predicates on every real
    tree; -> trace records.  (uses a process pool: call before any thread is started)"""
    import random
    rng = random.Random(ck.seed)
    files = sample_files(ck.tier, rng)
    if not files:
        raise MachineryError("no sample files found under /repo/samples")
    maxpages = 3 if ck.tier == "quick" else 12
    variants = LA_VARIANTS[:3] if ck.tier == "quick" else LA_VARIANTS
    jobs = [(f, v, maxpages, 30 if ck.tier == "quick" else 60) for f in files for v in variants]
    results = pool_map(record_file, jobs, mode, [])
    traces = []
    rounding = {}
    errors = 0
    for r in results:
        if r["error"]:
            errors += 1
            continue
        for key, msg, origin in (r["fail08"] if mode == "C08" else r["fail09"]):
            if key == "index" and ck.is_known("dev:NoIndexFlowNone") and "boxes_flow" in r["la"] and r["la"]["boxes_flow"] is None:
                ck.violation("dev:NoIndexFlowNone", msg, {"origin": origin})
            else:
                ck.violation(key, "%s (%s)" % (msg, origin), {"origin": origin, "laparams": r["la"]})
        if r.get("rounding09"):
            rounding["c09-predicates"] = rounding.get("c09-predicates", 0) + r["rounding09"]
        for tr in r["traces"]:
            tr["tid"] = len(traces) + 1
            for k, v in tr["rounding"].items():
                rounding[k] = rounding.get(k, 0) + v
            traces.append(tr)
            ck.case(1, ("B", tr["origin"]) if tr["n"] >= 2 else None)
    ck.extra["sample_files"] = len(files)
    ck.extra["sample_runs_failed_to_parse"] = errors
    ck.extra["rounding_sensitive_facts"] = rounding
    if not traces:
        raise MachineryError("no analysis was recorded from the samples")
    if corrupt:
        corrupt(traces)
    limit = 2500 if ck.tier == "quick" else 12000
    traces = [t for t in traces if t["n"] <= limit]
    ck.extra["trace_containers"] = len(traces)
    ck.extra["trace_glyphs"] = sum(t["n"] for t in traces)
    ck.extra["trace_heap_events"] = sum(len(t["ev"]) for t in traces)
    if traces:
        big = max(traces, key=lambda t: t["n"])
        ck.sample({"recorded_container": big["origin"], "glyphs": big["n"], "lines": len(big["lines"]),
                   "boxes": len(big["boxes0"]), "heap_events": len(big["ev"])})
    return traces


def direction_b(ck, mode, dev, corrupt=None):
    """stand-alone direction B (recording + validation)"""
    traces = record_samples(ck, mode, corrupt)
    jobs = trace_jobs(ck, traces, dev, mode)
    with ThreadPoolExecutor(max_workers=6) as ex:
        results = list(ex.map(lambda j: j(), jobs))
    finish_traces(ck, results)
    return traces


TRACE_INV = {"C08": ["TConservation", "TBBoxIsUnion", "TOneOrientationAndNewline", "TLineOrder", "TIndices0toN", "TTextIsConcat"],
             "C09": ["TGroupOrder", "TLineOrder"]}


def trace_jobs(ck, traces, dev, mode):
    """-> callables, one per batch of records; each runs TLC on LayoutTrace.tla (a rejected record is reported and the
    rest of its batch is run again) and returns (accepted, rejected, results)"""
    cfg = write_cfg(os.path.join(ck.tmp, "lay_trace.cfg"), constants={"Dev": tla_set(dev) if dev else "{}"}, spec="Spec",
                    invariants=TRACE_INV[mode], deadlock=True)
    nb = max(1, min(6, (len(traces) + 3) // 4))
    order = sorted(traces, key=lambda t: -t["n"])
    batches = [order[i::nb] for i in range(nb)]

    def make(bi):
        def one():
            todo = list(batches[bi])
            acc = rej = 0
            results = []
            n = 0
            while todo:
                n += 1
                tf = os.path.join(ck.tmp, "lay_traces_%d_%d.json" % (bi, n))
                with open(tf, "w") as f:
                    json.dump(todo, f)
                # -difftrace: a rejection prints only the variables that changed from state to state (the full error
                # trace of a page of thousands of glyphs is hundreds of megabytes)
                res = run_tlc(TRACE_SPEC, cfg, workers=1, env={"TRACE_FILE": tf, "JAVA_TOOL_OPTIONS": "-Xss512m"},
                              timeout=3600, heap="3g", extra=["-difftrace"])
                os.remove(tf)
                results.append(res)
                if res.ok:
                    acc += len(todo)
                    break
                if not res.error_trace:
                    raise MachineryError("trace validation failed without a trace: " + res.error_text[:2000])
                st = {}
                for _, changed in res.error_trace:
                    st.update(changed)
                res.error_trace = res.error_trace[-1:]
                res.stdout = res.stdout[-4000:]
                res.error_text = res.error_text[:4000]
                ti = int(st["t"])
                tr = todo[ti - 1]
                acc += ti - 1
                rej += 1
                results.append(("rejected", tr, res.violated, st.get("st", "?"), st.get("k", "?")))
                todo = todo[ti:]
            return acc, rej, results
        return one
    return [make(i) for i in range(len(batches))]


def finish_traces(ck, job_results):
    acc = rej = 0
    runs = []
    for a, r, results in job_results:
        acc += a
        rej += r
        for x in results:
            if isinstance(x, tuple):
                _, tr, viol, st, k = x
                key = "trace-rejected:" + (viol if viol != "deadlock" else "skeleton:%s" % st.strip('"'))
                ck.violation(key, "recorded analysis of %s is not a behaviour of the layout specification: %s at stage %s step %s"
                             % (tr["origin"], viol, st, k),
                             {"origin": tr["origin"], "stage": st, "step": k, "violated": viol, "glyphs": tr["n"]})
            else:
                runs.append(x)
    if runs:
        class M:
            pass
        m = M()
        m.distinct = sum(r.distinct for r in runs)
        m.generated = sum(r.generated for r in runs)
        m.depth = max(r.depth for r in runs)
        m.wall = sum(r.wall for r in runs)
        m.actions = {}
        m.cmd = runs[0].cmd
        ck.add_tlc(m, "trace validation (LayoutTrace.tla), %d TLC runs" % len(runs))
    ck.traces += acc
    ck.extra["traces_rejected"] = rej
    return acc, rej


# ------------------------------------------------------------------------------------------------ the as-coded design
def ascoded_model_run(ck, dev, invariants, fam=("ParamsFig", "FigMoves", 2, "NoTr", "PageOnly", "First1", [])):
    """TLC on the specification with the named deviations switched on (the design as coded), small space."""
    cfg = write_cfg(os.path.join(ck.tmp, "lay_ascoded.cfg"), constants=consts(fam, dev), invariants=invariants, deadlock=True)
    return run_tlc(SPEC, cfg, workers=2, timeout=600)
