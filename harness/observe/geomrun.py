"""C20: projection of the real utils.Plane / matrix helpers, and run-time observation wrappers.

Nothing here edits /repo: the wrappers are installed on the imported classes/modules in this process only.
"""
import logging
import math
import sys
from fractions import Fraction

logging.disable(logging.CRITICAL)

from ..tlc import MachineryError  # noqa: E402

try:
    from pdfminer import utils as U  # noqa: E402
    from pdfminer.utils import Plane  # noqa: E402
    HELPERS = {"mult": U.mult_matrix, "translate": U.translate_matrix, "pt": U.apply_matrix_pt,
               "norm": U.apply_matrix_norm, "rect": U.apply_matrix_rect}
    for _a in ("_seq", "_objs", "_grid", "add", "remove", "find", "__iter__", "__len__", "_getrange"):
        if not hasattr(Plane((0, 0, 1, 1)), _a):
            raise AttributeError("Plane." + _a)
except (ImportError, AttributeError) as e:  # a projection that cannot be computed is a machinery failure
    raise MachineryError("C20 anchors missing in pdfminer.utils: %r" % (e,))


class Stub:
    """an object with a bounding box, as Plane expects (hash/eq by identity like LTComponent)"""
    __slots__ = ("oid", "x0", "y0", "x1", "y1")

    def __init__(self, oid, box):
        self.oid = oid
        (self.x0, self.y0, self.x1, self.y1) = box

    def __repr__(self):
        return "o%d" % self.oid


def project(plane):
    """abs(): real Plane -> (seq ids, live ids, {cell: [ids]}) - the state of PlaneOps"""
    return ([o.oid for o in plane._seq], sorted(o.oid for o in plane._objs),
            {(int(k[0]), int(k[1])): [o.oid for o in v] for k, v in plane._grid.items()})


REALISE = {
    "frac": lambda h, u: Fraction(h, u),
    "float": lambda h, u: h / u,                       # exact for u a power of two
    "mixed": lambda h, u: (h // u) if h % u == 0 else h / u,   # ints where integral, like PDF numbers
}


def run_history(su, hist, mode):
    """Replay one history of the Plane specification on the real class.
    -> dict(seq, objs, grid, it, f, n, pure) ; raises nothing from the harness itself."""
    u = su["u"]
    conv = REALISE[mode]
    cb = lambda b: tuple(conv(h, u) for h in b)  # noqa: E731
    plane = Plane(cb(su["pb"]), su["g"])
    objs = [Stub(i + 1, cb(b)) for i, b in enumerate(su["box"])]
    rejected_ok = True
    for op, o in hist:
        if op == "add":
            plane.add(objs[o - 1])
        elif op == "remove":
            plane.remove(objs[o - 1])
        else:                       # "xremove": the object is not in the index - the call is rejected with KeyError
            try:                    # (any other exception propagates to the caller), and the walk goes on
                plane.remove(objs[o - 1])
                rejected_ok = False
            except KeyError:
                pass
    seq, live, grid = project(plane)
    finds = [[o.oid for o in plane.find(cb(q))] for q in su["qs"]]
    it = [o.oid for o in plane]
    n = len(plane)
    contains = sorted(o.oid for o in objs if o in plane)
    pure = project(plane) == (seq, live, grid)
    return {"seq": seq, "objs": live, "grid": grid, "f": finds, "it": it, "n": n, "contains": contains, "pure": pure,
            "rejected_raised": rejected_ok}


# ------------------------------------------------------------------------------------------ Plane recorder
class PlaneRecorder:
    """Wraps the public methods of utils.Plane (in this process) and records one trace per instance."""

    def __init__(self, max_events=600):
        self.traces = []
        self.max_events = max_events
        self._saved = {}

    def install(self):
        rec = self
        P = Plane
        for name in ("__init__", "add", "remove", "find", "__iter__", "__len__"):
            self._saved[name] = P.__dict__[name]
        o_init, o_add, o_remove, o_find, o_iter, o_len = (self._saved[n] for n in
                                                          ("__init__", "add", "remove", "find", "__iter__", "__len__"))

        def tr_of(self_):
            return self_.__dict__.get("_verif_tr")

        def oid(tr, obj):
            i = tr["ids"].get(id(obj))
            if i is None:
                i = len(tr["ids"]) + 1
                tr["ids"][id(obj)] = i
                tr["keep"].append(obj)
            return i

        def log(tr, e):
            if tr is not None and len(tr["ev"]) < rec.max_events and not tr["cut"]:
                tr["ev"].append(e)
            elif tr is not None:
                tr["cut"] = True

        def init(self_, bbox, gridsize=50):
            o_init(self_, bbox, gridsize)
            tr = {"pb": tuple(bbox), "g": gridsize, "ev": [], "ids": {}, "keep": [], "cut": False}
            self_.__dict__["_verif_tr"] = tr
            rec.traces.append(tr)

        def add(self_, obj):
            try:
                return o_add(self_, obj)
            finally:
                tr = tr_of(self_)
                if tr is not None:
                    log(tr, {"op": "add", "o": oid(tr, obj), "b": (obj.x0, obj.y0, obj.x1, obj.y1), "n": o_len(self_)})

        def remove(self_, obj):
            ok = False
            try:
                r = o_remove(self_, obj)
                ok = True
                return r
            finally:                # a call that raises (object not in the index) is logged as "xremove"
                tr = tr_of(self_)
                if tr is not None:
                    log(tr, {"op": "remove" if ok else "xremove", "o": oid(tr, obj), "b": (obj.x0, obj.y0, obj.x1, obj.y1),
                             "n": o_len(self_)})

        def find(self_, bbox):
            res = list(o_find(self_, bbox))
            tr = tr_of(self_)
            if tr is not None:
                log(tr, {"op": "find", "b": tuple(bbox), "r": [oid(tr, o) for o in res]})
            return iter(res)

        def it(self_):
            res = list(o_iter(self_))
            tr = tr_of(self_)
            if tr is not None:
                log(tr, {"op": "iter", "r": [oid(tr, o) for o in res]})
            return iter(res)

        def ln(self_):
            n = o_len(self_)
            tr = tr_of(self_)
            if tr is not None:
                log(tr, {"op": "len", "n": n})
            return n

        P.__init__, P.add, P.remove, P.find, P.__iter__, P.__len__ = init, add, remove, find, it, ln
        return self

    def uninstall(self):
        for name, f in self._saved.items():
            setattr(Plane, name, f)
        self._saved = {}


def _toint(v, trunc):
    return int(v) if trunc else math.floor(v)


def cell_range(b, pb, g, trunc, exact=True):
    """Plane._getrange as PlaneOps.CellRange states it.  exact: Fraction arithmetic; else the float arithmetic
    of the code (only used for the as-coded variant on arbitrary binary64 coordinates)."""
    cv = Fraction if exact else (lambda v: v)
    x0, y0, x1, y1 = (cv(v) for v in b)
    px0, py0, px1, py1 = (cv(v) for v in pb)
    if x1 <= px0 or px1 <= x0 or y1 <= py0 or py1 <= y0:
        return [0, 0, 0, 0]
    x0, y0, x1, y1 = max(px0, x0), max(py0, y0), min(px1, x1), min(py1, y1)
    return [_toint(x0, trunc) // g, _toint(x1 + g, trunc) // g, _toint(y0, trunc) // g, _toint(y1 + g, trunc) // g]


def trace_for_tlc(tr, origin, unit=0):
    """recorded trace -> the record PlaneTrace.tla reads.
    unit > 0: every coordinate is an exact multiple of 1/unit (checked) and is sent as that integer;
    unit = 0: coordinates are sent as ranks, with the cell ranges as arithmetic facts (cf exact floor, ct as coded)."""
    pb, g = tr["pb"], tr["g"]
    evs = tr["ev"]
    if unit:
        def ci(v):
            x = Fraction(v) * unit
            if x.denominator != 1 or abs(x) >= 2 ** 30:
                raise MachineryError("coordinate %r is not a multiple of 1/%d" % (v, unit))
            return int(x)
        out = []
        for e in evs:
            d = {"op": e["op"], "o": e.get("o", 0), "b": [ci(v) for v in e.get("b", (0, 0, 0, 0))],
                 "r": e.get("r", []), "n": e.get("n", 0), "cf": [0, 0, 0, 0], "ct": [0, 0, 0, 0]}
            out.append(d)
        return {"origin": origin, "u": unit, "g": g, "pb": [ci(v) for v in pb], "ev": out}
    vals = set(pb)
    for e in evs:
        vals.update(e.get("b", ()))
    if any(isinstance(v, float) and (math.isinf(v) or math.isnan(v)) for v in vals):
        return None                                     # a Plane over an unbounded box: int(INF) raises in the code
    rank = {v: i for i, v in enumerate(sorted(vals, key=Fraction))}
    out = []
    for e in evs:
        b = e.get("b")
        d = {"op": e["op"], "o": e.get("o", 0), "b": [rank[v] for v in b] if b else [0, 0, 0, 0],
             "r": e.get("r", []), "n": e.get("n", 0),
             "cf": cell_range(b, pb, g, False) if b else [0, 0, 0, 0],
             "ct": cell_range(b, pb, g, True, exact=False) if b else [0, 0, 0, 0]}
        out.append(d)
    return {"origin": origin, "u": 0, "g": g, "pb": [rank[v] for v in pb], "ev": out}


# ------------------------------------------------------------------------------------------ helper recorder
class HelperRecorder:
    """Wraps the five matrix helpers wherever pdfminer modules have bound them and records integral calls."""
    NAMES = {"mult_matrix": "mult", "translate_matrix": "translate", "apply_matrix_pt": "pt",
             "apply_matrix_norm": "norm", "apply_matrix_rect": "rect"}

    def __init__(self, limit=4000, bound=1 << 13):
        self.ev = []
        self.limit = limit
        self.bound = bound
        self.calls = 0
        self._patched = []

    @staticmethod
    def _integral(t, bound):
        out = []
        for v in t:
            if isinstance(v, bool):
                return None
            if isinstance(v, int):
                i = v
            elif isinstance(v, float) and v.is_integer():
                i = int(v)
            elif isinstance(v, Fraction) and v.denominator == 1:
                i = int(v)
            else:
                return None
            if abs(i) > bound:
                return None
            out.append(i)
        return out

    def install(self):
        rec = self
        for pyname, fn in self.NAMES.items():
            orig = getattr(U, pyname)

            def make(orig, fn):
                def w(x, y):
                    r = orig(x, y)
                    rec.calls += 1
                    if len(rec.ev) < rec.limit:
                        try:
                            xi, yi = rec._integral(x, rec.bound), rec._integral(y, rec.bound)
                            ri = rec._integral(r, 1 << 30) if xi is not None and yi is not None else None
                        except TypeError:
                            ri = None
                        if ri is not None:
                            rec.ev.append({"fn": fn, "x": xi, "y": yi, "r": ri})
                    return r
                w.__wrapped__ = orig
                return w
            wrapped = make(orig, fn)
            for modname, mod in list(sys.modules.items()):
                if modname.startswith("pdfminer") and mod is not None and mod.__dict__.get(pyname) is orig:
                    self._patched.append((mod, pyname, orig))
                    setattr(mod, pyname, wrapped)
        return self

    def uninstall(self):
        for mod, name, orig in self._patched:
            setattr(mod, name, orig)
        self._patched = []
