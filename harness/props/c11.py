"""C11 - converters: text output is the text of the layout hierarchy; XML output is well-formed and faithful;
the sink kind and codec do not change the characters.

A. specs/conv/Converters.tla: TLC grows every layout tree up to a node bound, runs TextConverter and XMLConverter as
   machines over it (all four sinks at once) and checks TextIsTreeText / XMLWellFormed / XMLParsesBackToTree /
   SinkIndependent on the intended design.  Every terminal state is replayed: the tree is built from real LT* objects
   and handed to the real converters (StringIO, BytesIO x utf-8 / utf-16 / latin-1), and the property's predicates are
   evaluated on the real output (tree text; expat; decode(bytes, codec) = characters).  The Python transcription of the
   reference operators is first checked against TLC's own output on every enumerated tree.
   Generated PDFs (ToUnicode maps sending a code to each hostile string; font and XObject names spelled with #xx) go
   through extract_text_to_fp(text|xml) x sinks x strip_control x LAParams and are compared with the model serialiser
   applied to the hierarchy of the same bytes.
B. both converters over pages of the repository's samples, recording (tree handed to receive_layout, output); TLC
   validates every recording against specs/conv/ConvTrace.tla.
"""
import glob
import io
import json
import os
import random

from ..core import batches, unjson
from ..deviations import active, tla_set
from ..tlc import MachineryError, SPECS, require_coverage, run_tlc, write_cfg
from ..realise import conv_real as C

SPEC = os.path.join(SPECS, "conv", "MC_Converters.tla")
TRACE_SPEC = os.path.join(SPECS, "conv", "ConvTrace.tla")
ACTIONS = ["AGrow", "AStart", "ABegin", "ABegin2", "AEnter", "ACharText", "AExit", "AClose"]

TEXTK = '{"page", "textboxh", "textboxv", "textline", "char", "anno", "layout", "textgroup", "boxref"}'
FIGK = '{"page", "figure", "image", "char", "line", "rect", "curve", "textboxh", "textline"}'
STRK = '{"page", "figure", "image", "char"}'
SINKK = '{"page", "char"}'
# (label, Kinds, MaxNodes, Strings); the "sinks" config carries the shifting / escaping codecs as well
CONFIGS = {
    # (the figure family up to 4 nodes is contained in shapes-all; it is its own config from 5 nodes on, thorough tier)
    "quick": [("shapes-all", "AllKinds", 4, "Palette2"), ("shapes-text", TEXTK, 6, "Palette1"),
              # every string of <= 2 classes, plus format metacharacters (% templates, str.format templates: %%, %s, a%, {0}, {} ..)
              # in glyph text, font, figure and image names
              ("strings", STRK, 3, "StringsQuick"), ("sinks", SINKK, 3, "StrSinks2"),
              # the kinds of sink: StringIO / BytesIO and real files in every binary / text mode, temporary files
              ("sink-kinds", SINKK, 2, "SinkPalette")],
    "thorough": [("shapes-all", "AllKinds", 5, "Palette2"), ("shapes-text", TEXTK, 7, "Palette1"),
                 ("shapes-figure", FIGK, 5, "Palette2"), ("strings", STRK, 3, "Str3"), ("shapes-all6", "AllKinds", 6, "Palette1"),
                 ("sinks", SINKK, 3, "StrSinks3"), ("format", STRK, 3, "StrFormat3"),
                 ("sink-kinds", STRK, 3, "SinkPalette")],
}
CODECS = [(C.K_UTF8, "utf-8", "u8"), (C.K_UTF16, "utf-16", "u16"), (C.K_LATIN1, "latin-1", "l1")]
# further members of the codec classes of ConvOps.tla: ASCII-escaping / shifting (modelled: u7, hz, jp), and class-mates of the
# transparent and signature classes.  For these the oracle for the bytes is the standard incremental encoder of the codec
# applied to the model's sequence of writes; the property is decode(bytes, codec) = the characters of the text sink.
SHIFT_CODECS = [(C.K_UTF7, "utf-7", "u7"), (C.K_HZ, "hz", "hz"), (C.K_ISO2022, "iso2022_jp", "jp")]
MORE_CODECS = ["utf-7", "hz", "iso2022_jp", "cp1252", "utf-32", "utf-8-sig"]
XML_DECL = '<?xml version="1.0" ?>'
# the XML reader of ConvOps.tla recurses once per character of output: give TLC's worker threads a deep Java stack
JVM = {"JAVA_TOOL_OPTIONS": "-Xss64m"}


def devkey(d):
    return ",".join(sorted(d))


def encodable(s, codec):
    try:
        s.encode(codec)
        return True
    except UnicodeEncodeError:
        return False


def control_in_text(xml):
    """strip_control promises character data free of C0 controls (attribute values are outside its documented reach)"""
    lexed = lex_xml(xml)
    if lexed[2] is not None:
        return False
    return any(c in (C.CTRL, C.FF) for e in lexed[1] if e["e"] == "chars" for c in e["v"])


# ------------------------------------------------------------------------------------------------ verdicts on one real run
class Judge:
    """evaluates the C11 predicates on real outputs and classifies differences (intended / named deviation / other)"""

    def __init__(self, ck, dev):
        self.ck = ck
        self.dev = set(dev)
        self.drift = 0

    def blame(self, real, variants):
        """variants: {deviation name: expected output with only that deviation}.  -> names explaining `real`"""
        hit = [d for d, v in variants.items() if v == real]
        return hit

    def text_sink(self, conv, real, ideal, coded_of, events_of, rp, what, strip=False):
        """real: what the text sink holds.  ideal: intended model output.  coded_of(devset) -> model output.
        events_of() -> expected SAX events (xml).  Returns True when the property holds on `real`."""
        ck = self.ck
        if real == ideal:
            return True
        if self.dev and real == coded_of(self.dev):
            hit = [d for d in sorted(self.dev) if coded_of({d}) == real] or sorted(self.dev)
            for d in hit:
                ck.violation("dev:" + d, "%s output of %s differs from the intended design" % (conv, what), rp)
            return False
        # neither model explains it: evaluate the property's own predicate on the real output
        if conv == "text":
            ck.violation("text:not-tree-text", "text output of %s is not the in-order text of the hierarchy: %r, expected %r"
                         % (what, real[:120], ideal[:120]), dict(rp, observed=real[:2000], expected=ideal[:2000]))
            return False
        evs, err = C.expat_events(real)
        if err:
            ck.violation("xml:malformed", "xml output of %s is not well-formed (%s)" % (what, err), dict(rp, observed=real[:3000]))
            return False
        if strip and control_in_text(real):
            ck.violation("xml:control-in-text", "xml output of %s with strip_control still carries a C0 control in character data"
                         % what, dict(rp, observed=real[:3000]))
            return False
        want = C.norm_events(events_of())
        if evs != want:
            k = next((q for q in range(min(len(evs), len(want))) if evs[q] != want[q]), min(len(evs), len(want)))
            ck.violation("xml:parse-back", "xml output of %s does not read back as the hierarchy: event %d is %r, expected %r"
                         % (what, k, evs[k] if k < len(evs) else None, want[k] if k < len(want) else None),
                         dict(rp, observed=real[:3000]))
            return False
        self.drift += 1
        if self.drift <= 3:
            ck.note("drift: %s output of %s differs from the model but satisfies the property's predicates" % (conv, what))
        return True

    def xml_predicates(self, real, events_of, rp, what, strip=False):
        """well-formedness and parse-back evaluated directly (also when the output equals the model's)"""
        evs, err = C.expat_events(real)
        if err:
            return "malformed: " + err
        if strip and control_in_text(real):
            return "control-in-text"
        want = C.norm_events(events_of())
        if evs != want:
            return "parse-back"
        return None

    def binary_sink(self, conv, codec, real_b, text_chars, units_of, rp, what):
        """real_b: bytes in the sink.  text_chars: what the text sink received in the same configuration.
        units_of(devset) -> as-coded bytes per the model."""
        ck = self.ck
        want = text_chars
        if conv == "xml":
            want = text_chars.replace(XML_DECL, '<?xml version="1.0" encoding="%s" ?>' % codec, 1)
        try:
            got = real_b.decode(codec)
        except UnicodeDecodeError:
            got = None
        if got == want:
            if real_b != units_of(self.dev):         # the as-coded model must account for every byte
                self.drift += 1
                if self.drift <= 3:
                    ck.note("drift: %s bytes of %s (codec %s) differ from the as-coded model but decode to the same characters"
                            % (conv, what, codec))
            return True
        if self.dev and real_b == units_of(self.dev):
            hit = [d for d in sorted(self.dev) if units_of({d}) == real_b] or sorted(self.dev)
            for d in hit:
                ck.violation("dev:" + d, "%s output of %s on a binary sink with codec %s does not decode to the characters "
                             "a text sink receives" % (conv, what, codec), rp)
            return False
        ck.violation("sink:%s:%s" % (conv, codec), "%s output of %s on a binary sink with codec %s decodes to %r, a text sink "
                     "receives %r" % (conv, what, codec, (got or real_b)[:80], want[:80]),
                     dict(rp, observed=real_b[:2000], expected=want[:2000]))
        return False


def extra_sink(ck, judge, conv, codec, real_b, text_chars, ref_b, rp, what):
    """a binary sink with a further codec: decode(bytes, codec) must be the characters the text sink received"""
    want = text_chars
    if conv == "xml":
        want = text_chars.replace(XML_DECL, '<?xml version="1.0" encoding="%s" ?>' % codec, 1)
    try:
        got = real_b.decode(codec)
    except UnicodeDecodeError as e:
        got = "<undecodable: %s>" % e
    if got == want:
        if ref_b is not None and real_b != ref_b:
            judge.drift += 1
            if judge.drift <= 3:
                ck.note("drift: %s bytes of %s (codec %s) differ from the standard incremental encoder's but decode to the same characters"
                        % (conv, what, codec))
        return True
    ck.violation("sink:%s:%s" % (conv, codec), "%s output of %s on a binary sink with codec %s decodes to %r, a text sink receives %r"
                 % (conv, what, codec, got[:80], want[:80]), dict(rp, codec=codec, observed=real_b[:2000], expected=want[:2000]))
    return False


# ------------------------------------------------------------------------------------------------ A1: TLC trees, direct realisation
def check_reference(rec):
    """the Python transcription of ConvOps.tla must reproduce TLC's own output (else the oracle is broken: exit 2)"""
    T, conv, strip, imgw, dev = rec["T"], rec["conv"], rec["strip"], rec["imgw"], set(rec["dev"])
    if C.model_chars(T, conv, strip, imgw, dev) != rec["chars"]:
        raise MachineryError("reference transcription disagrees with TLC on chars for %s" % json.dumps(rec)[:600])
    for e, _, fld in CODECS:
        if [c + 1000 * k for (c, k) in C.model_units(T, conv, strip, imgw, dev, e)] != rec[fld]:
            raise MachineryError("reference transcription disagrees with TLC on %s for %s" % (fld, json.dumps(rec)[:600]))
    if rec["u7"] or rec["hz"] or rec["jp"]:
        for e, _, fld in SHIFT_CODECS:
            if C.model_units_shift(T, conv, strip, imgw, dev, e) != rec[fld]:
                raise MachineryError("reference transcription disagrees with TLC on %s for %s" % (fld, json.dumps(rec)[:600]))
    if not dev:
        if conv == "text" and C.tree_text(T) != rec["chars"]:
            raise MachineryError("TreeText transcription disagrees with TLC")
        if conv == "xml":
            mine = [{"e": e, "n": n, "v": list(v)} for (e, n, v) in C.tree_events(T, strip, imgw)]
            if mine != rec["ev"]:
                raise MachineryError("TreeEvents transcription disagrees with TLC: %r vs %r" % (mine[:6], rec["ev"][:6]))


def replay_tree(ck, judge, T, conv, strip, imgw, rep, label, sample=False, more_codecs=False, tc=1):
    con = C.Concrete(rep)
    pages, nums = C.build_direct(T, con)
    con.nums = nums
    # realiser self-check: the real tree projects back onto the model tree
    Tp, objs = C.project(pages)
    if [(n["k"], n["d"], n["a"]) for n in Tp] != [(n["k"], n["d"], n["a"]) for n in T] or \
            [n["s"] for n in Tp] != [con.text(n["s"]) for n in T]:
        raise MachineryError("realiser self-check: the tree built from LT objects does not project back onto the model tree")
    rp = {"tree": T, "conv": conv, "strip": strip, "imgw": imgw, "rep": rep, "origin": label}
    what = "tree %s" % "/".join(n["k"] for n in T)
    # TextConverter on a text sink is given the codec the model chose (tc): the characters must be written unchanged
    # whatever that codec could express; the binary sinks are replayed once per tree (with tc = utf-8)
    tcodecs = ([C.TEXT_SINK_CODEC[tc]] + (["cp1252"] if tc == 3 else [])) if conv == "text" else [C.TEXT_SINK_CODEC[tc]]
    ideal = con.text(C.model_chars(T, conv, strip, imgw, set()))
    for tcodec in tcodecs:
        try:
            real_s = C.run_converter(pages, conv, "text", None, strip, imgw, text_codec=tcodec)
        except Exception as e:  # noqa: BLE001
            ck.violation("exception:" + type(e).__name__, "%s converter raised %r on %s" % (conv, e, what), rp)
            return
        if conv == "xml" and tc == 9:
            # codec "" is "no codec": the same document as with None
            if real_s != ideal:
                evs, err = C.expat_events(real_s)
                ck.violation("text-sink:codec-empty:" + ("malformed" if err else "differs"),
                             "xml output of %s on a text sink with codec=\"\" %s" % (what, ("is not well-formed (%s)" % err) if err else "differs from codec=None"),
                             dict(rp, tc=tc, observed=real_s[:400]))
            ck.case(1, None)
            return
        if conv == "text" and real_s != ideal:
            ck.violation("text-sink:codec:%s" % tcodec, "text output of %s on a TEXT sink with codec=%r is %r; the characters are %r"
                         % (what, tcodec, real_s[:80], ideal[:80]), dict(rp, tc=tc, text_codec=tcodec))
            return
    if conv == "text" and tc != 1:
        ck.case(1, None)
        return
    ok = judge.text_sink(conv, real_s, ideal, lambda d: con.text(C.model_chars(T, conv, strip, imgw, d)),
                         lambda: C.real_tree_events(Tp, objs, strip, imgw), rp, what, strip=strip)
    if conv == "xml" and ok:
        bad = judge.xml_predicates(real_s, lambda: C.real_tree_events(Tp, objs, strip, imgw), rp, what, strip=strip)
        if bad:
            ck.violation("xml:" + bad.split(":")[0], "xml output of %s equals the intended model's but fails %s" % (what, bad), rp)
    nbin = 0
    for e, codec, _ in CODECS:
        if not encodable(real_s, codec):
            continue
        con.codec = codec
        try:
            real_b = C.run_converter(pages, conv, "bin", codec, strip, imgw)
        except Exception as ex:  # noqa: BLE001
            ck.violation("exception:" + type(ex).__name__, "%s converter raised %r on %s (binary sink, %s)" % (conv, ex, what, codec), rp)
            continue
        nbin += 1
        judge.binary_sink(conv, codec, real_b, real_s, lambda d, e=e: con.units(C.model_units(T, conv, strip, imgw, d, e)),
                          dict(rp, codec=codec), what)
    if more_codecs:
        for codec in MORE_CODECS:
            if not encodable(real_s, codec):
                continue
            con.codec = codec
            try:
                real_b = C.run_converter(pages, conv, "bin", codec, strip, imgw)
            except Exception as ex:  # noqa: BLE001
                ck.violation("exception:" + type(ex).__name__, "%s converter raised %r on %s (binary sink, %s)" % (conv, ex, what, codec), rp)
                continue
            nbin += 1
            extra_sink(ck, judge, conv, codec, real_b, real_s,
                       C.reference_bytes(T, conv, strip, imgw, con, codec, "ignore" if conv == "text" else "strict"), rp, what)
    hostile = any(c != C.PLAIN for n in T for c in list(n["s"]) + list(n["f"]) if n["k"] in ("char", "figure", "image"))
    ck.case(1 + nbin, (json.dumps(T, sort_keys=True), conv, strip, imgw) if (hostile or len(T) > 2) else None)
    if sample:
        ck.sample({"tree": [(n["k"], n["d"]) for n in T], "hostile_string": con.text(next((n["s"] for n in T if n["k"] in ("char", "figure")), [])),
                   "conv": conv, "strip_control": strip, "output": real_s[:400]})


def replay_sink_kind(ck, rec, n):
    """a terminal state whose sink is a real file: same characters as on a StringIO, whatever mode the file was opened in"""
    T, conv, strip, imgw, kind = rec["T"], rec["conv"], rec["strip"], rec["imgw"], rec["sk"]
    con = C.Concrete(n)
    pages, nums = C.build_direct(T, con)
    con.nums = nums
    want = con.text(C.model_chars(T, conv, strip, imgw, set()))
    rp = {"tree": T, "conv": conv, "strip": strip, "imgw": imgw, "rep": n, "sink_kind": kind}
    what = "tree %s" % "/".join(x["k"] for x in T)
    codec = ("utf-8", "utf-16")[n % 2]
    ck.case(1, ("sink-kind", kind, conv, json.dumps(T)))
    try:
        binary, got = C.run_converter_on(pages, conv, kind, codec, strip, imgw, ck.tmp)
    except MachineryError:
        raise
    except Exception as e:  # noqa: BLE001
        ck.violation("sink-kind:%s:exception:%s" % (kind, type(e).__name__), "%s converter raised %r writing %s to a file opened as %s"
                     % (conv, e, what, kind), rp)
        return
    if binary:
        if conv == "xml":
            want = want.replace(XML_DECL, '<?xml version="1.0" encoding="%s" ?>' % codec, 1)
        try:
            got = got.decode(codec)
        except UnicodeDecodeError as e:
            got = "<undecodable: %s>" % e
    if got != want:
        ck.violation("sink-kind:%s:differs" % kind, "%s output of %s in a file opened as %s is %r; a StringIO receives %r"
                     % (conv, what, kind, got[:80], want[:80]), rp)


def direction_a_model(ck, dev, judge):
    total = 0
    for (label, kinds, maxn, strings) in CONFIGS[ck.tier]:
        # the as-coded design is explored where the deviations can show (names of figures, every string, every sink);
        # elsewhere as-coded outputs come from the transcription, which these runs validate
        both = label in ("strings", "shapes-figure", "shapes-all")
        devs = "{{}" + ((", " + tla_set(dev)) if (dev and both) else "") + "}"
        mod = "Run_" + label.replace("-", "_")
        wrapper = os.path.join(ck.tmp, mod + ".tla")
        with open(wrapper, "w") as f:
            f.write("---- MODULE %s ----\nEXTENDS MC_Converters\nTheKinds == %s\nTheDevs == %s\nPalette1 == {<<cLT, cAMP, cQUOT>>}\nStringsQuick == Str2 \\cup FormatPalette\n====\n"
                    % (mod, kinds, devs))
        cfg = write_cfg(os.path.join(ck.tmp, mod + ".cfg"),
                        constants={"MaxNodes": maxn, "Strings": "<- " + strings, "Kinds": "<- TheKinds", "DevChoices": "<- TheDevs",
                                   "ShiftSinks": "TRUE" if label == "sinks" else "FALSE",
                                   "SinkKinds": "<- SinkKindsAll" if label == "sink-kinds" else "<- MemoryOnly"},
                        invariants=["TextIsTreeText", "XMLWellFormed", "XMLParsesBackToTree", "SinkIndependent", "StackIsPath", "SinkKindRecognised"],
                        constraints=["EmitTerminal"])
        emit = os.path.join(ck.tmp, mod + ".ndjson")
        cov = ck.tier == "quick" and label == "strings"
        res = run_tlc(wrapper, cfg, emit=emit, coverage=cov, timeout=3600, lib=os.path.join(SPECS, "conv"), env=JVM)
        ck.add_tlc(res, "%s: %s, <= %d nodes, %s" % (label, kinds if len(kinds) < 12 else "kinds subset", maxn, strings))
        if not res.ok:
            raise MachineryError("Converters.tla violates %s on the intended design (%s):\n%s" % (res.violated, label, res.error_text[:3000]))
        if cov:
            require_coverage(res, ACTIONS)
        n = 0
        with open(emit) as f:
            for line in f:
                rec = json.loads(line)
                check_reference(rec)
                n += 1
                if rec["dev"]:
                    continue            # as-coded outputs are recomputed by the (now validated) transcription
                # the sinks config is realised with the representative set that has a CJK ideograph (hz / iso2022_jp can carry it)
                if label == "sink-kinds" and rec["sk"] not in ("StringIO", "BytesIO"):
                    replay_sink_kind(ck, rec, n)
                    ck.replayed += 1
                    continue
                replay_tree(ck, judge, rec["T"], rec["conv"], rec["strip"], rec["imgw"], 1 if label == "sinks" else n, label,
                            sample=(n % 9973 == 1), more_codecs=(label == "sinks"), tc=rec["tc"])
                ck.replayed += 1
        os.remove(emit)
        if n != res.emitted or n == 0:
            raise MachineryError("emitted %d terminal states but read %d" % (res.emitted, n))
        ck.extra.setdefault("terminal_states_per_config", {})[label] = n
        total += n
    ck.extra["terminal_states_checked_against_transcription"] = total


def teeth(ck):
    """each named deviation, switched on alone, makes TLC report a violation of the predicate it is said to break
    (thorough tier; the quick tier checks the same on the validated transcription: see teeth_quick)"""
    if ck.tier == "quick":
        return teeth_quick(ck)
    pairs = [("FigureNameRaw", "P_XMLWellFormed"), ("TextSinkUtf8", "P_SinkIndependent"), ("BomPerWrite", "P_XMLWellFormed"),
             ("AsciiBypass", "P_SinkIndependent"), ("TextSinkCodecFilter", "P_TextIsTreeText"), ("EmptyCodecDeclared", "P_XMLWellFormed"), ("ModeEndsWithB", "P_SinkKindRecognised")]
    if ck.tier == "thorough":
        pairs += [("BomPerWrite", "P_SinkIndependent"), ("FigureNameRaw", "P_XMLParsesBackToTree")]
    found = {}
    for d, inv in pairs:
        mod = "Teeth_%s_%s" % (d, inv)
        wrapper = os.path.join(ck.tmp, mod + ".tla")
        with open(wrapper, "w") as f:
            f.write('---- MODULE %s ----\nEXTENDS MC_Converters\nTheDevs == {{"%s"}}\nTheKinds == {"page", "figure", "char"}\n====\n' % (mod, d))
        cfg = write_cfg(os.path.join(ck.tmp, mod + ".cfg"),
                        constants={"MaxNodes": 3, "Strings": "<- " + ("StrSinks2" if d in ("AsciiBypass", "TextSinkCodecFilter", "EmptyCodecDeclared") else "Palette2"), "Kinds": "<- TheKinds",
                                   "DevChoices": "<- TheDevs", "ShiftSinks": "TRUE" if d in ("AsciiBypass", "TextSinkCodecFilter", "EmptyCodecDeclared") else "FALSE",
                                   "SinkKinds": "<- SinkKindsAll" if d == "ModeEndsWithB" else "<- MemoryOnly"},
                        invariants=[inv])
        res = run_tlc(wrapper, cfg, workers=2, timeout=600, lib=os.path.join(SPECS, "conv"), env=JVM)
        ck.add_tlc(res, "counterexample search: %s alone against %s" % (d, inv))
        if res.ok or res.violated != inv:
            raise MachineryError("vacuous: deviation %s does not violate %s in the specification" % (d, inv))
        found["%s/%s" % (d, inv)] = len(res.error_trace)
    ck.extra["deviation_counterexample_lengths"] = found


def teeth_quick(ck):
    T = [{"k": "page", "d": 0, "s": [], "f": [], "a": 0}, {"k": "figure", "d": 1, "s": [C.LT, C.AMP, C.QUOT], "f": [], "a": 0},
         {"k": "char", "d": 2, "s": [C.NONASCII], "f": [C.QUOT], "a": 0}]
    base = C.model_chars(T, "xml", False, False, set())
    if C.model_chars(T, "xml", False, False, {"FigureNameRaw"}) == base:
        raise MachineryError("vacuous: FigureNameRaw changes nothing in the model")
    for d, conv, e in (("TextSinkUtf8", "text", C.K_LATIN1), ("BomPerWrite", "xml", C.K_UTF16)):
        if C.model_units(T, conv, False, False, {d}, e) == C.model_units(T, conv, False, False, set(), e):
            raise MachineryError("vacuous: %s changes nothing in the model" % d)
    for e in (C.K_UTF7, C.K_HZ, C.K_ISO2022):
        if C.model_units_shift(T, "xml", False, False, {"AsciiBypass"}, e) == C.model_units_shift(T, "xml", False, False, set(), e):
            raise MachineryError("vacuous: AsciiBypass changes nothing for codec %d in the model" % e)


# ------------------------------------------------------------------------------------------------ A2: generated PDFs
def hostile_strings(tier, rng):
    cls = list(range(1, 10))
    reps = C.REPS
    out = []
    maxlen = 2 if tier == "quick" else 3
    combos = [()]
    for L in range(1, maxlen + 1):
        nxt = []
        for c in (x for x in combos if len(x) == L - 1):
            for k in cls:
                nxt.append(c + (k,))
        combos += nxt
    if tier == "quick":
        combos = [c for c in combos if len(c) <= 1] + rng.sample([c for c in combos if len(c) == 2], 30)
    for n, c in enumerate(combos):
        r = reps[n % len(reps)]
        out.append("".join(C.SINGLE.get(k) or r[k] for k in c))
    # the sink dimension: ASCII characters escaping codecs rewrite, a subset-tagged font name, a CJK run followed by ASCII
    out += ["1+1", "a~b", "ABCDEF+Name", "中a", "+中~", "中文+a~"]
    # format metacharacters: a name or text that is itself a % template or a str.format template
    out += ["%%", "%s", "%d", "a%", "100%", "{0}", "{}", "%(a)s", "{a"]
    # characters narrow codecs (latin-1, ascii, cp1252) cannot express: Greek, CJK, the euro sign
    out += ["αβγ", "中文", "€5", "é€α"]
    return out


def run_high_level(data, conv, sink, codec, la, strip):
    from pdfminer.high_level import extract_text_to_fp
    fp = io.StringIO() if sink == "text" else io.BytesIO()
    extract_text_to_fp(io.BytesIO(data), fp, output_type=conv, codec=(None if sink == "text" and conv == "xml" else (codec or "utf-8")),
                       laparams=la, strip_control=strip)
    return fp.getvalue()


def judge_document(ck, judge, data, lakey, what, rp0, convs=("text", "xml"), sinks=True, more_codecs=False):
    """extract_text_to_fp over `data` against the model serialiser applied to the hierarchy of the same bytes"""
    la = C.LAPARAMS[lakey]()
    pages = C.pages_of(data, C.LAPARAMS[lakey]())
    Tp, objs = C.project(pages)
    Tm = C.model_tree_of(Tp)
    con = C.RealConcrete(objs)
    txt = C.Concrete(0, nums=con.nums)
    n = 0
    for conv in convs:
        for strip in ((False, True) if conv == "xml" else (False,)):
            rp = dict(rp0, conv=conv, strip=strip, laparams=lakey)
            try:
                real_s = run_high_level(data, conv, "text", None, la, strip)
            except Exception as e:  # noqa: BLE001
                ck.violation("exception:" + type(e).__name__, "extract_text_to_fp(%s) raised %r on %s" % (conv, e, what), rp)
                continue
            n += 1
            if conv == "text":
                ideal = C.real_tree_text(Tp)
                if txt.text(C.model_chars(Tm, "text", False, False, set())) != ideal:
                    raise MachineryError("two references disagree on the tree text of %s" % what)
            else:
                ideal = txt.text(C.model_chars(Tm, "xml", strip, False, set()))
            ok = judge.text_sink(conv, real_s, ideal, lambda d: txt.text(C.model_chars(Tm, conv, strip, False, d)),
                                 lambda: C.real_tree_events(Tp, objs, strip, False), rp, what, strip=strip)
            if conv == "xml" and ok:
                bad = judge.xml_predicates(real_s, lambda: C.real_tree_events(Tp, objs, strip, False), rp, what, strip=strip)
                if bad:
                    ck.violation("xml:" + bad.split(":")[0], "xml output of %s equals the intended model's but fails %s" % (what, bad), rp)
            if conv == "xml" and more_codecs:
                # the other spelling of "no codec" on a text sink
                fp2 = io.StringIO()
                from pdfminer.high_level import extract_text_to_fp as _x
                n += 1
                try:
                    _x(io.BytesIO(data), fp2, output_type="xml", codec="", laparams=la, strip_control=strip)
                    if fp2.getvalue() != real_s:
                        ck.violation("text-sink:codec-empty:differs", "extract_text_to_fp(xml, StringIO, codec=\"\") of %s differs from codec=None: %r"
                                     % (what, fp2.getvalue()[:60]), dict(rp, observed=fp2.getvalue()[:2000]))
                except Exception as e:  # noqa: BLE001
                    ck.violation("text-sink:codec-empty:exception:" + type(e).__name__, "extract_text_to_fp(xml, StringIO, codec=\"\") raised %r" % e, rp)
            if conv == "text" and more_codecs:
                # a TEXT sink takes characters: whatever `codec` is passed along, they arrive unchanged
                for tcodec in ("latin-1", "ascii", "cp1252", ""):
                    got = run_high_level(data, "text", "text", tcodec, la, False)
                    n += 1
                    if got != ideal:
                        ck.violation("text-sink:codec:%s" % tcodec, "extract_text_to_fp(text, StringIO, codec=%r) of %s is not the text of the hierarchy"
                                     % (tcodec, what), dict(rp, text_codec=tcodec, observed=got[:2000]))
                        break
            if not sinks:
                continue
            for e, codec, _ in CODECS:
                if not encodable(real_s, codec):
                    continue
                txt.codec = codec
                try:
                    real_b = run_high_level(data, conv, "bin", codec, la, strip)
                except Exception as ex:  # noqa: BLE001
                    ck.violation("exception:" + type(ex).__name__, "extract_text_to_fp(%s, codec=%s) raised %r on %s" % (conv, codec, ex, what), rp)
                    continue
                n += 1
                judge.binary_sink(conv, codec, real_b, real_s,
                                  lambda d, e=e: txt.units(C.model_units(Tm, conv, strip, False, d, e)), dict(rp, codec=codec), what)
            for codec in (MORE_CODECS if more_codecs else ()):
                if not encodable(real_s, codec):
                    continue
                try:
                    real_b = run_high_level(data, conv, "bin", codec, la, strip)
                except Exception as ex:  # noqa: BLE001
                    ck.violation("exception:" + type(ex).__name__, "extract_text_to_fp(%s, codec=%s) raised %r on %s" % (conv, codec, ex, what), rp)
                    continue
                n += 1
                extra_sink(ck, judge, conv, codec, real_b, real_s, None, rp, what)
    return n, Tp


def direction_a_pdf(ck, dev, judge):
    from pdfminer.high_level import extract_text
    rng = random.Random(ck.seed)
    strings = hostile_strings(ck.tier, rng)
    chunk = 12
    lakeys = ["none", "default", "all_texts"] if ck.tier == "quick" else ["none", "default", "all_texts", "noflow", "vertical"]
    docs = 0
    for i in range(0, len(strings), chunk):
        part = strings[i:i + chunk]
        data = C.hostile_doc(part)
        docs += 1
        for lk in lakeys:
            n, Tp = judge_document(ck, judge, data, lk, "generated document with hostile strings %r.." % (part[0],),
                                   {"strings": part, "pdf": data}, more_codecs=(lk == "default"))
            # realiser self-check: every hostile string arrived as glyph text, font name and figure name
            got = {(x["k"], x["s"]) for x in Tp} | {("font", x["f"]) for x in Tp if x["k"] == "char"}
            for S in part:
                if ("char", S) not in got or ("font", S or "e") not in got or ("figure", S or "e") not in got:
                    raise MachineryError("realiser self-check: hostile string %r did not arrive in the hierarchy" % S)
            ck.case(n, ("pdf", i, lk))
        # extract_text = TextConverter over a StringIO with default LAParams
        txt = extract_text(io.BytesIO(data))
        Tp, _ = C.project(C.pages_of(data, C.LAPARAMS["default"]()))
        ck.case(1, None)
        if txt != C.real_tree_text(Tp):
            ck.violation("text:extract_text", "extract_text() is not the in-order text of the hierarchy",
                         {"strings": part, "pdf": data, "observed": txt[:2000]})
        for tcodec in ("latin-1", "ascii"):
            ck.case(1, None)
            if extract_text(io.BytesIO(data), codec=tcodec) != txt:
                ck.violation("text:extract_text:codec:%s" % tcodec, "extract_text(codec=%r) differs from extract_text()" % tcodec,
                             {"strings": part, "pdf": data})
        if docs == 1:
            ck.sample({"hostile_strings": part[:6], "pdf_bytes": len(data), "extract_text": txt[:160]})
    ck.extra["generated_documents"] = docs
    ck.extra["hostile_strings"] = len(strings)


# ------------------------------------------------------------------------------------------------ B: recorded runs over samples
def lex_xml(text):
    """strict lexer for what XMLConverter writes: -> (prolog seen, events, error).  Attribute values and character data
    stay raw (entity references are not decoded; a recognised reference becomes its model word)."""
    ents = {"lt": C.W_LT, "gt": C.W_GT, "amp": C.W_AMP, "quot": C.W_QUOT}
    names = {v: k for k, v in C.WORDS.items()}

    def raw(s):
        out = []
        q = 0
        while q < len(s):
            ch = s[q]
            if ch == "&":
                j = s.find(";", q)
                name = s[q + 1:j] if j > 0 else ""
                if name in ents:
                    out += [C.AMP, ents[name], C.SEMI]
                    q = j + 1
                    continue
                if name == "#x27":
                    out += [C.AMP, C.HASH, C.W_X27, C.SEMI]
                    q = j + 1
                    continue
            out.append(C.classify(ch))
            q += 1
        return out

    evs = []
    pos = 0
    prolog = False
    if text.startswith("<?xml"):
        j = text.find("?>")
        if j < 0:
            return False, evs, "unterminated declaration"
        prolog = True
        pos = j + 2
    stack = []
    intern = {}
    n = len(text)
    while pos < n:
        if text[pos] != "<":
            j = text.find("<", pos)
            j = n if j < 0 else j
            data = text[pos:j]
            if stack and stack[-1] == "text":
                evs.append({"e": "chars", "n": 0, "at": [], "fa": [], "v": raw(data)})
            elif data.strip(" \n"):
                return prolog, evs, "character data %r outside <text>" % data[:20]
            pos = j
            continue
        if text.startswith("</", pos):
            j = text.find(">", pos)
            name = text[pos + 2:j]
            if not stack or stack[-1] != name:
                return prolog, evs, "unbalanced </%s>" % name
            stack.pop()
            evs.append({"e": "close", "n": names.get(name, 0), "at": [], "fa": [], "v": []})
            pos = j + 1
            continue
        # opening tag: name, attributes name="value" (value up to the next double quote)
        q = pos + 1
        while q < n and (text[q].isalnum()):
            q += 1
        name = text[pos + 1:q]
        at, fa = [], []
        while True:
            while q < n and text[q] == " ":
                q += 1
            if text.startswith("/>", q):
                evs.append({"e": "open", "n": names.get(name, 0), "at": at, "fa": fa, "v": []})
                evs.append({"e": "close", "n": names.get(name, 0), "at": [], "fa": [], "v": []})
                q += 2
                break
            if q < n and text[q] == ">":
                evs.append({"e": "open", "n": names.get(name, 0), "at": at, "fa": fa, "v": []})
                stack.append(name)
                q += 1
                break
            a0 = q
            while q < n and text[q].isalnum():
                q += 1
            an = text[a0:q]
            if not an or not text.startswith('="', q):
                return prolog, evs, "malformed tag <%s ...> at %d" % (name, pos)
            j = text.find('"', q + 2)
            if j < 0:
                return prolog, evs, "unterminated attribute value"
            val = text[q + 2:j]
            if an in ("font", "name", "src"):
                fa += raw(val)
            else:
                at += [names.get(an, 0), intern.setdefault(val, len(intern) + 1)]
            q = j + 1
        pos = q
    if stack:
        return prolog, evs, "unclosed <%s>" % stack[-1]
    return prolog, evs, None, intern


def tree_for_trace(Tp, objs, intern):
    """projected real tree -> trace nodes: strings as model characters, number renderings as interned ids (pairs
    attribute, id in the order the converter writes them), e = last index of the subtree"""
    nums = C.RealConcrete(objs).nums
    order = {"page": [(C.A_ID, C.F_ID), (C.A_BBOX, C.F_BBOX), (C.A_ROTATE, C.F_ROTATE)],
             "line": [(C.A_LINEWIDTH, C.F_LINEWIDTH), (C.A_BBOX, C.F_BBOX)], "rect": [(C.A_LINEWIDTH, C.F_LINEWIDTH), (C.A_BBOX, C.F_BBOX)],
             "curve": [(C.A_LINEWIDTH, C.F_LINEWIDTH), (C.A_BBOX, C.F_BBOX), (C.A_PTS, C.F_PTS)],
             "figure": [(C.A_BBOX, C.F_BBOX)], "textline": [(C.A_BBOX, C.F_BBOX)], "textgroup": [(C.A_BBOX, C.F_BBOX)],
             "textboxh": [(C.A_ID, C.F_ID), (C.A_BBOX, C.F_BBOX)], "textboxv": [(C.A_ID, C.F_ID), (C.A_BBOX, C.F_BBOX)],
             "char": [(C.A_BBOX, C.F_BBOX), (C.A_CS, C.F_CS), (C.A_NCOLOUR, C.F_NCOLOUR), (C.A_SIZE, C.F_SIZE)],
             "image": [(C.A_WIDTH, C.F_WIDTH), (C.A_HEIGHT, C.F_HEIGHT)], "boxref": [(C.A_ID, C.F_ID), (C.A_BBOX, C.F_BBOX)]}
    out = []
    for i, n in enumerate(Tp, 1):
        nu = []
        src = n["a"] if n["k"] == "boxref" else i
        for a, f in order.get(n["k"], []):
            s = nums.get(C.numkey(src, f))
            # a rendering the output never contains gets a fresh id (the trace is then rejected at this node)
            nu += [a, intern.get(s, 0) if intern is not None else 0]
        if n["k"] == "textboxv":
            nu += [C.A_WMODE, intern.get("vertical", 0) if intern is not None else 0]
        out.append({"k": n["k"], "d": n["d"], "s": C.encode_trace(n["s"]), "f": C.encode_trace(n["f"]), "a": n["a"], "nu": nu,
                    "e": C.sub_end(Tp, i)})
    return out


class Recorder:
    """observation wrapper: remembers every LTPage a converter's receive_layout is handed"""

    def __init__(self, cls):
        self.cls = cls
        self.pages = []

    def __enter__(self):
        self.orig = self.cls.receive_layout
        rec = self

        def receive_layout(conv, ltpage):
            rec.pages.append(ltpage)
            return rec.orig(conv, ltpage)
        if not callable(self.orig):
            raise MachineryError("wrapper target %s.receive_layout missing" % self.cls.__name__)
        self.cls.receive_layout = receive_layout
        return self

    def __exit__(self, *a):
        self.cls.receive_layout = self.orig


def record_sample(path, conv, la, strip, maxpages):
    from pdfminer.converter import TextConverter, XMLConverter
    from pdfminer.high_level import extract_text_to_fp
    cls = TextConverter if conv == "text" else XMLConverter
    fp = io.StringIO()
    with Recorder(cls) as rec, open(path, "rb") as f:
        extract_text_to_fp(f, fp, output_type=conv, codec=(None if conv == "xml" else "utf-8"), laparams=la, strip_control=strip,
                           maxpages=maxpages)
    return rec.pages, fp.getvalue()


def make_trace(conv, strip, pages, out, origin):
    Tp, objs = C.project(pages)
    if conv == "text":
        return {"conv": "text", "strip": False, "prolog": False, "T": tree_for_trace(Tp, objs, None), "out": C.encode_trace(out),
                "origin": origin}, None
    lexed = lex_xml(out)
    if lexed[2] is not None:
        return None, lexed[2]
    prolog, evs, _, intern = lexed
    return {"conv": "xml", "strip": strip, "prolog": prolog, "T": tree_for_trace(Tp, objs, intern), "out": evs, "origin": origin}, None


def validate_traces(ck, traces, dev, label="recorded converter runs"):
    """-> number of rejected traces"""
    tf = os.path.join(ck.tmp, "c11_traces.json")
    cfg = write_cfg(os.path.join(ck.tmp, "c11_trace.cfg"), constants={"Dev": tla_set(dev) if dev else "{}"}, spec="Spec",
                    invariants=["StackIsPath", "CursorInRange"], deadlock=True)
    rejected = 0
    # one batch is one TLC behaviour (about 2 steps per node); TLC cannot handle behaviours of 65,536 or more states
    queue = batches(list(traces), lambda tr: 2 * len(tr["T"]) + 4, limit=60000)
    while queue:
        todo = queue.pop(0)
        with open(tf, "w") as f:
            json.dump(todo, f)
        res = run_tlc(TRACE_SPEC, cfg, workers=1, env={"TRACE_FILE": tf}, timeout=3600, heap="8g")
        ck.add_tlc(res, "trace validation of %d %s" % (len(todo), label))
        if res.ok:
            continue
        if res.violated != "deadlock" or not res.error_trace:
            raise MachineryError("trace validation failed unexpectedly: " + res.error_text[:2000])
        st = res.error_trace[-1][1]
        t, i, o = int(st["t"]), int(st["i"]), int(st["o"])
        tr = todo[t - 1]
        rejected += 1
        node = tr["T"][i - 1] if i - 1 < len(tr["T"]) else None
        nxt = tr["out"][o:o + 3]
        ck.violation("trace-rejected:" + tr["conv"],
                     "recorded %s run over %s is not a behaviour of the converter specification: at node %d (%s) the recording "
                     "continues with %r" % (tr["conv"], tr["origin"], i, node and node["k"], nxt),
                     {"origin": tr["origin"], "conv": tr["conv"], "node_index": i, "node": node, "position": o, "next": nxt})
        if todo[t:]:
            queue.insert(0, todo[t:])
        left = sum(len(b) for b in queue)
        if rejected >= 3 and left:
            ck.note("%d recorded traces left unexamined after 3 rejections" % left)
            rejected += left
            break
    return rejected


def direction_b(ck, dev, judge):
    rng = random.Random(ck.seed)
    files = sorted(glob.glob("/repo/samples/**/*.pdf", recursive=True))
    files = [f for f in files if "encryption" not in f and os.path.getsize(f) < 3_000_000]
    pick = files if ck.tier == "thorough" else rng.sample(files, min(8, len(files)))
    maxpages = 2 if ck.tier == "quick" else 4
    traces = []
    skipped = 0
    for fn in pick:
        origin = os.path.relpath(fn, "/repo")
        for conv, lakey, strip in (("text", "default", False), ("xml", "all_texts", True), ("xml", "none", False)):
            la = C.LAPARAMS[lakey]()
            try:
                pages, out = record_sample(fn, conv, la, strip, maxpages)
            except Exception as e:  # noqa: BLE001   (damaged or protected samples are C13's and C10's business)
                skipped += 1
                continue
            if not pages:
                continue
            Tp, objs = C.project(pages)
            if len(Tp) > 15000:            # keep one recording well inside one TLC behaviour
                pages, out = record_sample(fn, conv, la, strip, 1)
                Tp, objs = C.project(pages)
                if len(Tp) > 15000:
                    skipped += 1
                    continue
            rp = {"origin": origin, "conv": conv, "laparams": lakey, "strip": strip}
            # the property's predicates, directly
            if conv == "text":
                ck.case(1, ("B", origin, conv))
                if out != C.real_tree_text(Tp):
                    ck.violation("text:not-tree-text", "text output of %s is not the in-order text of the hierarchy" % origin, rp)
            else:
                ck.case(1, ("B", origin, conv, lakey))
                Tm = C.model_tree_of(Tp)
                con = C.Concrete(0, nums=C.RealConcrete(objs).nums)
                ideal = con.text(C.model_chars(Tm, "xml", strip, False, set()))
                judge.text_sink("xml", out, ideal, lambda d: con.text(C.model_chars(Tm, "xml", strip, False, d)),
                                lambda: C.real_tree_events(Tp, objs, strip, False), rp, origin, strip=strip)
            tr, err = make_trace(conv, strip, pages, out, "%s [%s, %s]" % (origin, conv, lakey))
            if err:
                ck.violation("xml:malformed", "xml output of %s cannot be lexed: %s" % (origin, err), rp)
                continue
            traces.append(tr)
    if not traces:
        raise MachineryError("no traces recorded")
    rejected = validate_traces(ck, traces, dev)
    ck.traces += len(traces) - rejected
    ck.extra["trace_nodes"] = sum(len(t["T"]) for t in traces)
    ck.extra["trace_output_items"] = sum(len(t["out"]) for t in traces)
    ck.extra["samples_skipped"] = skipped
    # the trace specification must reject a corrupted recording (guards against a vacuous validator)
    bad = json.loads(json.dumps(min((t for t in traces if t["conv"] == "text" and len(t["out"]) > 3), key=lambda t: len(t["out"]), default=None)))
    if bad:
        k = len(bad["out"]) // 2
        bad["out"][k] = 1000 + 0x2603 if bad["out"][k] != 1000 + 0x2603 else C.LF
        tf = os.path.join(ck.tmp, "c11_bad.json")
        with open(tf, "w") as f:
            json.dump([bad], f)
        cfg = write_cfg(os.path.join(ck.tmp, "c11_bad.cfg"), constants={"Dev": tla_set(dev) if dev else "{}"}, spec="Spec", deadlock=True)
        res = run_tlc(TRACE_SPEC, cfg, workers=1, env={"TRACE_FILE": tf}, timeout=600)
        if res.ok or res.violated != "deadlock":
            raise MachineryError("vacuous trace validation: a corrupted recording was accepted")
        ck.extra["corrupted_trace_rejected"] = True
    badx = json.loads(json.dumps(min((t for t in traces if t["conv"] == "xml" and len(t["out"]) > 6), key=lambda t: len(t["out"]), default=None)))
    if badx:
        k = next(q for q, e in enumerate(badx["out"]) if e["e"] == "open" and e["n"] != C.E_PAGES and q > 2)
        badx["out"][k]["at"] = badx["out"][k]["at"][:-1] + [987654]          # one number rendering altered
        tf = os.path.join(ck.tmp, "c11_badx.json")
        with open(tf, "w") as f:
            json.dump([badx], f)
        cfg = write_cfg(os.path.join(ck.tmp, "c11_badx.cfg"), constants={"Dev": tla_set(dev) if dev else "{}"}, spec="Spec", deadlock=True)
        res = run_tlc(TRACE_SPEC, cfg, workers=1, env={"TRACE_FILE": tf}, timeout=600)
        if res.ok or res.violated != "deadlock":
            raise MachineryError("vacuous trace validation: a corrupted xml recording was accepted")
        ck.extra["corrupted_xml_trace_rejected"] = True


# ================================================================================================ extended coverage
# HTMLConverter, HOCRConverter, TagExtractor: outside the statement of C11.  Discrepancies are notes and counters in
# evidence (extended_coverage), never violations.
MARKUP_SPEC = os.path.join(SPECS, "conv", "MC_Markup.tla")
MARKUP_TRACE_SPEC = os.path.join(SPECS, "conv", "MarkupTrace.tla")
TAG_SPEC = os.path.join(SPECS, "conv", "MC_TagExtract.tla")
MARKUP_ACTIONS = ["AGrow", "AStart", "ABegin", "AEnter", "AExit", "AClose"]
# (label, Kinds, MaxNodes, Strings, Convs, Modes)
MARKUP_CONFIGS = {
    "quick": [("markup", "HocrKinds", 4, "MPaletteQuick", "BothConvs", "AllModes"),
              # several glyphs in one line: the word collector of HOCRConverter, the span bookkeeping of HTMLConverter
              ("markup-lines", "LineKinds", 6, "MLinesQuick", "BothConvs", "NormalMode")],
    "thorough": [("markup", "HtmlKinds", 5, "MPalette5", "BothConvs", "AllModes"), ("markup-strings", "FlatKinds", 3, "MStr2", "BothConvs", "NormalMode"),
                 ("markup-lines", "LineKinds", 6, "MLines", "BothConvs", "NormalMode")],
}


def ext(ck, key, n=1):
    d = ck.extra.setdefault("extended_coverage", {})
    d[key] = d.get(key, 0) + n


def ext_note(ck, seen, key, text):
    if key not in seen:
        seen.add(key)
        ck.note("extended coverage (%s): %s" % (key, text))


def classify_markup(ck, seen, area, real, model_of, devs, what):
    """real output vs the intended model, the as-coded model and each deviation alone -> counters"""
    if real == model_of(set()):
        return "intended"
    hit = [d for d in devs if real == model_of({d})]
    if not hit and real == model_of(set(devs)):
        hit = [d for d in devs if model_of({d}) != model_of(set())] or ["combination"]
    if hit:
        for d in hit:
            ext(ck, "%s:%s" % (area, d))
            ext_note(ck, seen, "%s:%s" % (area, d), "%s: the code writes %r, the intended design %r"
                     % (what, _first_diff(real, model_of(set()))[0][:160], _first_diff(real, model_of(set()))[1][:160]))
        return "coded"
    ext(ck, area + ":unexplained")
    a, b = _first_diff(real, model_of(set(devs)))
    ext_note(ck, seen, area + ":unexplained", "%s: output explained by neither model: real ..%r, as-coded model ..%r" % (what, a[:160], b[:160]))
    return "unexplained"


def _first_diff(a, b):
    k = next((q for q in range(min(len(a), len(b))) if a[q] != b[q]), min(len(a), len(b)))
    k = max(0, k - 30)
    return a[k:k + 200], b[k:k + 200]


def markup_predicates(ck, conv, mode, real, Treal):
    """the independent readers on the real output"""
    from ..realise import markup_real as M
    want = M.nospace(M.glyph_text(Treal, conv, mode))
    if conv == "html":
        bad, text = M.read_html(real)
        if bad:
            ext(ck, "html:not-well-formed")
        else:
            # per page (the converter adds "Page n" anchors between the pages and "Page: 1, 2" at the end)
            got = M.nospace(text)
            pos = 0
            starts = [q for q, n in enumerate(Treal) if n["k"] == "page"] + [len(Treal)]
            for a, b in zip(starts, starts[1:]):
                part = M.nospace(M.glyph_text(Treal[a:b], conv, mode))
                at = got.find(part, pos)
                if at < 0:
                    ext(ck, "html:glyph-text-missing")
                    break
                pos = at + len(part)
    else:
        bad, text, nest = M.read_hocr(real)
        if bad:
            ext(ck, "hocr:not-well-formed")
        elif M.hocr_domain(Treal):
            if M.nospace(text) != C.strip_control(want):
                ext(ck, "hocr:glyph-text-differs")
            if nest:
                ext(ck, "hocr:nesting")


def direction_markup(ck, seen):
    from ..realise import markup_real as M
    devs_all = M.MARKUP_DEVS
    n_replayed = 0
    for (label, kinds, maxn, strings, convs, modes) in MARKUP_CONFIGS[ck.tier]:
        mod = "RunM_" + label.replace("-", "_")
        wrapper = os.path.join(ck.tmp, mod + ".tla")
        with open(wrapper, "w") as f:
            f.write('---- MODULE %s ----\nEXTENDS MC_Markup\nTheDevs == {{}, %s}\nMPaletteQuick == {<<cLT, cAMP>>, <<cQUOT, cPLUS, cAPOS>>, <<cPLAIN, cSP, cPLAIN>>}\nMLinesQuick == {<<cPLAIN, cSP, cLT>>, <<cSP>>}\nMPalette5 == {<<cLT, cAMP>>, <<cQUOT, cPLUS, cAPOS>>, <<cPLAIN, cSP, cPLAIN>>, <<cPCT, cFMT>>, <<cLBRACE, cFMT, cRBRACE>>}\n====\n'
                    % (mod, tla_set(devs_all)))
        cfg = write_cfg(os.path.join(ck.tmp, mod + ".cfg"),
                        constants={"MaxNodes": maxn, "Strings": "<- " + strings, "Kinds": "<- " + kinds, "DevChoices": "<- TheDevs",
                                   "Convs": "<- " + convs, "Modes": "<- " + modes, "ParseOutput": "TRUE"},
                        invariants=["WellFormedML", "TextFaithful", "HocrNesting", "FontStackDepth"], constraints=["EmitTerminal"])
        emit = os.path.join(ck.tmp, mod + ".ndjson")
        res = run_tlc(wrapper, cfg, emit=emit, coverage=False, timeout=3600, lib=os.path.join(SPECS, "conv"), env=JVM)
        ck.add_tlc(res, "MarkupConverters %s: %s, <= %d nodes, %s" % (label, kinds, maxn, strings))
        if not res.ok:
            raise MachineryError("MarkupConverters.tla violates %s on the intended design:\n%s" % (res.violated, res.error_text[:3000]))
        n = 0
        for line in open(emit):
            rec = json.loads(line)
            n += 1
            T, conv, mode, dev = rec["T"], rec["conv"], rec["mode"], set(rec["dev"])
            if M.markup_chars(T, conv, mode, dev) != rec["chars"]:
                raise MachineryError("markup transcription disagrees with TLC for %s" % json.dumps(rec)[:800])
            if dev:
                continue
            con = M.MarkupConcrete(n % 3 if conv == "html" else 0)
            pages, objs = M.build_direct(T, con)
            scale, margin = ((1, 50), (0.5, 7))[n % 2] if conv == "html" else (1, 50)
            try:
                real = M.run_markup(pages, conv, mode, scale=scale, pagemargin=margin)
            except Exception as e:  # noqa: BLE001
                ext(ck, "%s:exception:%s" % (conv, type(e).__name__))
                continue
            con.nums = M.WordBoxes(M.render_nums(T, objs, conv, scale=scale, pagemargin=margin), T, objs)
            devs = M.HTML_DEVS if conv == "html" else M.HOCR_DEVS
            Treal, _ = C.project(pages)
            classify_markup(ck, seen, conv, real, lambda d: con.text(M.markup_chars(T, conv, mode, d)), devs,
                            "%s (%s) of tree %s" % (conv, mode, "/".join(x["k"] for x in T)))
            markup_predicates(ck, conv, mode, real, Treal)
            n_replayed += 1
            ck.replayed += 1
            ck.case(1, ("markup", json.dumps(T), conv, mode))
        os.remove(emit)
        if n != res.emitted or n == 0:
            raise MachineryError("emitted %d terminal states but read %d" % (res.emitted, n))
    ck.extra["markup_trees_replayed"] = n_replayed


def markup_documents(ck, seen):
    """the generated hostile documents through extract_text_to_fp(html | hocr) against the transcription applied to the
    hierarchy of the same bytes"""
    from pdfminer.high_level import extract_text_to_fp
    from ..realise import markup_real as M
    rng = random.Random(ck.seed)
    strings = hostile_strings(ck.tier, rng)
    parts = [strings[i:i + 10] for i in range(0, len(strings), 10)]
    if ck.tier == "quick":
        parts = parts[:2] + parts[-1:]
    ndoc = 0
    for part in parts:
        data = C.hostile_doc(part)
        ndoc += 1
        for conv, lakey, mode, scale in (("html", "default", "normal", 1), ("html", "none", "normal", 0.5), ("html", "all_texts", "exact", 1),
                                         ("html", "default", "loose", 2), ("hocr", "all_texts", "normal", 1), ("hocr", "default", "normal", 1)):
            fp = io.StringIO()
            try:
                extract_text_to_fp(io.BytesIO(data), fp, output_type=conv, codec=None, laparams=C.LAPARAMS[lakey](), layoutmode=mode, scale=scale)
            except Exception as e:  # noqa: BLE001
                ext(ck, "%s:exception:%s" % (conv, type(e).__name__))
                ext_note(ck, seen, "%s:exception" % conv, "extract_text_to_fp(%s) raised %r" % (conv, e))
                continue
            real = fp.getvalue()
            fp2 = io.StringIO()
            try:
                extract_text_to_fp(io.BytesIO(data), fp2, output_type=conv, codec="", laparams=C.LAPARAMS[lakey](), layoutmode=mode, scale=scale)
                if fp2.getvalue() != real:
                    ext(ck, "%s:codec-empty-differs" % conv)
                    ext_note(ck, seen, "%s:codec-empty" % conv, "extract_text_to_fp(%s, StringIO, codec=\"\") differs from codec=None" % conv)
            except Exception as e:  # noqa: BLE001
                ext(ck, "%s:codec-empty-exception:%s" % (conv, type(e).__name__))
                ext_note(ck, seen, "%s:codec-empty" % conv, "extract_text_to_fp(%s, StringIO, codec=\"\") raised %r" % (conv, e))
            pages = C.pages_of(data, C.LAPARAMS[lakey]())
            Tp, objs = C.project(pages)
            Tm = M.with_keys(C.model_tree_of(Tp), objs)
            con = M.MarkupConcrete(0)
            con.nums = M.WordBoxes(M.render_nums(Tp, objs, conv, scale=scale), Tp, objs)
            devs = M.HTML_DEVS if conv == "html" else M.HOCR_DEVS
            classify_markup(ck, seen, conv, real, lambda d: con.text(M.markup_chars(Tm, conv, mode, d)), devs,
                            "%s (%s, LAParams %s) of the generated document with %r" % (conv, mode, lakey, part[0]))
            markup_predicates(ck, conv, mode, real, Tp)
            ck.case(1, ("markup-pdf", ndoc, conv, lakey, mode))
    ck.extra["markup_documents"] = ndoc


def tla_token(tk):
    """a transcription token as MarkupConverters.tla numbers it"""
    if tk <= -3000000000:
        v = -tk - 3000000000
        f, ij = v % 20, v // 20
        return 2000000 + 20 * (100 * (ij // 10000000) + (ij % 10000000)) + f
    if tk < 0:
        # Num(i, f) of a node beyond the 90th (conv_real.num keeps those apart from character codes)
        return 100 + 10 * ((-tk) // 10) + (-tk) % 10
    return tk


def markup_traces(ck, seen):
    """recorded HTMLConverter / HOCRConverter runs over sample pages, validated by TLC against MarkupTrace.tla"""
    from pdfminer.converter import HOCRConverter, HTMLConverter
    from pdfminer.high_level import extract_text_to_fp
    from ..realise import markup_real as M
    rng = random.Random(ck.seed + 1)
    files = sorted(glob.glob("/repo/samples/**/*.pdf", recursive=True))
    files = [f for f in files if "encryption" not in f and os.path.getsize(f) < 400_000]
    pick = rng.sample(files, min(4 if ck.tier == "quick" else 14, len(files)))
    traces = []
    for fn in pick:
        origin = os.path.relpath(fn, "/repo")
        for conv, cls, lakey in (("html", HTMLConverter, "default"), ("hocr", HOCRConverter, "all_texts")):
            fp = io.StringIO()
            try:
                with Recorder(cls) as rec, open(fn, "rb") as f:
                    extract_text_to_fp(f, fp, output_type=conv, codec=None, laparams=C.LAPARAMS[lakey](), maxpages=1)
            except Exception:  # noqa: BLE001
                continue
            if not rec.pages:
                continue
            real = fp.getvalue()
            Tp, objs = C.project(rec.pages)
            if len(Tp) > (1500 if ck.tier == "quick" else 4000):
                continue
            Tm = M.with_keys([dict(n, s=C.encode_trace(n["s"]), f=C.encode_trace(n["f"])) for n in Tp], objs)
            # size classes: the identities the converters compare, as small integers
            ids = {}
            for n in Tm:
                if n["k"] == "char":
                    key = n["fk"] if conv == "html" else n["wk"]
                    n["a"] = ids.setdefault(key, len(ids)) + (50000 if (conv == "hocr" and n.get("wstyle")) else 0)
            con = M.MarkupConcrete(0)
            con.nums = M.WordBoxes(M.render_nums(Tp, objs, conv), Tp, objs)
            devs = M.HTML_DEVS if conv == "html" else M.HOCR_DEVS
            markup_predicates(ck, conv, "normal", real, Tp)
            state = classify_markup(ck, seen, conv, real, lambda d: con.text(M.markup_chars(Tm, conv, "normal", d)), devs,
                                    "%s of %s" % (conv, origin))
            ck.case(1, ("markup-sample", origin, conv))
            # the recording in the specification's alphabet: each token of the as-coded stream whose concrete form is at the cursor
            tdev = [] if state == "intended" else list(devs)
            toks = M.markup_chars(Tm, conv, "normal", tdev)
            out, pos = [], 0
            for tk in toks:
                cs = con.ch(tk)
                if real.startswith(cs, pos):
                    out.append(tla_token(tk))
                    pos += len(cs)
                else:
                    out += [1000 + ord(ch) for ch in real[pos:pos + 40]]
                    break
            if conv == "hocr":
                # the trace machine's word key: size class + 2 * parent; make `a` carry the whole identity within a line
                pass
            traces.append({"conv": conv, "mode": "normal", "origin": origin, "dev": tdev,
                           "T": [{"k": n["k"], "d": n["d"], "s": n["s"], "f": n["f"], "a": n["a"] if n["k"] == "char" else 0} for n in Tm], "out": out})
    if not traces:
        return
    tf = os.path.join(ck.tmp, "c11_markup_traces.json")
    accepted = 0
    with open(tf, "w") as f:
        json.dump(traces, f)
    cfg = write_cfg(os.path.join(ck.tmp, "c11_markup_trace.cfg"),
                    constants={"MaxNodes": 1, "Strings": "{}", "Kinds": "{}", "DevChoices": "{}", "Convs": "{}", "Modes": "{}",
                               "ParseOutput": "FALSE"},
                    init="TraceInit", next="TraceNext", invariants=["TraceMatches", "WholeMatches"])
    res = run_tlc(MARKUP_TRACE_SPEC, cfg, workers=4, env={"TRACE_FILE": tf}, timeout=1800, heap="8g")
    ck.add_tlc(res, "trace validation of %d recorded html / hocr runs" % len(traces))
    if res.ok:
        accepted = len(traces)
    else:
        st = res.error_trace[-1][1] if res.error_trace else {}
        ext(ck, "markup:trace-rejected")
        ext_note(ck, seen, "markup:trace-rejected", "a recorded html / hocr run is not a behaviour of MarkupConverters.tla (%s; trace %s, node %s)"
                 % (res.violated, st.get("hs"), st.get("i")))
    ck.traces += accepted
    ck.extra["markup_traces"] = len(traces)
    # vacuity: a corrupted recording must be rejected
    bad = json.loads(json.dumps([min(traces, key=lambda t: len(t["out"]))]))
    bad[0]["out"][len(bad[0]["out"]) // 2] = 1000 + 0x2603
    with open(tf, "w") as f:
        json.dump(bad, f)
    res = run_tlc(MARKUP_TRACE_SPEC, cfg, workers=1, env={"TRACE_FILE": tf}, timeout=600)
    if res.ok:
        raise MachineryError("vacuous markup trace validation: a corrupted recording was accepted")
    ck.extra["markup_corrupted_trace_rejected"] = True


def direction_tag(ck, seen):
    from pdfminer.utils import make_compat_str
    from ..realise import markup_real as M
    mod = "RunT"
    wrapper = os.path.join(ck.tmp, mod + ".tla")
    with open(wrapper, "w") as f:
        f.write('---- MODULE %s ----\nEXTENDS MC_TagExtract\nTheDevs == {{}, %s}\n====\n' % (mod, tla_set(M.TAG_DEVS)))
    maxops, strings, tags = (4, "TOne", "Tags2") if ck.tier == "quick" else (4, "TPalette", "Tags3")
    cfg = write_cfg(os.path.join(ck.tmp, mod + ".cfg"), constants={"MaxOps": maxops, "MaxDepth": 2, "Strings": "<- " + strings, "DevChoices": "<- TheDevs",
                                                                    "Tags": "<- " + tags},
                    invariants=["TagWellFormed", "TagStackEmpty", "TagTextFaithful", "TagElementsMatch", "StackIsOpenTags"], constraints=["EmitTerminal"])
    emit = os.path.join(ck.tmp, mod + ".ndjson")
    res = run_tlc(wrapper, cfg, emit=emit, timeout=3600, lib=os.path.join(SPECS, "conv"), env=JVM)
    ck.add_tlc(res, "TagExtract: programs of <= %d operations, depth <= 2, %s" % (maxops, strings))
    if not res.ok:
        raise MachineryError("TagExtract.tla violates %s on the intended design:\n%s" % (res.violated, res.error_text[:3000]))
    progs = []
    n = 0
    for line in open(emit):
        rec = json.loads(line)
        n += 1
        if M.tag_chars(rec["prog"], set(rec["dev"])) != rec["chars"]:
            raise MachineryError("tag transcription disagrees with TLC for %s" % json.dumps(rec)[:600])
        if not rec["dev"]:
            progs.append(rec["prog"])
    os.remove(emit)
    if n != res.emitted or n == 0:
        raise MachineryError("emitted %d terminal states but read %d" % (res.emitted, n))
    rng = random.Random(ck.seed)
    limit = 500 if ck.tier == "quick" else 20000
    progs.sort(key=lambda pr: json.dumps(pr, sort_keys=True))          # TLC's emission order depends on its workers
    if len(progs) > limit:
        progs = rng.sample(progs, limit)
    con = M.TagConcrete(0)
    con.nums = {C.numkey(0, C.F_BBOX): "0.000,0.000,200.000,200.000", C.numkey(0, C.F_ROTATE): "0"}
    done = 0
    for i in range(0, len(progs), 150):
        chunk = progs[i:i + 150]
        try:
            real = M.run_tag(M.tag_doc(chunk, con))
        except Exception as e:  # noqa: BLE001
            ext(ck, "tag:exception:%s" % type(e).__name__)
            ext_note(ck, seen, "tag:exception", "TagExtractor raised %r on a balanced program" % e)
            continue
        frags = [x + "</page>\n" for x in real.split("</page>\n")[:-1]]
        if len(frags) != len(chunk):
            ext(ck, "tag:page-count")
            continue
        for pno, (prog, frag) in enumerate(zip(chunk, frags)):
            con.nums[C.numkey(0, C.F_ID)] = "%d" % pno
            # property values go through make_compat_str, which guesses a character set for byte strings
            guess = [con.text(op["pv"]) for op in prog if op["o"] in ("BDC", "DP") and op["pv"]
                     and make_compat_str(con.text(op["pv"]).encode("ascii")) != con.text(op["pv"])]
            if guess:
                ext(ck, "tag:property-value-charset-guess")
                ext_note(ck, seen, "tag:property-value-charset-guess", "make_compat_str reads the property value %r as %r"
                         % (guess[0], make_compat_str(guess[0].encode("ascii"))))
                continue
            classify_markup(ck, seen, "tag", frag, lambda d: con.text(M.tag_chars(prog, d)), M.TAG_DEVS,
                            "marked content %s" % " ".join(op["o"] for op in prog))
            bad, text = M.read_tag_page(frag)
            if bad:
                ext(ck, "tag:not-well-formed")
            elif M.nospace(text) != M.nospace("".join(con.text(op["pv"]) for op in prog if op["o"] == "Tj")):
                ext(ck, "tag:text-differs")
            done += 1
            ck.replayed += 1
            ck.case(1, ("tag", json.dumps(prog)))
    ck.extra["tag_programs_replayed"] = done
    # TagExtractor over the samples: every page fragment read by expat (tags balance for balanced input)
    from pdfminer.high_level import extract_text_to_fp
    files = sorted(glob.glob("/repo/samples/**/*.pdf", recursive=True))
    files = [f for f in files if "encryption" not in f and os.path.getsize(f) < 1_000_000]
    pages = 0
    for fn in (files if ck.tier == "thorough" else rng.sample(files, min(8, len(files)))):
        fp = io.BytesIO()
        try:
            with open(fn, "rb") as f:
                extract_text_to_fp(f, fp, output_type="tag", codec="utf-8", maxpages=3)
        except AssertionError:
            ext(ck, "tag:sample-unbalanced-EMC")
            continue
        except Exception as e:  # noqa: BLE001
            ext(ck, "tag:sample-exception:%s" % type(e).__name__)
            continue
        for frag in fp.getvalue().decode("utf-8", "replace").split("</page>\n")[:-1]:
            pages += 1
            bad, _ = M.read_tag_page(frag + "</page>\n")
            if bad:
                ext(ck, "tag:sample-page-not-well-formed")
                ext_note(ck, seen, "tag:sample-page-not-well-formed", "TagExtractor output for a page of %s is not well-formed: %s"
                         % (os.path.relpath(fn, "/repo"), bad))
    ck.extra["tag_sample_pages"] = pages


def direction_extended(ck):
    seen = set()
    direction_markup(ck, seen)
    markup_documents(ck, seen)
    markup_traces(ck, seen)
    direction_tag(ck, seen)


def run(ck):
    dev = active("conv")
    unknown = [d for d in dev if d not in C.ALLDEVS]
    if unknown:
        raise MachineryError("unknown conv deviation(s) %s" % unknown)
    ck.extra["deviations_modelled_as_coded"] = dev
    judge = Judge(ck, dev)
    ck.rule = ("A: every layout tree TLC grows up to the node bound (per kind family) x every hostile string of the configured set in "
               "every document-controlled slot x {text, xml} x strip_control x image writer, each built from real LT objects and "
               "run through the real converter on a StringIO and on BytesIO with utf-8 / utf-16 / latin-1 (where representable); "
               "plus generated PDFs per hostile string x LAParams variants through extract_text_to_fp / extract_text. non-trivial = "
               "the tree has more than two nodes or carries an XML-special, control, non-ASCII or astral character; distinct by "
               "(tree, converter, options). B: recorded converter runs over sample documents, distinct by (file, converter, LAParams).")
    ck.assumptions = ["number renderings (%.3f bounding boxes, sizes, colour tuples) are opaque tokens compared as strings",
                      "XML well-formedness is judged after removing C0 controls, which XML 1.0 cannot carry (DESIGN.md section 5); "
                      "with strip_control the character data itself must be free of them",
                      "CR and TAB/LF inside attribute values are compared after XML's own line-end and attribute-value normalisation",
                      "a codec 'able to represent' the output = str.encode(codec) succeeds on it"]
    import time
    t0 = time.time()
    phases = {}
    for name, fn in (("teeth", lambda: teeth(ck)), ("model_replay", lambda: direction_a_model(ck, dev, judge)),
                     ("generated_pdfs", lambda: direction_a_pdf(ck, dev, judge)), ("sample_traces", lambda: direction_b(ck, dev, judge)),
                     ("extended_coverage", lambda: direction_extended(ck))):
        fn()
        phases[name] = round(time.time() - t0, 1)
        t0 = time.time()
    ck.extra["phase_wall_s"] = phases
    ck.extra["model_code_drift"] = judge.drift
    ck.exhaustive = True


def replay(path):
    doc = json.load(open(path))
    case = unjson(doc["case"])
    print("key:", doc["key"])
    print(doc["what"])

    class P:
        pid = "C11"
        violations = []

        def violation(self, key, what, rp=None):
            self.violations.append(key)
            print("  reproduced: %s  %s" % (key, what[:300]))
            return True

        def note(self, s):
            print("  note:", s)

        def case(self, *a):
            pass

        def sample(self, *a):
            pass
    ck = P()
    judge = Judge(ck, [])
    if "tree" in case:
        replay_tree(ck, judge, case["tree"], case["conv"], case["strip"], case["imgw"], case.get("rep", 0), "replay")
    elif "pdf" in case:
        judge_document(ck, judge, case["pdf"], case.get("laparams", "default"), "replayed document", {},
                       convs=(case.get("conv"),) if case.get("conv") else ("text", "xml"))
    elif "origin" in case:
        fn = os.path.join("/repo", case["origin"].split(" [")[0])
        pages, out = record_sample(fn, case["conv"], C.LAPARAMS[case.get("laparams", "default")](), case.get("strip", False), 2)
        Tp, objs = C.project(pages)
        if case["conv"] == "text":
            if out != C.real_tree_text(Tp):
                ck.violation("text:not-tree-text", "text output differs from the tree text")
        else:
            evs, err = C.expat_events(out)
            if err or evs != C.norm_events(C.real_tree_events(Tp, objs, case.get("strip", False), False)):
                ck.violation("xml", "xml output malformed or unfaithful: %s" % err)
    if ck.violations:
        print("VIOLATION property=C11 replay=%s" % path)
        return 1
    print("not reproduced on this tree")
    return 0
