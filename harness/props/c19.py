"""C19 - CCITT Group 4 decoding inverts a conforming T.6 encoder for every bitmap.

A. specs/ccitt/G4.tla: TLC enumerates every bitmap of the configured size x every admissible mode sequence (pass /
   vertical / horizontal, make-up and terminating codes) with the writer relation of T.6 and the transcribed reader in
   lock step, checking InSync / RowsSoFar / RowsRoundTrip / WellFormed / Progress in every state.  Every printed
   state is replayed: each complete row coding is turned into bits with pdfminer's own (structurally checked) code
   tables and fed to the real CCITTG4Parser, whose position, colour and coding line are compared after every mode
   step, and to ccittfaxdecode end to end with and without EncodedByteAlign / BlackIs1; every bitmap of the bounded
   space also goes through PDFStream.get_data() with /Filter /CCITTFaxDecode /K -1 under several mode strategies.
   specs/ccitt/PrefixCode.tla: the bit level (trie walk, ByteSkip, EOFB) over generic prefix-free tables; every
   terminal state is replayed on the real BitParser/feedbytes.
B. runs of the real decoder on bitmaps far outside the bounded space (widths to 5300, several 2560 make-up codes,
   random / striped / text-like / blank rows, five mode strategies, the repository's one real Group 4 image) are
   recorded step by step and validated by TLC against specs/ccitt/G4Trace.tla.
"""
import json
import os
import random
import time
from concurrent.futures import ThreadPoolExecutor

from ..core import unjson
from ..tlc import MachineryError, SPECS, require_coverage, run_tlc, write_cfg
from ..realise import t6
from ..observe import g4run

G4_SPEC = os.path.join(SPECS, "ccitt", "MC_G4.tla")
PC_SPEC = os.path.join(SPECS, "ccitt", "MC_PrefixCode.tla")
TRACE_SPEC = os.path.join(SPECS, "ccitt", "G4Trace.tla")
G4_INV = ["InSync", "RowsSoFar", "RowsRoundTrip", "WellFormed", "CanonicalAdmissible", "ChangesLevelAgrees"]

# (label, W, H, RowSet, MK, MKMAX, Polarities, replayable on the real code (MK = 64))
G4_RUNS = {
    "quick": [("w6h2", 6, 2, "AllRows", 64, 2560, "OnlyFalse", True),
              ("w3h3", 3, 3, "AllRows", 64, 2560, "Both", True),
              ("w5h2-scaled-makeup", 5, 2, "AllRows", 2, 4, "OnlyFalse", False),
              ("w131h2-sparse", 131, 2, "SparseRowsQ", 64, 2560, "OnlyFalse", True)],
    "thorough": [("w7h2", 7, 2, "AllRows", 64, 2560, "OnlyFalse", True),
                 ("w6h2", 6, 2, "AllRows", 64, 2560, "Both", True),
                 ("w4h3", 4, 3, "AllRows", 64, 2560, "Both", True),
                 ("w3h4", 3, 4, "AllRows", 64, 2560, "Both", True),
                 ("w7h2-scaled-makeup", 7, 2, "AllRows", 2, 4, "OnlyFalse", False),
                 ("w6h2-scaled-makeup3", 6, 2, "AllRows", 1, 3, "OnlyFalse", False),
                 ("w131h2-sparse", 131, 2, "SparseRows", 64, 2560, "OnlyFalse", True)],
}
PC_RUNS = {"quick": [("CodeA", 3), ("CodeB", 4)], "thorough": [("CodeA", 5), ("CodeB", 5)]}
PC_CODES = {"CodeA": {"a": [1], "b": [0, 1, 1], "c": [0, 1, 0], "d": [0, 0, 1], "E": [0, 0, 0, 0, 0, 1, 0, 0, 0, 0, 0, 1]},
            "CodeB": {"a": [1, 1], "b": [1, 0, 0], "c": [0, 1], "E": [0, 0, 0, 0, 1]}}


def capped(ck, counts, key, what, replay):
    counts[key] = counts.get(key, 0) + 1
    if counts[key] > 12 and not ck.is_known(key):
        return
    ck.violation(key, what, replay)


# ------------------------------------------------------------------------------------------ TLC runs
def g4_tlc(ck, run, workers):
    label, W, H, rows, mk, mkmax, pol, _ = run
    cfg = write_cfg(os.path.join(ck.tmp, "c19_%s.cfg" % label),
                    constants={"W": W, "H": H, "RowSet": "<- " + rows, "MK": mk, "MKMAX": mkmax, "Polarities": "<- " + pol},
                    invariants=G4_INV, properties=["Progress"], constraints=["EmitState"])
    emit = os.path.join(ck.tmp, "c19_%s.ndjson" % label)
    return run_tlc(G4_SPEC, cfg, emit=emit, coverage=(ck.tier == "quick" and label == "w3h3"), timeout=7200, workers=workers), emit


def pc_tlc(ck, run, workers):
    code, maxlen = run
    spec = PC_SPEC
    end = '"E"'
    cfg = write_cfg(os.path.join(ck.tmp, "c19_pc_%s.cfg" % code),
                    constants={"Code": "<- " + code, "END": end, "MaxLen": maxlen, "ByteLen": 8},
                    invariants=["PrefixDecodeOK", "NoInvalid", "EndsWithEOFB", "WholeBytes"], properties=["Progress"],
                    constraints=["EmitTerminal"])
    emit = os.path.join(ck.tmp, "c19_pc_%s.ndjson" % code)
    return run_tlc(spec, cfg, emit=emit, coverage=(ck.tier == "quick"), timeout=7200, workers=workers), emit


# ------------------------------------------------------------------------------------------ direction A
COMBOS = [(False, False), (True, False), (False, True), (True, True)]      # (EncodedByteAlign, BlackIs1)


# The other entries of the CCITTFaxDecode parameter dictionary (ISO 32000-1 table 11), none of which changes what a
# Group 4 stream decodes to: /Rows absent, 0 (= "height not predetermined", the default), the exact height, or larger
# (the data then ends with EOFB before that many rows); /EndOfLine false (its default; true would require EOL
# patterns in the data); /EndOfBlock true (default) with an EOFB in the data, or false with /Rows = height and no
# EOFB; /DamagedRowsBeforeError any number.  -> (extra entries, write an EOFB)
def param_variant(i, h):
    v = i % 10
    if v == 0:
        return {}, True
    if v == 1:
        return {"Rows": 0}, True
    if v == 2:
        return {"Rows": h}, True
    if v == 3:
        return {"Rows": h + 3}, True
    if v == 4:
        return {"Rows": 0, "EndOfLine": False, "EndOfBlock": True, "DamagedRowsBeforeError": 0}, True
    if v == 5:
        return {"Rows": h, "EndOfBlock": False}, False
    if v == 6:
        return {"DamagedRowsBeforeError": 5, "EndOfLine": False}, True
    if v == 7:
        return {"Rows": h, "EndOfBlock": True, "DamagedRowsBeforeError": 1}, True
    if v == 8:
        return {"Rows": 0, "EndOfBlock": True}, True
    return {"Rows": h + 1000, "EndOfLine": False}, True


_variant = [0]


def next_variant(h):
    _variant[0] += 1
    return param_variant(_variant[0], h)


def judge(out, rows, w, blackis1):
    """the decoded bytes against the original rows: a row is ceil(w/8) bytes, most significant bit first, sample 1 =
    white unless BlackIs1, pad bits 0 in both polarities (G4.tla IsPacked).  -> None | (key, detail)"""
    got = t6.unpack(out, w, len(rows), blackis1)
    if got is None:
        return "rows:count", "%d bytes for %d rows of width %d" % (len(out), len(rows), w)
    if got != rows:
        y = next(i for i in range(len(rows)) if got[i] != rows[i])
        return "rows:differ", "row %d: %s" % (y, ("got %r want %r" % (got[y], rows[y])) if w <= 40 else "first difference at x=%d"
                                              % next(x for x in range(w) if got[y][x] != rows[y][x]))
    want = t6.pack(rows, w, blackis1)
    if out != want:
        stride = (w + 7) // 8
        y = next(i for i in range(len(rows)) if out[i * stride:(i + 1) * stride] != want[i * stride:(i + 1) * stride])
        return "rows:pad-bits", ("the pixels are right but the pad bits of row %d are not 0: last byte %02x, expected %02x"
                                 % (y, out[(y + 1) * stride - 1], want[(y + 1) * stride - 1]))
    return None


def end_to_end(ck, counts, rows, row_syms, w, align, blackis1, origin, via_stream=False):
    """the property itself on the real decoder: decode(T.6 encoding of rows) == rows, byte for byte"""
    extra, eofb = next_variant(len(rows))
    data = t6.assemble([t6.bits_of_row(s) for s in row_syms], align, eofb=eofb)
    if via_stream:
        out, err = decode_stream(data, w, len(rows), align, blackis1, extra)
    else:
        out, err = g4run.decode(data, w, align, blackis1, omit_false=True, extra=extra)
    case = {"kind": "image", "w": w, "rows": rows, "syms": row_syms if len(rows) <= 500 else None, "align": align, "blackis1": blackis1,
            "via_stream": via_stream, "origin": origin, "extra_params": extra, "eofb": eofb}
    shown = "align=%s, BlackIs1=%s, further parameters %r%s" % (align, blackis1, extra, "" if eofb else ", no EOFB")
    if err is not None:
        capped(ck, counts, "decode:exception:" + err, "decoder raised %s on a conforming stream (%s, width %d, %d rows, %s)"
               % (err, origin, w, len(rows), shown), case)
        return False
    bad = judge(out, rows, w, blackis1)
    if bad:
        capped(ck, counts, bad[0], "decoded image is not the original (%s, width %d, %d rows, %s): %s"
               % (origin, w, len(rows), shown, bad[1]), case)
        return False
    return True


def decode_stream(data, w, h, align, blackis1, extra=None):
    from pdfminer.pdftypes import PDFStream
    from pdfminer.psparser import LIT
    parms = {"K": -1, "Columns": w}
    parms.update(extra or {})
    if align:
        parms["EncodedByteAlign"] = True
    if blackis1:
        parms["BlackIs1"] = True
    st = PDFStream({"Filter": LIT("CCITTFaxDecode"), "DecodeParms": parms, "Length": len(data)}, data)
    try:
        return st.get_data(), None
    except BaseException as e:  # noqa: B902
        return None, type(e).__name__


def g4_replay(ck, run, res, emit, counts, stats):
    label, W, H, rowset, mk, mkmax, pol, replayable = run
    ck.add_tlc(res, "G4 %s: every image of %d rows from %s (W=%d) x every admissible mode sequence, MK=%d" % (label, H, rowset, W, mk))
    if not res.ok:
        st = res.error_trace[-1][1] if res.error_trace else {}
        ck.violation("model:" + str(res.violated), "TLC: %s violated on the Group 4 specification (%s; image %s)"
                     % (res.violated, label, st.get("img", "?")), {"tlc": res.error_text[:4000]})
        return
    if res.actions:
        require_coverage(res, ["APass", "AVertical", "AHorizontal", "AEndOfBlock"])
    if not replayable:
        os.remove(emit)
        stats["tlc_only_configs"].append(label)
        return
    # prefix states: (ref, row, syms) -> (pos, color, cur) ; completions: (ref, row, syms + [fin])
    prefix = {}
    complete = []
    n = 0
    with open(emit) as f:
        for line in f:
            r = json.loads(line)
            n += 1
            key = (tuple(r["ref"]), tuple(r["row"]), json.dumps(r["syms"]))
            prefix[key] = (r["pos"], r["color"], r["cur"])
            for fin in r["fin"]:
                complete.append((r["ref"], r["row"], r["syms"] + [fin]))
    os.remove(emit)
    if n != res.emitted or n == 0 or not complete:
        raise MachineryError("emitted %d states but read %d (%d complete row codings)" % (res.emitted, n, len(complete)))
    seen_states = set()
    for idx, (ref, row, syms) in enumerate(complete):
        # (1) step by step on the real parser
        ev, rows_out, err = g4run.steps_of_row(ref, syms, W)
        case = {"kind": "row", "w": W, "ref": ref, "row": row, "syms": syms}
        show = (lambda r: r) if W <= 40 else (lambda r: "changes@%r" % (t6.changes(r),))
        ck.case(1, ("row", label, tuple(ref), tuple(row), json.dumps(syms)) if len(syms) > 1 or ref != [1] * W else None)
        if err is not None:
            capped(ck, counts, "decode:exception:" + err, "CCITTG4Parser raised %s on reference row %s + coding %r of row %s (width %d)"
                   % (err, show(ref), syms, show(row), W), case)
            continue
        if len(rows_out) != 2 or rows_out[0][1] != ref or rows_out[1][1] != row or [y for y, _ in rows_out] != [0, 1]:
            capped(ck, counts, "rows:differ", "rows put out %s for reference row %s and coding %r of row %s (width %d)"
                   % ([(y, show(b)) for y, b in rows_out], show(ref), syms, show(row), W), case)
            continue
        # the real parser after each symbol against the specification's reader state after the same prefix
        for j, e in enumerate(ev[:len(syms) - 1]):
            key = (tuple(ref), tuple(row), json.dumps(syms[:j + 1]))
            want = prefix.get(key)
            if want is None:
                raise MachineryError("no printed state for the prefix %r" % (key,))
            seen_states.add(key)
            if (e["pos"], e["col"], e["cur"]) != want:
                stats["drift"] += 1
                if stats["drift"] <= 5:
                    ck.note("reader drift after %r (ref %r row %r): real (pos, colour, line) %r, specification %r"
                            % (syms[:j + 1], ref, row, (e["pos"], e["col"], e["cur"]), want))
        if len(ev) != len(syms):
            stats["drift"] += 1
            if stats["drift"] <= 5:
                ck.note("the real parser made %d mode steps for %d symbols %r" % (len(ev), len(syms), syms))
        # (2) end to end, rotating through the parameter combinations
        align, bi = COMBOS[idx % 4]
        first = t6.encode([ref], W, t6.STRATEGIES["canon"](None))[0]
        end_to_end(ck, counts, [ref, row], [first, syms], W, align, bi, "G4 %s" % label)
        ck.case(1, None)
        if idx % 9973 == 17:
            ck.sample({"config": label, "reference_row": ref, "row": row, "symbols": syms,
                       "bits": t6.bits_of_row(syms), "real_steps": [(e["m"], e["pos"], e["col"]) for e in ev]}, limit=10)
    ck.replayed += len(complete)
    stats["row_codings"][label] = len(complete)
    stats["states_compared"][label] = len(seen_states)


def images_replay(ck, counts, stats, rng):
    """every bitmap of the bounded spaces through PDFStream.get_data() under several mode strategies"""
    import itertools
    sizes = [(5, 2), (3, 3)] if ck.tier == "quick" else [(7, 2), (6, 2), (4, 3), (3, 4)]
    n = 0
    for (w, h) in sizes:
        for bits in itertools.product((0, 1), repeat=w * h):
            rows = [list(bits[y * w:(y + 1) * w]) for y in range(h)]
            for si, strat in enumerate(("canon", "honly", "rand") if ck.tier == "quick" else ("canon", "honly", "rand", "nopass", "vpref")):
                syms = t6.encode(rows, w, t6.STRATEGIES[strat](rng))
                align, bi = COMBOS[(n + si) % 4]
                end_to_end(ck, counts, rows, syms, w, align, bi, "image %dx%d %s" % (w, h, strat), via_stream=True)
                ck.case(1, ("img", w, h, bits, strat))
            n += 1
    stats["images_through_PDFStream"] = n
    ck.replayed += n
    files_replay(ck, counts, stats, rng)


def files_replay(ck, counts, stats, rng):
    """images as XObjects of real PDF files: the whole way from the bytes of a file to PDFStream.get_data()"""
    import io
    from ..realise.pdfwriter import Name, Ref, Stream, simple_doc
    from pdfminer.pdfdocument import PDFDocument
    from pdfminer.pdfpage import PDFPage
    from pdfminer.pdfparser import PDFParser
    from pdfminer.pdftypes import resolve1
    n_docs = 3 if ck.tier == "quick" else 12
    done = 0
    for d in range(n_docs):
        images = {}
        want = {}
        extra_of = {}
        extra = {}
        # every way the stream dictionary may spell its filter and parameters (ISO 32000-1 7.3.10, table 5): each value
        # direct or an indirect reference, /Filter a name or an array, /DecodeParms a dictionary or an array
        f_shapes = ("name", "array", "indirect", "array-indirect")
        p_shapes = ("dict", "indirect", "array", "array-indirect")
        for i in range(16):
            w = rng.choice([1, 7, 8, 9, 33, 64, 65, 200, 1728])
            h = rng.randint(1, 4)
            rows = [[0 if rng.random() < rng.choice([0.1, 0.5]) else 1 for _ in range(w)] for _ in range(h)]
            strat = rng.choice(list(t6.STRATEGIES))
            align, bi = COMBOS[(d + i) % 4]
            xp, eofb = next_variant(h)
            data = t6.assemble([t6.bits_of_row(s) for s in t6.encode(rows, w, t6.STRATEGIES[strat](rng))], align, eofb=eofb)
            parms = {"K": -1, "Columns": w}
            parms.update(xp)
            if align:
                parms["EncodedByteAlign"] = True
            if bi:
                parms["BlackIs1"] = True
            name = "Im%d" % i
            fs, ps = f_shapes[(i + d) % 4], p_shapes[i // 4]
            fname = Name(rng.choice(["CCITTFaxDecode", "CCF"]) if fs != "name" else "CCITTFaxDecode")
            if fs in ("indirect", "array-indirect"):
                extra[100 + 2 * i] = fname
                fval = Ref(100 + 2 * i) if fs == "indirect" else [Ref(100 + 2 * i)]
            else:
                fval = fname if fs == "name" else [fname]
            if ps in ("indirect", "array-indirect"):
                extra[101 + 2 * i] = parms
                pval = Ref(101 + 2 * i) if ps == "indirect" else [Ref(101 + 2 * i)]
            else:
                pval = parms if ps == "dict" else [parms]
            images[name] = Stream({"Type": Name("XObject"), "Subtype": Name("Image"), "Width": w, "Height": h,
                                   "BitsPerComponent": 1, "ColorSpace": Name("DeviceGray"),
                                   "Filter": fval, "DecodeParms": pval}, data)
            want[name] = (rows, w, bi, "%s /Filter %s /DecodeParms %s" % (strat, fs, ps), align, data)
            extra_of[name] = dict(parms)
            for k0 in ("K", "Columns", "EncodedByteAlign", "BlackIs1"):
                extra_of[name].pop(k0, None)
        pdf, _info = simple_doc([b"q 10 0 0 10 0 0 cm /Im0 Do Q"], xobjects=images, extra_objects=extra,
                                form=("table", "stream")[d % 2])
        try:
            doc = PDFDocument(PDFParser(io.BytesIO(pdf)))
            page = next(PDFPage.create_pages(doc))
            xo = resolve1(resolve1(page.resources)["XObject"])
        except Exception as e:
            raise MachineryError("generated PDF with Group 4 images could not be opened: %r" % (e,))
        for name, (rows, w, bi, strat, align, data) in want.items():
            st = resolve1(xo[name])
            case = {"kind": "image", "w": w, "rows": rows, "align": align, "blackis1": bi, "origin": "file %d %s %s" % (d, name, strat)}
            ck.case(1, ("file", d, name))
            shapes = strat.split(" ", 1)[1]
            stats.setdefault("dictionary_shapes_in_files", {})
            stats["dictionary_shapes_in_files"][shapes] = stats["dictionary_shapes_in_files"].get(shapes, 0) + 1
            try:
                out = st.get_data()
            except BaseException as e:  # noqa: B902
                capped(ck, counts, "stream-dict:exception:" + type(e).__name__ + ":" + shapes.replace(" ", ""),
                       "get_data() of a Group 4 image XObject raised %r (%s); ccittfaxdecode() called directly on the same bytes "
                       "and parameters: %s" % (e, case["origin"], "restores the rows" if g4run.decode(data, w, align, bi, extra=extra_of[name])[0] ==
                                               t6.pack(rows, w, bi) else "fails too"), case)
                continue
            bad = judge(out, rows, w, bi)
            if bad:
                capped(ck, counts, bad[0], "image XObject did not decode to its rows (%s, width %d): %s" % (case["origin"], w, bad[1]), case)
            done += 1
    stats["image_xobjects_in_files"] = done
    ck.replayed += done


def tall_images(ck, counts, stats, rng):
    """the height dimension: narrow images with thousands of rows (the decoder collects its output row by row, whatever
    it does every so many rows must not lose any), through ccittfaxdecode and through PDFStream.get_data()"""
    heights = [4097, 4500] if ck.tier == "quick" else [4096, 4097, 4500, 9000, 12289]
    done = []
    for i, h in enumerate(heights):
        w = rng.randint(8, 13)
        row = [rng.randint(0, 1) for _ in range(w)]
        rows = []
        for y in range(h):                       # rows resemble their predecessor, every one carries its number's low bits
            if rng.random() < 0.3:
                row = list(row)
                row[rng.randrange(w)] ^= 1
            r = list(row)
            for b in range(min(w, 4)):
                r[b] = (y >> b) & 1
            rows.append(r)
        strat = ("canon", "rand", "honly")[i % 3]
        syms = t6.encode(rows, w, t6.STRATEGIES[strat](rng))
        if t6.decode_syms(syms, w) != [t6.changes(r) for r in rows]:
            raise MachineryError("T.6 writer self-check failed on a tall image")
        align, bi = COMBOS[i % 4]
        for via in (False, True):
            end_to_end(ck, counts, rows, syms, w, align, bi, "tall image %dx%d %s" % (w, h, strat), via_stream=via)
            ck.case(h, ("tall", w, h, via))
        done.append([w, h, strat])
    stats["tall_images"] = done
    ck.replayed += 2 * len(done)


def pc_replay(ck, run, res, emit, counts, stats):
    code, maxlen = run
    ck.add_tlc(res, "PrefixCode %s: every message of <= %d items x line-end flags x align" % (code, maxlen))
    if not res.ok:
        ck.violation("model:" + str(res.violated), "TLC: %s violated on the bit-level specification (%s)" % (res.violated, code),
                     {"tlc": res.error_text[:4000]})
        return
    if res.actions:
        require_coverage(res, ["AWalk", "AAccept", "AByteSkip", "AEndOfBlock"])
    table = PC_CODES[code]
    end = "E"
    n = 0
    with open(emit) as f:
        for line in f:
            r = json.loads(line)
            n += 1
            bits = r["bits"]
            data = bytes(int("".join(map(str, bits[i:i + 8])), 2) for i in range(0, len(bits), 8))
            got, err = g4run.generic_prefix_decode(table, end, r["msg"], r["align"], data)
            want = [it["s"] for it in r["msg"]]
            ck.case(1, ("pc", code, json.dumps(r["msg"]), r["align"]) if r["msg"] else None)
            if err is not None or got != want:
                capped(ck, counts, "bits:" + (("exception:" + err) if err else "symbols-differ"),
                       "BitParser/feedbytes on table %s, message %r, align=%s: decoded %r%s" % (code, r["msg"], r["align"], got,
                                                                                                (" then raised " + err) if err else ""),
                       {"kind": "prefix", "code": code, "msg": r["msg"], "align": r["align"], "bits": bits})
            elif got != r["out"]:
                stats["drift"] += 1
    os.remove(emit)
    if n != res.emitted or n == 0:
        raise MachineryError("emitted %d terminal states but replayed %d" % (res.emitted, n))
    ck.replayed += n


# ------------------------------------------------------------------------------------------ direction B
def make_bitmaps(ck, rng):
    """bitmaps far outside the bounded space"""
    out = []
    quick = ck.tier == "quick"

    def rand_row(w, p):
        return [0 if rng.random() < p else 1 for _ in range(w)]

    def runs_row(w, mean):
        row = []
        col = rng.choice([0, 1])
        while len(row) < w:
            row.extend([col] * max(1, int(rng.expovariate(1.0 / mean))))
            col = 1 - col
        return row[:w]

    def perturb(row, k):
        r = list(row)
        for _ in range(k):
            x = rng.randrange(len(r))
            for dx in range(rng.randint(1, 4)):
                if x + dx < len(r):
                    r[x + dx] ^= 1
        return r

    widths = [5200, 2700, 1728, 2561, 640, 333, 200, 65, 64, 63, 17, 9, 8, 1]
    if not quick:
        widths += [5300, 5121, 4000, 2623, 2624, 1000, 129, 31, 2]
    for w in widths:
        kinds = ["blank", "text"] if w > 1000 and (quick or w not in (5300, 2624)) else ["blank", "text", "random", "stripes"]
        for kind in kinds:
            h = 4 if w > 1000 else 6
            if kind == "blank":
                rows = [[1] * w, [0] * w, [0] * w, [1] * w, [1] * (w // 2) + [0] * (w - w // 2)][:h]
            elif kind == "random":
                rows = [rand_row(w, rng.choice([0.03, 0.3, 0.5])) for _ in range(h if w <= 700 else 2)]
            elif kind == "stripes":
                base = [(x // rng.randint(1, 70)) % 2 for x in range(w)]
                rows = [base, base, [1 - b for b in base], perturb(base, 3)][:h]
            else:  # text-like: long white runs, short black runs, rows resemble their predecessor (vertical and pass modes)
                base = runs_row(w, 40 if w > 100 else 3)
                rows = [base]
                for _ in range(h - 1):
                    rows.append(perturb(rows[-1], max(1, w // 400)) if rng.random() < 0.8 else runs_row(w, 25))
            for strat in (["canon", "rand", "honly"] if quick or w > 700 else list(t6.STRATEGIES)):
                if w > 1000 and strat == "honly" and kind != "blank":
                    continue
                out.append(("%s w=%d %s" % (kind, w, strat), w, rows, strat))
    return out


def record_traces(ck, rng, counts):
    traces = []
    events = 0
    for i, (origin, w, rows, strat) in enumerate(make_bitmaps(ck, rng)):
        syms = t6.encode(rows, w, t6.STRATEGIES[strat](rng))
        if t6.decode_syms(syms, w) != [t6.changes(r) for r in rows]:
            raise MachineryError("T.6 writer self-check failed on " + origin)
        align, bi = COMBOS[i % 4]
        xp, eofb = next_variant(len(rows))
        data = t6.assemble([t6.bits_of_row(s) for s in syms], align, eofb=eofb)
        rec = g4run.Recorder().install()
        try:
            out, err = g4run.decode(data, w, align, bi, extra=xp)
        finally:
            rec.uninstall()
        case = {"kind": "image", "w": w, "rows": rows if w <= 400 else "(see origin)", "align": align, "blackis1": bi, "origin": origin,
                "strategy": strat, "seed": ck.seed}
        ck.case(len(rec.ev), ("B", origin, align, bi))
        # the property on the real result
        if err is not None:
            capped(ck, counts, "decode:exception:" + err, "decoder raised %s (%s, align=%s, BlackIs1=%s)" % (err, origin, align, bi), case)
        elif judge(out, rows, w, bi):
            bad = judge(out, rows, w, bi)
            capped(ck, counts, bad[0], "decoded image is not the original (%s, align=%s, BlackIs1=%s, further parameters %r): %s"
                   % (origin, align, bi, xp, bad[1]), case)
        traces.append({"origin": "%s align=%s bi=%s" % (origin, align, bi), "w": w, "rows": [t6.changes(r) for r in rows],
                       "ev": [{k: e[k] for k in ("m", "d", "n1", "n2", "pos", "col", "y", "ch")} for e in rec.ev]})
        events += len(rec.ev)
    return traces, events


def sample_image_trace(ck, counts):
    """the one real Group 4 image of the repository (third-party encoder): it must decode without an exception to
    /Height rows, and its decoded rows must be a fixed point - the recorded mode steps have to be a conforming coding
    of the rows that were put out"""
    path = "/repo/samples/encryption/encrypted_doc_no_id.pdf"
    try:
        from pdfminer.pdfdocument import PDFDocument
        from pdfminer.pdfparser import PDFParser
        from pdfminer.pdftypes import PDFStream, resolve1
        fp = open(path, "rb")
        doc = PDFDocument(PDFParser(fp))
        found = None
        for xref in doc.xrefs:
            for objid in xref.get_objids():
                try:
                    o = doc.getobj(objid)
                except Exception:
                    continue
                if isinstance(o, PDFStream) and "CCITT" in repr(o.attrs.get("Filter")):
                    found = o
                    break
            if found is not None:
                break
        if found is None:
            raise ValueError("no CCITTFaxDecode stream in the sample")
        parms = resolve1(found.attrs.get("DecodeParms")) or {}
        w = int(resolve1(parms.get("Columns")))
        height = int(resolve1(found.attrs.get("Height")))
    except Exception as e:
        ck.note("sample Group 4 image not used: %r" % (e,))
        return None, None
    rec = g4run.Recorder().install()
    err = None
    try:
        found.get_data()
    except BaseException as e:  # noqa: B902
        err = type(e).__name__
    finally:
        rec.uninstall()
    case = {"kind": "sample-image", "file": path}
    nrows = sum(1 for e in rec.ev if e["m"] == "line")
    if err is not None:
        capped(ck, counts, "sample-image:exception:" + err, "get_data() of the real Group 4 image in %s (third-party encoder, "
               "%d x %d) raised %s after %d rows" % (path, w, height, err, nrows), case)
        return None, None
    if nrows != height:
        capped(ck, counts, "sample-image:rows", "the real Group 4 image in %s decoded to %d rows, /Height is %d" % (path, nrows, height), case)
    return w, rec.ev


MAX_EVENTS_PER_RUN = 25000      # a batch of traces is one long behaviour, and TLC handles behaviours of < 65536 states


def take_chunk(todo, max_events=MAX_EVENTS_PER_RUN):
    out, n = [], 0
    for t in todo:
        e = len(t["ev"]) + 2
        if out and n + e > max_events:
            break
        out.append(t)
        n += e
    return out


def validate_traces(ck, traces, counts):
    if not traces:
        raise MachineryError("no decoder traces recorded")
    canary = make_canary(traces)
    cfg = write_cfg(os.path.join(ck.tmp, "c19_trace.cfg"), spec="Spec", invariants=["PositionsOK"], deadlock=True)
    todo = [canary] + list(traces)
    tf = os.path.join(ck.tmp, "c19_traces.json")
    accepted = rejected = 0
    canary_rejected = False
    while todo:
        batch = take_chunk(todo)
        with open(tf, "w") as f:
            json.dump(batch, f)
        res = run_tlc(TRACE_SPEC, cfg, workers=1, env={"TRACE_FILE": tf}, timeout=3600, heap="8g")
        ck.add_tlc(res, "G4Trace: validation of %d recorded decoder runs" % len(batch))
        if res.ok:
            accepted += sum(1 for t in batch if t is not canary)
            todo = todo[len(batch):]
            continue
        if res.violated != "deadlock" or not res.error_trace:
            raise MachineryError("decoder trace validation failed unexpectedly: " + res.error_text[:2000])
        st = res.error_trace[-1][1]
        t, k = int(st["t"]), int(st["k"])
        accepted += sum(1 for x in batch[:t - 1] if x is not canary)
        tr = batch[t - 1]
        if tr is canary:
            canary_rejected = True
        else:
            rejected += 1
            ev = tr["ev"][k] if k < len(tr["ev"]) else None
            capped(ck, counts, "trace-rejected", "recorded decoder run %s is not a behaviour of the specification: event #%d %r "
                   "unexplained (writer at row %s, a0=%s, colour %s)" % (tr["origin"], k + 1, ev, st.get("y"), st.get("a0"), st.get("color")),
                   {"kind": "trace", "origin": tr["origin"], "event_index": k, "event": ev, "w": tr["w"]})
        todo = todo[t:]
        if rejected >= 3:
            break
    if not canary_rejected and rejected < 3:
        raise MachineryError("the corrupted canary trace was accepted by G4Trace.tla - trace validation is vacuous")
    ck.traces += accepted
    return accepted, rejected, canary_rejected


def record_b(ck, counts, stats):
    rng = random.Random(ck.seed)
    traces, events = record_traces(ck, rng, counts)
    w, ev = sample_image_trace(ck, counts)
    if ev:
        lines = [e for e in ev if e["m"] == "line"]
        limit = 60 if ck.tier == "quick" else 400             # rows of the 2479 x 3507 scan
        cut = next((i for i, e in enumerate(ev) if e["m"] == "line" and e["y"] == limit - 1), len(ev) - 1) + 1
        use = ev[:cut]
        rows = [e["ch"] for e in use if e["m"] == "line"]
        traces.append({"origin": "samples/encryption/encrypted_doc_no_id.pdf image (rows 0..%d of %d, fixed point)" % (len(rows) - 1, len(lines)),
                       "w": w, "rows": rows, "ev": [{k: e[k] for k in ("m", "d", "n1", "n2", "pos", "col", "y", "ch")} for e in use]})
        events += len(use)
        stats["sample_image"] = {"width": w, "rows_decoded": len(lines), "rows_validated": len(rows), "events_validated": len(use)}
    return traces, events


def fast_validate(ck, traces):
    """runs in a worker thread while direction A is replayed: the canary alone, then all traces in one TLC run.
    Only TLC is run here; all bookkeeping happens in the main thread."""
    canary = make_canary(traces)
    cfg = write_cfg(os.path.join(ck.tmp, "c19_trace_fast.cfg"), spec="Spec", invariants=["PositionsOK"], deadlock=True)
    out = []
    batches = [("canary", [canary])]
    todo = list(traces)
    while todo:
        b = take_chunk(todo)
        batches.append(("part%d" % len(batches), b))
        todo = todo[len(b):]
    for name, batch in batches:
        tf = os.path.join(ck.tmp, "c19_traces_%s.json" % name)
        with open(tf, "w") as f:
            json.dump(batch, f)
        out.append((len(batch), run_tlc(TRACE_SPEC, cfg, workers=1, env={"TRACE_FILE": tf}, timeout=3600, heap="8g")))
        os.remove(tf)
        if name != "canary" and not out[-1][1].ok:
            break               # the main thread will go through the traces one rejection at a time
    return out


def make_canary(traces):
    small = min((t for t in traces if len(t["ev"]) >= 4), key=lambda t: len(t["ev"]))
    canary = json.loads(json.dumps(small))
    canary["origin"] = "canary(" + canary["origin"] + ")"
    j = next(i for i, e in enumerate(canary["ev"]) if e["m"] != "line")
    canary["ev"][j]["pos"] += 1
    canary["ev"] = canary["ev"][:j + 2]
    return canary


def validate_b(ck, counts, stats, traces, events, fast):
    (_, res_canary), parts = fast[0], fast[1:]
    ck.add_tlc(res_canary, "G4Trace: the corrupted canary trace alone")
    if res_canary.ok or res_canary.violated != "deadlock":
        raise MachineryError("the corrupted canary trace was accepted by G4Trace.tla - trace validation is vacuous")
    if all(r.ok for _, r in parts) and sum(n for n, _ in parts) == len(traces):
        for n, r in parts:
            ck.add_tlc(r, "G4Trace: validation of %d recorded decoder runs" % n)
        ck.traces += len(traces)
        accepted, rejected, canary_rejected = len(traces), 0, True
    else:       # some trace is rejected: go through them one rejection at a time for the report
        accepted, rejected, canary_rejected = validate_traces(ck, traces, counts)
    stats["traces"] = {"recorded": len(traces), "accepted": accepted, "rejected": rejected, "events": events,
                       "canary_rejected": canary_rejected, "max_width": max(t["w"] for t in traces)}
    for t in traces[:2] + traces[-1:]:
        ck.sample({"trace": t["origin"], "width": t["w"], "rows": len(t["rows"]), "events": len(t["ev"]), "first_events": t["ev"][:3]}, limit=16)


def table_probe(ck, counts, stats, rng):
    """pdfminer's code tables against the reference tables of the specification (T4Codes.tla).  A run value or mode
    that the tries lack, or map to another word, is shown to break the property by decoding a conforming stream (written
    with the reference words) that uses it."""
    diffs = t6.table_diffs()
    stats["table_differences"] = [[n, k, str(v), w, g] for n, k, v, w, g in diffs]
    ck.case(len(t6.tables()["white"]) + len(t6.tables()["black"]) + len(t6.tables()["mode"]), ("tables",))
    for name, kind, v, word, got in diffs:
        if kind == "extra-code":
            ck.note("pdfminer's %s table accepts a word the standard does not assign: %r -> %r (tolerance, not judged)" % (name, got, v))
            continue
        if name == "mode":
            demo = None
            if v == "e":
                rows, w = [[1, 0, 0, 1, 1]], 5
                demo = (rows, w, t6.encode(rows, w, t6.STRATEGIES["canon"](rng)))
            for _ in range(4000):
                if demo:
                    break
                w = rng.randint(4, 12)
                rows = [[rng.randint(0, 1) for _ in range(w)] for _ in range(2)]
                syms = t6.encode(rows, w, t6.STRATEGIES["rand" if v == "h" else "canon"](rng))
                want = ["p"] if v == "p" else (["v", v] if isinstance(v, int) else None)
                if any((s[0] == "h" if v == "h" else s == want) for row in syms for s in row):
                    demo = (rows, w, syms)
            if not demo:
                raise MachineryError("no demonstration image found for mode %r" % (v,))
            rows, w, syms = demo
            what = "mode %r" % (v,)
        else:
            tail = 8
            if name == "white":
                rows = [[1] * v + [0] * tail, [1] * (v + tail)]
            else:
                rows = [[0] * v + [1] * tail, [1] * (v + tail)]
            w = v + tail
            syms = t6.encode(rows, w, t6.STRATEGIES["honly"](rng))
            what = "a %s run of %d pixels (codes %r)" % (name, v, t6.run_codes(v))
        key = "table:%s:%s:%s" % (kind, name, v)
        ok = True
        seen = ""
        for align, bi in COMBOS[:2]:
            out, err = g4run.decode(t6.assemble([t6.bits_of_row(r) for r in syms], align), w, align, bi, omit_false=True)
            if err is not None or judge(out, rows, w, bi):
                ok = False
                seen = ("the decoder raises " + err) if err else "the rows differ"
        if ok:
            ck.note("pdfminer's %s table differs from T.4 for %r (%s: reference %s, tries %r) but the stream using it decodes"
                    % (name, v, kind, word, got))
            continue
        ck.violation(key, "pdfminer's %s code table: %s for %r (T.4/T.6 word %s, tries hold %r); a conforming stream with %s does not "
                     "decode to its rows: %s (width %d)" % (name.upper(), kind, v, word, got or "nothing", what, seen, w),
                     {"kind": "image", "w": w, "rows": rows if w <= 400 else None, "syms": syms, "align": False, "blackis1": False,
                      "origin": "table probe " + key, "table_probe": [name, str(v)]})


def probes(ck, counts, stats):
    """spellings of the parameter dictionary (ISO 32000-1 table 11 defaults) and stream endings"""
    rng = random.Random(ck.seed + 1)
    w = 1728
    rows = [[1 if rng.random() < 0.8 else 0 for _ in range(w)] for _ in range(3)]
    syms = t6.encode(rows, w, t6.STRATEGIES["canon"](rng))
    data = t6.assemble([t6.bits_of_row(s) for s in syms], False)
    from pdfminer.pdftypes import PDFStream
    from pdfminer.psparser import LIT
    st = PDFStream({"Filter": LIT("CCITTFaxDecode"), "DecodeParms": {"K": -1}, "Length": len(data)}, data)
    try:
        out = st.get_data()
        ok = judge(out, rows, w, False) is None
        err = None
    except BaseException as e:  # noqa: B902
        ok, err = False, type(e).__name__
    ck.case(1, ("probe", "columns-default"))
    if not ok:
        ck.violation("params:Columns-default" + ((":" + err) if err else ""),
                     "a 1728-pixel-wide image whose /DecodeParms omits /Columns (default 1728, ISO 32000-1 table 11): %s"
                     % (("get_data() raises " + err) if err else "rows differ"), {"kind": "probe", "probe": "columns-default"})
    # observations that the property does not constrain (see notes/C19.md): recorded, never a violation
    small = [[1, 0, 0, 1, 1], [0, 0, 1, 1, 1]]
    s2 = t6.encode(small, 5, t6.STRATEGIES["canon"](rng))
    rb = [t6.bits_of_row(s) for s in s2]
    stats["unconstrained_observations"] = {
        "no EOFB, zero padded": repr(g4run.decode(t6.assemble(rb, False, eofb=False), 5, False, False)),
        "byte-aligned rows, EOFB directly after the last row (no fill before it)":
            repr(g4run.decode(t6.assemble(rb, True, eofb_aligned=False), 5, True, False)),
        "expected rows": repr(t6.pack(small, 5, False)),
    }


def run(ck):
    ck.rule = ("A: one evaluation = one complete coding of a row (reference row, row, admissible mode sequence) replayed step by step on "
               "the real parser, plus one end-to-end decode of it; one bitmap through PDFStream.get_data() per mode strategy; one "
               "bit-level message on the real BitParser.  Non-trivial = the coding has more than one symbol or a non-white reference "
               "row / the message is not empty.  B: one evaluation = one recorded mode step or row of a real-scale decode; distinct = "
               "distinct (bitmap, strategy, parameters).")
    ck.assumptions = ["the writer's code words are the constants of specs/ccitt/T4Codes.tla (T.4 tables 2, 3a, 3b and T.6 table 1); that "
                      "reference is checked before use (prefix-free, complete up to the EOL prefix 00000000, run values 0..63 and "
                      "64..2560, extended make-up codes common to both colours, 34 anchor words) and a failure there is a machinery "
                      "failure; pdfminer's tries are compared with it and every difference is demonstrated on a conforming stream",
                      "with EncodedByteAlign the writer puts the fill bits after every row, the last one included (the reading of ISO "
                      "32000-1 table 11 under which the decoder works; see notes/C19.md)",
                      "uncompressed mode (a T.6 extension) is outside the property"]
    rng = random.Random(ck.seed)
    t6.self_check(rng)
    counts = {}
    stats = {"drift": 0, "row_codings": {}, "states_compared": {}, "tlc_only_configs": []}
    phases = {}
    t0 = time.time()
    runs = G4_RUNS[ck.tier]
    pcs = PC_RUNS[ck.tier]
    ncpu = os.cpu_count() or 4
    with ThreadPoolExecutor(4) as ex:
        wk = max(2, ncpu // 3)
        f_g4 = [ex.submit(g4_tlc, ck, r, wk) for r in runs]
        f_pc = [ex.submit(pc_tlc, ck, r, max(2, ncpu // 4)) for r in pcs]
        table_probe(ck, counts, stats, rng)
        images_replay(ck, counts, stats, rng)           # real code only; runs while TLC works
        tall_images(ck, counts, stats, rng)
        probes(ck, counts, stats)
        traces, events = record_b(ck, counts, stats)
        f_tr = ex.submit(fast_validate, ck, traces)
        phases["images_probes_recording_done_at"] = round(time.time() - t0, 1)
        for r, f in zip(runs, f_g4):
            res, emit = f.result()
            t1 = time.time()
            g4_replay(ck, r, res, emit, counts, stats)
            phases["replay_" + r[0]] = round(time.time() - t1, 1)
        for r, f in zip(pcs, f_pc):
            res, emit = f.result()
            pc_replay(ck, r, res, emit, counts, stats)
        phases["A_done_at"] = round(time.time() - t0, 1)
        fast = f_tr.result()
    t1 = time.time()
    validate_b(ck, counts, stats, traces, events, fast)
    phases["B_validate_after_A"] = round(time.time() - t1, 1)
    ck.extra["phase_wall_s"] = phases
    ck.extra["c19"] = stats
    ck.extra["property_failures_by_key"] = counts
    ck.extra["model_code_drift"] = stats["drift"]
    if stats["drift"]:
        ck.note("%d places where the real parser's internal state differs from the specification's reader while the rows put "
                "out are right (spec/code drift)" % stats["drift"])
    ck.exhaustive = True


def replay(path):
    doc = json.load(open(path))
    case = unjson(doc["case"])
    kind = case.get("kind")
    bad = False
    if kind == "image" and case.get("rows") is None and case.get("table_probe") and case["table_probe"][0] in ("white", "black"):
        name, v = case["table_probe"][0], int(case["table_probe"][1])
        case["rows"] = [([1] * v + [0] * 8) if name == "white" else ([0] * v + [1] * 8), [1] * (v + 8)]
    if kind == "image" and isinstance(case.get("rows"), list):
        rows, w = case["rows"], case["w"]
        syms = case.get("syms") or t6.encode(rows, w, t6.STRATEGIES["canon"](None))
        for align, bi in COMBOS:
            data = t6.assemble([t6.bits_of_row(s) for s in syms], align, eofb=case.get("eofb", True))
            out, err = g4run.decode(data, w, align, bi, extra=case.get("extra_params"))
            ok = err is None and judge(out, rows, w, bi) is None
            print("align=%-5s BlackIs1=%-5s -> %s" % (align, bi, "rows restored" if ok else ("raised " + err if err else "ROWS DIFFER")))
            bad |= not ok
    elif kind == "row":
        ev, rows_out, err = g4run.steps_of_row(case["ref"], case["syms"], case["w"])
        print("steps", [(e["m"], e["pos"], e["col"]) for e in ev], "rows", rows_out, "error", err)
        bad = err is not None or len(rows_out) != 2 or rows_out[1][1] != case["row"]
    elif kind == "prefix":
        bits = case["bits"]
        data = bytes(int("".join(map(str, bits[i:i + 8])), 2) for i in range(0, len(bits), 8))
        got, err = g4run.generic_prefix_decode(PC_CODES[case["code"]], "E", case["msg"], case["align"], data)
        print("decoded", got, "error", err)
        bad = err is not None or got != [it["s"] for it in case["msg"]]
    elif kind in ("probe", "sample-image"):
        class _CK:
            seed = 0
            tier = "quick"
            bad = False

            def case(self, *a):
                pass

            def note(self, s):
                print("NOTE:", s)

            def is_known(self, k):
                return False

            def violation(self, key, what, rp=None):
                print(key, what)
                self.bad = True
        c = _CK()
        if kind == "probe":
            probes(c, {}, {})
        else:
            sample_image_trace(c, {})
        bad = c.bad
    else:
        print("this replay file records a rejected trace / TLC counterexample; re-run bin/check C19 to re-validate")
        print(json.dumps(doc["case"], indent=1)[:3000])
        bad = True
    if bad:
        print("VIOLATION property=C19 replay=%s" % path)
    return 1 if bad else 0
