"""C07 - composite fonts: segmentation of shown strings into codes, code -> CID -> Unicode, W/DW, W2/DW2 + vertical placement.

A. TLC checks specs/font/CIDFont.tla (nested-dictionary walk = codespace segmentation, every string over abstract byte
   classes of six CMap families), CMapParse.tla (ToUnicode bfchar / bfrange increment+array / endcmap: machine = "last
   covering entry wins"), Widths.tla (W and W2 array machines = grammar of the standard), Placement.tla (pen positions),
   CIDSelect.tla (which CMap / which Unicode source a Type0 font gets) and UseCMap.tla (usecmap copies, never aliases).
   Everything TLC enumerates is replayed on the real code: CMapDB.get_cmap(name).decode(bytes) on real predefined CMaps
   (abstract symbols bound to real bytes by reading the CMap data), CMapParser on generated CMap text, get_widths /
   get_widths2, and generated PDFs (Type0 fonts) compared through LTChar.get_text()/adv/matrix.
B. decode / W-array / to_unichr / char_width events recorded on the composite fonts of the repository samples are
   validated by TLC against specs/font/CIDFontTrace.tla.
Supplementary (data, NOT model checking): predefined CMaps + collection maps against platform codecs, reported under
   evidence key codec_data_check.
"""
from __future__ import annotations

import glob
import io
import itertools
import json
import math
import os
import struct
import zlib
from concurrent.futures import ProcessPoolExecutor, ThreadPoolExecutor

from ..core import unjson
from ..deviations import active, tla_set
from ..tlc import MachineryError, SPECS, require_coverage, run_tlc, write_cfg

FONT = os.path.join(SPECS, "font")
CID_DEVS = ["IdentityOddRaises", "ToUnicodeByCID", "VerticalTzScales", "EmptyIncrementBase"]
FS = 10
LINE = 200      # distance between the lines of lines_doc (more than any shown string advances vertically)


def pairs(x):
    """ToJson renders a function over a non-1..n domain as an object: -> [(key, value)] sorted by key"""
    vals = list(x.values()) if isinstance(x, dict) else list(x)
    return sorted((tuple(v) for v in vals), key=lambda kv: kv[0])


def close(a, b):
    return math.isclose(a, b, rel_tol=1e-9, abs_tol=1e-9)


def tlc_job(job):
    mod, cfg, emit, cov, workers = job
    return run_tlc(mod, cfg, emit=emit, coverage=cov, workers=workers, timeout=3000)


def cfg_with(ck, base_cfg, name, extra_lines=("CONSTRAINT Emit",), replace=None):
    s = open(os.path.join(FONT, base_cfg)).read()
    for a, b in (replace or {}).items():
        if a not in s:
            raise MachineryError("config %s has no line %r" % (base_cfg, a))
        s = s.replace(a, b)
    p = os.path.join(ck.tmp, name)
    with open(p, "w") as f:
        f.write(s + "\n".join(extra_lines) + "\n")
    return p


def model_violation(ck, res, what):
    st = res.error_trace[-1][1] if res.error_trace else {}
    report(ck, "model:%s:%s" % (what, res.violated), "TLC: %s violated on %s (%s)" % (res.violated, what, str(st)[:300]),
                 {"tlc": res.error_text[:3000]})


# =============================================================================================== Type0 documents
def type0_font(enc, ordering="Identity", tu=None, w=None, dw=None, w2=None, dw2=None, fontfile2=None, enc_stream=False,
               subtype="CIDFontType2", tu_name=None):
    """-> (font dict, extra objects)"""
    from ..realise.pdfwriter import Name, Ref, Stream
    # /MissingWidth belongs to simple fonts; for a CID font the default is /DW (1000 when absent) - a non-zero value here
    # must never show up in an advance
    desc = {"Type": Name("FontDescriptor"), "FontName": Name("VerifCID"), "Flags": 4, "FontBBox": [0, -200, 1000, 800],
            "ItalicAngle": 0, "Ascent": 800, "Descent": -200, "StemV": 80, "MissingWidth": 700}
    objs = {}
    if fontfile2 is not None:
        objs[102] = Stream({"Length1": len(fontfile2)}, fontfile2)
        desc["FontFile2"] = Ref(102)
    d = {"Type": Name("Font"), "Subtype": Name(subtype), "BaseFont": Name("VerifCID"),
         "CIDSystemInfo": {"Registry": b"Adobe", "Ordering": ordering.encode(), "Supplement": 0}, "FontDescriptor": desc}
    for k, v in (("W", w), ("DW", dw), ("W2", w2), ("DW2", dw2)):
        if v is not None:
            d[k] = v
    objs[100] = d
    f = {"Type": Name("Font"), "Subtype": Name("Type0"), "BaseFont": Name("VerifCID"), "DescendantFonts": [Ref(100)]}
    if enc_stream:
        objs[103] = Stream({"Type": Name("CMap"), "CMapName": Name(enc),
                            "CIDSystemInfo": {"Registry": b"Adobe", "Ordering": ordering.encode(), "Supplement": 0}},
                           b"%% CMap stream standing for /%s\n" % enc.encode())
        f["Encoding"] = Ref(103)
    else:
        f["Encoding"] = Name(enc)
    if tu is not None:
        objs[101] = Stream({}, tu)
        f["ToUnicode"] = Ref(101)
    elif tu_name is not None:
        f["ToUnicode"] = Name(tu_name)
    return f, objs


def lines_doc(font, objs, strings, fs=FS, pre=b""):
    """every string on its own line (own Tm): line i at y = 100000 - LINE*i, x = 100; pre = text-state operators"""
    from ..realise import fontpdf as fp
    parts = [b"BT /F1 %d Tf" % fs] + ([pre] if pre else [])
    for i, s in enumerate(strings):
        parts.append(b"1 0 0 1 100 %d Tm <%s> Tj" % (100000 - LINE * i, bytes(s).hex().encode()))
    parts.append(b"ET")
    return fp.doc_with_font(font, [b"\n".join(parts)], extra_objects=objs)


def lines_of(chars, n, vertical=False):
    """group the glyphs of lines_doc by the line they were started on (by y for horizontal, by x,y start for vertical)"""
    out = [[] for _ in range(n)]
    for ch in chars:
        y = ch[2][5]
        # vertical text moves down from the line's y by less than LINE
        i = int(math.floor((100000 - y + 1e-6) / LINE)) if vertical else int(round((100000 - y) / LINE))
        # a glyph far away from every line is attributed to the nearest one: the comparison of that line then fails
        out[min(max(i, 0), n - 1)].append(ch)
    return out


# =============================================================================================== A1 segmentation
SEG_CMAPS = {
    "quick": {"sjis": ["90ms-RKSJ-H", "90msp-RKSJ-V", "KSCms-UHC-H", "GBK-EUC-H", "B5pc-H"],
              "euc": ["EUC-H", "GB-EUC-H", "KSC-EUC-V"],
              "two": ["H", "UniJIS-UCS2-H", "UniGB-UCS2-V", "UniKS-UCS2-H", "UniCNS-UCS2-H", "GB-H", "KSC-H"],
              "utf8": ["UniJIS-UTF8-H", "UniGB-UTF8-H"],
              "id2": ["Identity-H", "Identity-V"], "id1": ["OneByteIdentityH", "OneByteIdentityV"]},
}
SEG_CMAPS["thorough"] = {
    "sjis": SEG_CMAPS["quick"]["sjis"] + ["90pv-RKSJ-H", "83pv-RKSJ-H", "Add-RKSJ-V", "Ext-RKSJ-H", "ETen-B5-H",
                                          "ETenms-B5-V", "HKscs-B5-H", "KSCms-UHC-HW-V", "GBKp-EUC-H", "GBK2K-H",
                                          "KSC-Johab-H", "RKSJ-H", "78ms-RKSJ-H"],
    "euc": SEG_CMAPS["quick"]["euc"] + ["EUC-V", "GBT-EUC-H", "KSCpc-EUC-H", "CNS-EUC-H", "78-EUC-H", "GBpc-EUC-V"],
    "two": SEG_CMAPS["quick"]["two"] + ["V", "78-H", "Add-H", "Ext-V", "CNS1-H", "CNS2-V", "GBT-H", "UniJIS-UCS2-HW-V",
                                        "NWP-H", "Hankaku-H", "UniJIS-UTF16-H", "UniKS-UTF16-V"],
    "utf8": SEG_CMAPS["quick"]["utf8"] + ["UniKS-UTF8-V", "UniCNS-UTF8-H", "UniJIS2004-UTF8-H"],
    "id2": ["Identity-H", "Identity-V"], "id1": ["OneByteIdentityH", "OneByteIdentityV"]}
ID_BINDINGS = [{"p": 0x00, "q": 0x41, "r": 0xFF}, {"p": 0x01, "q": 0x80, "r": 0x7F}]


def mc_families():
    """families of MC_CIDFont.tla (read back from a tiny TLC-free mirror kept next to the harness; checked against TLC's
    own emission: every emitted family name must be known here)"""
    return {
        "id2": ("id2", "pqr", []), "id1": ("id1", "pqr", []),
        "sjis": ("trie", "asltx", ["a", "s", "la", "ll", "lt"]),
        "euc": ("trie", "slkx", ["s", "ll", "lk", "kl", "kk"]),
        "two": ("trie", "lkx", ["ll", "lk", "kl"]),
        "utf8": ("trie", "slmt", ["s", "lt", "mtt"]),
    }


def bindings_for(ck, fams):
    from ..observe import cidrec
    out = {}
    unbound = []
    for fam, (kind, syms, codes) in fams.items():
        out[fam] = []
        for name in SEG_CMAPS[ck.tier][fam]:
            if kind != "trie":
                for b in ID_BINDINGS:
                    out[fam].append((name, b, None))
                continue
            trie = cidrec.code2cid(name)
            got = 0
            for rep in range(3 if ck.tier == "thorough" else 2):
                b = cidrec.bind_family(trie, syms, [tuple(c) for c in codes], cidrec.rng_for(ck.seed, fam, name, rep))
                if b is not None and b not in [x[1] for x in out[fam] if x[0] == name]:
                    out[fam].append((name, b, trie))
                    got += 1
            if not got:
                unbound.append("%s/%s" % (fam, name))
        if not out[fam]:
            raise MachineryError("no real CMap could be bound to family %s" % fam)
    if unbound:
        ck.note("CMaps whose code table does not contain the shape of the family (skipped): " + ", ".join(unbound))
    return out


def expected_cids(kind, binding, trie, codes):
    from ..observe import cidrec
    out = []
    for c in codes:
        bs = [binding[s] for s in c]
        if kind == "id2":
            out.append(bs[0] * 256 + bs[1])
        elif kind == "id1":
            out.append(bs[0])
        else:
            st, cid = cidrec.lookup(trie, bs)
            if st != "leaf":
                raise MachineryError("bound code %r is not a leaf of the real table" % (bs,))
            out.append(cid)
    return out


def real_decode(name, data):
    from pdfminer.cmapdb import CMapDB
    try:
        return ["none", [int(x) for x in CMapDB.get_cmap(name).decode(data)]]
    except struct.error:
        return ["struct.error", []]
    except Exception as e:  # noqa: BLE001
        return [type(e).__name__, []]


def direction_a_seg(ck, dev, fut):
    res, emit = fut
    ck.add_tlc(res, "CIDFont: every string <= MaxLen over the byte classes of 6 CMap families")
    if not res.ok:
        return model_violation(ck, res, "CIDFont")
    if res.actions:
        require_coverage(res, ["ALeaf", "ADescend", "ADrop", "APair", "AHold", "AByte"])
    fams = mc_families()
    binds = bindings_for(ck, fams)
    ck.extra["segmentation_cmaps_bound"] = {f: sorted({b[0] for b in v}) for f, v in binds.items()}
    n = 0
    nreal = 0
    short = {f: [] for f in fams}
    for line in open(emit):
        r = json.loads(line)
        fam = r["fam"]
        if fam not in fams:
            raise MachineryError("TLC emitted an unknown family %r" % fam)
        kind = fams[fam][0]
        s = r["s"]
        n += 1
        if len(s) <= 3:
            short[fam].append(r)
        for (name, b, trie) in binds[fam]:
            data = bytes(b[x] for x in s)
            real = real_decode(name, data)
            exp_i = [r["i"]["err"], expected_cids(kind, b, trie, r["i"]["out"])]
            exp_c = [r["c"]["err"], expected_cids(kind, b, trie, r["c"]["out"])]
            nreal += 1
            nontriv = len(r["i"]["out"]) >= 1 and len(s) >= 2
            ck.case(1, ("S", name, data) if nontriv else None)
            if real == exp_i:
                continue
            case = {"kind": "decode", "cmap": name, "data": data, "expected": exp_i, "observed": real}
            if real == exp_c:
                report(ck, "dev:IdentityOddRaises", "CMapDB.get_cmap(%r).decode(%s) raises %s; expected CIDs %s (odd final byte "
                             "ignored)" % (name, data.hex(), real[0], exp_i[1]), case)
            else:
                report(ck, "decode:%s:%s" % (fam, "error" if real[0] != "none" else "cids"),
                             "CMapDB.get_cmap(%r).decode(%s) = %s, expected %s" % (name, data.hex(), real, exp_i), case)
        if n % 1500 == 11 and len(ck.samples) < 2:
            name, b, trie = binds[fam][0]
            ck.sample({"family": fam, "abstract_string": s, "cmap": name, "bytes": bytes(b[x] for x in s).hex(),
                       "model_codes": r["i"]["out"], "real_cids": real_decode(name, bytes(b[x] for x in s))[1]})
    os.remove(emit)
    if n != res.emitted or n == 0:
        raise MachineryError("CIDFont: emitted %d strings, replayed %d" % (res.emitted, n))
    ck.replayed += n
    ck.extra["decode_calls_replayed"] = nreal
    return short, binds, fams


def seg_docs_worker(job):
    """strings <= 3 symbols of one (family, cmap, binding) shown through a Type0 font whose collection is unknown, so
    that every glyph's text is the placeholder (cid:N) - the CID itself is observed through the document path"""
    from ..realise import fontpdf as fp
    fam, kind, name, b, recs, exps = job
    findings = []
    strings = []
    keep = []
    for r, e in zip(recs, exps):
        if r["c"]["err"] != "none" or r["i"]["err"] != "none":
            continue
        strings.append(bytes(b[x] for x in r["s"]))
        keep.append(e)
    vertical = name.endswith("V")
    font, objs = type0_font(name, ordering="VerifNoSuch")
    pdf = lines_doc(font, objs, strings)
    try:
        chars = fp.chars_of(pdf)[0]
    except Exception as e:  # noqa: BLE001
        return [("document:%s" % type(e).__name__, "showing %d strings with /%s raised %r" % (len(strings), name, e), {})], 0
    lines = lines_of(chars, len(strings), vertical)
    for data, exp, got in zip(strings, keep, lines):
        texts = [g[0] for g in got]
        want = ["(cid:%d)" % c for c in exp]
        if texts != want:
            findings.append(("document-decode:%s" % fam, "/%s showing <%s>: glyphs %s, expected %s" % (name, data.hex(), texts, want),
                             {"cmap": name, "data": data, "observed": texts, "expected": want}))
            continue
        # advances: DW default (1000) horizontally, DW2 default (-1000) vertically; the pen moves accordingly
        y0 = 100000 - LINE * strings.index(data) if strings.count(data) == 1 else None
        for k, g in enumerate(got):
            if vertical:
                okm = close(g[1], -10.0) and close(g[2][4], 100.0) and (y0 is None or close(g[2][5], y0 - 10.0 * k))
            else:
                okm = close(g[1], 10.0) and close(g[2][4], 100.0 + 10.0 * k) and (y0 is None or close(g[2][5], y0))
            if not okm:
                findings.append(("document-advance:%s" % fam, "/%s showing <%s>: glyph %d adv/matrix %r %r" % (
                    name, data.hex(), k, g[1], g[2]), {"cmap": name, "data": data}))
                break
    # one odd-length string on its own for the two-byte identity
    if kind == "id2":
        data = bytes([b["p"], b["q"], b["r"]])
        font, objs = type0_font(name, ordering="VerifNoSuch")
        pdf = lines_doc(font, objs, [data])
        want = ["(cid:%d)" % (b["p"] * 256 + b["q"])]
        try:
            texts = [g[0] for g in fp.chars_of(pdf)[0]]
            if texts != want:
                findings.append(("document-decode:id2-odd", "/%s showing <%s>: %s, expected %s" % (name, data.hex(), texts, want), {}))
        except struct.error as e:
            findings.append(("dev:IdentityOddRaises", "/%s font showing the odd-length string <%s> raises struct.error (%s); "
                             "expected %s" % (name, data.hex(), e, want), {"cmap": name, "data": data}))
        except Exception as e:  # noqa: BLE001
            findings.append(("document:%s" % type(e).__name__, "odd string raised %r" % (e,), {}))
    return findings, len(strings)


def direction_a_seg_docs(ck, seginfo, ppool):
    short, binds, fams = seginfo
    jobs = []
    for fam, recs in short.items():
        kind = fams[fam][0]
        seen = set()
        for (name, b, trie) in binds[fam]:
            if name in seen and ck.tier == "quick":
                continue
            seen.add(name)
            exps = [expected_cids(kind, b, trie, r["i"]["out"]) for r in recs]
            jobs.append((fam, kind, name, b, recs, exps))
    total = 0
    for job, (findings, n) in zip(jobs, ppool.map(seg_docs_worker, jobs)):
        total += n
        ck.case(n, ("SD", job[2], json.dumps(job[3], sort_keys=True)))
        for key, what, detail in findings:
            report(ck, key, what, dict(detail, kind="segdoc"))
    ck.replayed += len(jobs)
    ck.extra["strings_shown_through_documents"] = total


# =============================================================================================== A2 ToUnicode parsing
def cmap_text(entries):
    from ..realise import fontpdf as fp

    def code(c):
        return fp.hexs(c.to_bytes(2, "big"))
    out = bytearray(fp.CMAP_HEAD)
    out += b"1 begincodespacerange\n<0000> <FFFF>\nendcodespacerange\n"
    for e in entries:
        t = e["t"]
        if t == "bfchar":
            out += b"1 beginbfchar\n" + code(e["lo"]) + b" " + fp.hexs(e["tgt"]) + b"\nendbfchar\n"
        elif t == "bfrange":
            out += b"1 beginbfrange\n" + code(e["lo"]) + b" " + code(e["hi"]) + b" " + fp.hexs(e["tgt"]) + b"\nendbfrange\n"
        elif t == "bfrarr":
            out += (b"1 beginbfrange\n" + code(e["lo"]) + b" " + code(e["hi"]) + b" [" +
                    b" ".join(fp.hexs(a) for a in e["arr"]) + b"]\nendbfrange\n")
        elif t == "junkchar":
            out += b"1 beginbfchar\n" + code(e["lo"]) + b"\nendbfchar\n"
        elif t == "junkrange":
            out += b"1 beginbfrange\n" + code(e["lo"]) + b" " + code(e["hi"]) + b"\nendbfrange\n"
        elif t in ("endcmap", "begincmap"):
            out += t.encode() + b"\n"
        else:
            raise MachineryError("unknown entry kind %r" % t)
    out += fp.CMAP_TAIL
    return bytes(out)


def real_parse_tounicode(text):
    from pdfminer.cmapdb import CMapParser, FileUnicodeMap
    m = FileUnicodeMap()
    CMapParser(m, io.BytesIO(text)).run()
    return dict(m.cid2unichr)


def tu_worker(batch):
    from ..realise import fontpdf as fp
    out = []
    for r, with_doc in batch:
        text = cmap_text(r["e"])
        exp = {c: bytes(v).decode("utf-16-be") for (c, v) in pairs(r["m"]) if list(v) != [-1]}      # [-1] = no entry
        coded = {c: bytes(v).decode("utf-16-be") for (c, v) in pairs(r["mc"]) if list(v) != [-1]}
        try:
            real = real_parse_tounicode(text)
        except Exception as e:  # noqa: BLE001
            out.append([("tounicode-parse:%s" % type(e).__name__, "CMapParser raised %r on %s" % (e, r["e"]), {})])
            continue
        f = []
        if real != exp and real == coded:
            f.append(("dev:EmptyIncrementBase", "ToUnicode sections %s: parsed map %r, expected %r (the empty target of a one-code "
                      "bfrange in increment form)" % (brief_entries(r["e"]), real, exp), {}))
        elif real != exp:
            f.append(("tounicode-map", "ToUnicode sections %s: parsed map %r, expected %r" % (brief_entries(r["e"]), real, exp),
                      {"observed": {str(k): v for k, v in real.items()}, "expected": {str(k): v for k, v in exp.items()}}))
        if with_doc:
            cids = [c for (c, _v) in pairs(r["m"])]
            font, objs = type0_font("Identity-H", ordering="Identity", tu=text)
            pdf = lines_doc(font, objs, [b"".join(c.to_bytes(2, "big") for c in cids)])
            try:
                texts = [g[0] for g in fp.chars_of(pdf)[0]]
                want = [exp.get(c, "(cid:%d)" % c) for c in cids]
                if texts != want and texts == [coded.get(c, "(cid:%d)" % c) for c in cids]:
                    f.append(("dev:EmptyIncrementBase", "Identity-H font with ToUnicode %s: glyph texts %r, expected %r"
                              % (brief_entries(r["e"]), texts, want), {}))
                elif texts != want:
                    f.append(("tounicode-document", "Identity-H font with ToUnicode %s: glyph texts %r, expected %r"
                              % (brief_entries(r["e"]), texts, want), {}))
            except Exception as e:  # noqa: BLE001
                f.append(("document:%s" % type(e).__name__, "ToUnicode document raised %r" % (e,), {}))
        out.append(f)
    return out


def brief_entries(es):
    def one(e):
        if e["t"] == "bfchar":
            return "bfchar<%04X>=%s" % (e["lo"], bytes(e["tgt"]).hex())
        if e["t"] == "bfrange":
            return "bfrange<%04X><%04X>=%s" % (e["lo"], e["hi"], bytes(e["tgt"]).hex())
        if e["t"] == "bfrarr":
            return "bfrange<%04X><%04X>=[%s]" % (e["lo"], e["hi"], " ".join(bytes(a).hex() for a in e["arr"]))
        if e["t"] in ("junkchar", "junkrange"):
            return e["t"] + "<%04X>" % e["lo"]
        return e["t"]
    return "; ".join(one(e) for e in es)


def direction_a_tounicode(ck, futs, ppool):
    total = 0
    for label, (res, emit) in futs:
        ck.add_tlc(res, "CMapParse %s" % label)
        if not res.ok:
            model_violation(ck, res, "CMapParse")
            continue
        if res.actions:
            require_coverage(res, ["ABfChar", "ABfRange", "ABfRangeArray", "AJunk", "AEndCMap", "ABeginCMap"])
        recs = [json.loads(line) for line in open(emit)]
        os.remove(emit)
        if len(recs) != res.emitted or not recs:
            raise MachineryError("CMapParse: emitted %d, read %d" % (res.emitted, len(recs)))
        step = 5 if ck.tier == "quick" else 23
        items = [(r, i % step == 0) for i, r in enumerate(recs)]
        chunks = [items[i:i + 120] for i in range(0, len(items), 120)]
        k = 0
        for chunk, results in zip(chunks, ppool.map(tu_worker, chunks)):
            for (r, _wd), findings in zip(chunk, results):
                k += 1
                for key, what, detail in findings:
                    report(ck, key, what, {"kind": "tounicode", "entries": r["e"], "detail": detail})
                nontriv = any(e["t"].startswith("bf") for e in r["e"]) and any(list(v) != [-1] for (_c, v) in pairs(r["m"]))
                ck.case(1, ("T", brief_entries(r["e"])) if nontriv else None)
                if k % 1300 == 9 and len(ck.samples) < 4:
                    ck.sample({"tounicode_sections": brief_entries(r["e"]),
                               "model_map": {("%04X" % c): bytes(v).hex() for (c, v) in pairs(r["m"]) if list(v) != [-1]}})
        total += len(recs)
    ck.replayed += total
    ck.extra["tounicode_cmaps_replayed"] = total


# =============================================================================================== A3 W / W2 arrays
def py_array(a):
    return [e["v"] if e["t"] == "n" else list(e["l"]) for e in a]


def ref_w(arr, mode):
    """the W / W2 grammar of ISO 32000-1 9.7.4.3 on a well-formed Python array, last group wins - in the shape of the
    replay's expectation ({cid: w} / {cid: (w1y, (vx, vy))})"""
    ar, rl = (1, 3) if mode == "W" else (3, 5)
    out = {}
    i = 0
    while i < len(arr):
        if i + 1 < len(arr) and isinstance(arr[i + 1], list):
            c, l = arr[i], arr[i + 1]
            for k in range(len(l) // ar):
                out[c + k] = tuple(l[k * ar:(k + 1) * ar])
            i += 2
        else:
            v = tuple(arr[i + 2:i + rl])
            for c in range(arr[i], arr[i + 1] + 1):
                out[c] = v
            i += rl
    return {c: v[0] for c, v in out.items()} if mode == "W" else {c: (v[0], (v[1], v[2])) for c, v in out.items()}


def realify(arr, mode):
    """the same array with every width / vector component moved by 0.5 (CIDs stay integers)"""
    rl = 3 if mode == "W" else 5
    out = []
    i = 0
    while i < len(arr):
        if i + 1 < len(arr) and isinstance(arr[i + 1], list):
            out += [arr[i], [x + 0.5 for x in arr[i + 1]]]
            i += 2
        else:
            out += arr[i:i + 2] + [x + 0.5 for x in arr[i + 2:i + rl]]
            i += rl
    return out


W_FORMS = ["direct", "array", "inner", "numbers", "mixed"]


def indirect_w(arr, form, objs, first=300):
    """the same W / W2 array with indirect objects at a chosen nesting level (they are transparent, ISO 32000-1 7.3.10):
    'array' the whole array, 'inner' every inner array, 'numbers' every number (inside inner arrays and of the range
    form), 'mixed' inner arrays and their numbers"""
    from ..realise.pdfwriter import Ref
    n = [first]

    def ref(v):
        objs[n[0]] = v
        n[0] += 1
        return Ref(n[0] - 1)
    if form == "direct":
        return arr
    if form == "array":
        return ref(arr)
    out = []
    for v in arr:
        if isinstance(v, list):
            inner = [ref(x) for x in v] if form in ("numbers", "mixed") else list(v)
            out.append(ref(inner) if form in ("inner", "mixed") else inner)
        else:
            out.append(ref(v) if form == "numbers" else v)
    return out


def widths_doc(arr, exp, mode, dflt, form="direct"):
    """an Identity-H / Identity-V font with this W / W2 array and DW / DW2 showing CIDs 0..7: advance, pen position, box x0"""
    from ..realise import fontpdf as fp
    f = []
    cids = list(range(8))
    data = [b"".join(c.to_bytes(2, "big") for c in cids)]
    try:
        if mode == "W":
            font, objs = type0_font("Identity-H", w=[], dw=dflt)
            objs[100]["W"] = indirect_w(arr, form, objs)
            got = fp.chars_of(lines_doc(font, objs, data))[0]
            x = 100.0
            for c, g in zip(cids, got):
                adv = exp.get(c, 1000 if dflt is None else dflt) * 0.001 * FS
                if not (close(g[1], adv) and close(g[2][4], x) and g[2][5] == 100000):
                    f.append(("widths-document:W", "W %r (written %s) DW %r: CID %d adv %r at x %r, expected adv %r at x %r"
                              % (arr, form, dflt, c, g[1], g[2][4], adv, x), {}))
                    break
                x += adv
        else:
            font, objs = type0_font("Identity-V", w2=[], dw2=dflt)
            objs[100]["W2"] = indirect_w(arr, form, objs)
            got = fp.chars_of(lines_doc(font, objs, data))[0]
            y = 100000.0
            for c, g in zip(cids, got):
                w1 = exp[c][0] if c in exp else (-1000 if dflt is None else dflt[1])
                adv = w1 * 0.001 * FS
                if not (close(g[1], adv) and close(g[2][5], y) and g[2][4] == 100):
                    f.append(("widths-document:W2", "W2 %r (written %s) DW2 %r: CID %d adv %r at y %r, expected adv %r at y %r"
                              % (arr, form, dflt, c, g[1], g[2][5], adv, y), {}))
                    break
                # position vector: observed through the glyph box (x0 = origin - vx * fs / 1000)
                if c in exp and not close(g[3][0], 100 - exp[c][1][0] * 0.001 * FS):
                    f.append(("widths-document:W2-vx", "W2 %r: CID %d box x0 %r, expected %r" % (
                        arr, c, g[3][0], 100 - exp[c][1][0] * 0.001 * FS), {}))
                    break
                y += adv
    except Exception as e:  # noqa: BLE001
        f.append(("widths-document:%s" % type(e).__name__, "%s %r default %r: document raised %r" % (mode, arr, dflt, e), {}))
    return f


def widths_worker(batch):
    from pdfminer.pdffont import get_widths, get_widths2
    from ..realise import fontpdf as fp
    out = []
    for r, with_doc in batch:
        arr = py_array(r["a"])
        f = []
        try:
            if r["mode"] == "W":
                real = dict(get_widths(arr))
                exp = {c: v[0] for (c, v) in pairs(r["t"]) if v}
            else:
                real = {c: (w, tuple(d)) for c, (w, d) in get_widths2(arr).items()}
                exp = {c: (v[0], (v[1], v[2])) for (c, v) in pairs(r["t"]) if v}
        except Exception as e:  # noqa: BLE001
            out.append(([("widths-total:%s" % type(e).__name__, "get_widths%s(%r) raised %r" % ("" if r["mode"] == "W" else "2", arr, e), {})], 0))
            continue
        drift = 0
        if real != exp:
            if r["wf"]:
                f.append(("widths-table:%s" % r["mode"], "%s array %r: table %r, expected %r" % (r["mode"], arr, real, exp), {}))
            else:
                drift = 1          # outside the grammar of the standard nothing is demanded
        if r["wf"]:
            # the Python reading of the grammar must agree with the model's table (two references) ...
            if ref_w(arr, r["mode"]) != exp:
                raise MachineryError("W reference disagreement on %r: %r vs model %r" % (arr, ref_w(arr, r["mode"]), exp))
            # ... and carries the table over to REAL-valued widths (x.5 wherever the array holds a width / vector entry)
            arr_r = realify(arr, r["mode"])
            exp_r = ref_w(arr_r, r["mode"])
            try:
                real_r = dict(get_widths(arr_r)) if r["mode"] == "W" else {c: (w, tuple(d)) for c, (w, d) in get_widths2(arr_r).items()}
                if real_r != exp_r:
                    f.append(("widths-table:%s:real" % r["mode"], "%s array %r: table %r, expected %r" % (r["mode"], arr_r, real_r, exp_r), {}))
            except Exception as e:  # noqa: BLE001
                f.append(("widths-total:%s" % type(e).__name__, "get_widths on %r raised %r" % (arr_r, e), {}))
            if with_doc:
                fa, fb = W_FORMS[with_doc % 5], W_FORMS[(with_doc + 2) % 5]     # indirectness rotates over the documents
                if r["mode"] == "W":
                    f += widths_doc(arr, exp, "W", [None, 500, 0][with_doc % 3], fa)            # /DW absent, 500, explicit 0
                    f += widths_doc(arr_r, exp_r, "W", 499.5, fb)
                else:
                    f += widths_doc(arr, exp, "W2", [None, [800, -900], [880, 0]][with_doc % 3], fa)   # DW2 absent, given, w1y 0
                    f += widths_doc(arr_r, exp_r, "W2", [880.5, -999.5], fb)
        out.append((f, drift))
    return out


def direction_a_widths(ck, futs, ppool):
    total = 0
    drift = 0
    for label, (res, emit) in futs:
        ck.add_tlc(res, "Widths %s" % label)
        if not res.ok:
            model_violation(ck, res, "Widths")
            continue
        if res.actions:
            require_coverage(res, ["AList", "ASkipList", "ARange", "ANumber"])
        recs = [json.loads(line) for line in open(emit)]
        os.remove(emit)
        if len(recs) != res.emitted or not recs:
            raise MachineryError("Widths: emitted %d, read %d" % (res.emitted, len(recs)))
        wf = [r for r in recs if r["wf"]]
        step = max(1, len(wf) // (260 if ck.tier == "quick" else 1500))
        docs = {id(r): i + 1 for i, r in enumerate(wf[::step])}          # document number (> 0), also selects the written form
        items = [(r, docs.get(id(r), 0)) for r in recs]
        chunks = [items[i:i + 150] for i in range(0, len(items), 150)]
        k = 0
        for chunk, results in zip(chunks, ppool.map(widths_worker, chunks)):
            for (r, _wd), (findings, d) in zip(chunk, results):
                k += 1
                drift += d
                for key, what, detail in findings:
                    report(ck, key, what, {"kind": "widths", "mode": r["mode"], "array": r["a"], "wf": r["wf"]})
                nontriv = r["wf"] and any(v for (_c, v) in pairs(r["t"]))
                ck.case(1, ("W", r["mode"], json.dumps(py_array(r["a"]))) if nontriv else None)
                if k % 700 == 17 and len(ck.samples) < 5:
                    ck.sample({"mode": r["mode"], "array": py_array(r["a"]), "well_formed": r["wf"],
                               "model_table": {str(c): v for (c, v) in pairs(r["t"]) if v}})
        total += len(recs)
    ck.replayed += total
    ck.extra["width_arrays_replayed"] = total
    ck.extra["width_arrays_outside_grammar_where_code_and_machine_differ"] = drift
    if drift:
        ck.note("%d W/W2 arrays outside the grammar of the standard where get_widths and the machine differ (spec/code drift)" % drift)


# =============================================================================================== A4 placement
SETUPS = {
    "H-default": dict(enc="Identity-H"),
    "H-W": dict(enc="Identity-H", w=[1, [250], 2, 2, 600], dw=500),
    "V-default": dict(enc="Identity-V"),
    "V-W2": dict(enc="Identity-V", w2=[1, [-500, 300, 700], 3, 3, -750, 500, 880]),
    "V-DW2": dict(enc="Identity-V", w2=[1, 2, -800, 400, 900], dw2=[800, -900]),
    # real-valued metrics: the model writes these setups in halves (den = 2)
    "H-real": dict(enc="Identity-H", w=[1, [250.5], 2, 2, 600.5], dw=499.5),
    "V-real": dict(enc="Identity-V", w2=[1, [-500.5, 300.5, 700.5], 3, 3, -750.5, 500.5, 880.5], dw2=[880.5, -999.5]),
    # an explicit default of 0 (with /MissingWidth 700 in the descriptor, which must play no role)
    "H-dw0": dict(enc="Identity-H", w=[1, [250]], dw=0),
    "V-dw0": dict(enc="Identity-V", w2=[1, [-500, 300, 700]], dw2=[880, 0]),
    "V-zero": dict(enc="Identity-V", w2=[1, [-500, 0, 700], 2, 2, 0, 300, 0]),
    # text-state parameters (font size 10: Tc 0.5 = 50, Tw 2 = 200 thousandths of the font size; Tz 200 = scale 2)
    "H-ts": dict(enc="Identity-H", w=[1, [250], 2, 2, 600], dw=500, pre=b"0.5 Tc 2 Tw 200 Tz 3 Ts"),
    "V-ts": dict(enc="Identity-V", w2=[1, [-500, 300, 700], 3, 3, -750, 500, 880], pre=b"0.5 Tc 2 Tw 3 Ts"),
    "V-tz": dict(enc="Identity-V", pre=b"0.5 Tc 2 Tw 200 Tz 3 Ts"),
}


def direction_a_placement(ck, fut):
    from ..realise import fontpdf as fp
    res, emit = fut
    ck.add_tlc(res, "Placement: 13 setups (2 real-valued, 2 with default 0, 1 with zero components, 3 with Tc/Tw/Tz/Ts) x strings <= 3 over CIDs {1,2,3,32}")
    if not res.ok:
        return model_violation(ck, res, "Placement")
    require_coverage(res, ["AShow"])
    by = {}
    n = 0
    for line in open(emit):
        r = json.loads(line)
        by.setdefault(r["id"], []).append(r)
        n += 1
    os.remove(emit)
    if n != res.emitted or set(by) != set(SETUPS):
        raise MachineryError("Placement: emitted %d / setups %s" % (n, sorted(by)))
    vxdrift = 0
    for sid, recs in sorted(by.items()):
        kw = dict(SETUPS[sid])
        pre = kw.pop("pre", b"")
        font, objs = type0_font(kw.pop("enc"), **kw)
        strings = [b"".join(c.to_bytes(2, "big") for c in r["cids"]) for r in recs]
        vertical = sid.startswith("V")
        chars = fp.chars_of(lines_doc(font, objs, strings, pre=pre))[0]
        fobj = fp.first_font(lines_doc(font, objs, strings[:1]))
        for i, (r, got) in enumerate(zip(recs, lines_of(chars, len(strings), vertical))):
            y0 = 100000 - LINE * i
            den = 2.0 if sid.endswith("-real") else 1.0

            def fits(model):
                if len(got) != len(model):
                    return False
                for g, m in zip(got, model):
                    at = m["at"] / den * 0.001 * FS
                    adv = m["adv"] / den * 0.001 * FS
                    if vertical and not (close(g[1], adv) and close(g[2][5], y0 + at) and close(g[2][4], 100)):
                        return False
                    # the glyph BOX: its left edge is the origin moved by the position vector's x (half the font size when
                    # the font gives none), and it is one font size wide (sc: the box of a scaled font is not stretched in x
                    # by a vertical advance)
                    vx = m["disp"][0]
                    x0 = 100 - (FS * 0.5 if vx == -1 else vx / den * 0.001 * FS)
                    if vertical and not (close(g[3][0], x0) and close(g[3][2], x0 + FS)):
                        return False
                    if not vertical and not (close(g[1], adv) and close(g[2][4], 100 + at) and close(g[2][5], y0)):
                        return False
                return True
            ok = fits(r["g"])
            ck.case(1, ("P", sid, tuple(r["cids"])) if len(r["cids"]) > 1 else None)
            if not ok and r["gc"] != r["g"] and fits(r["gc"]):
                report(ck, "dev:VerticalTzScales", "vertical font, %s, CIDs %s: glyphs (adv, origin) %s; ISO 32000-1 9.4.4 gives %s "
                       "(horizontal scaling does not enter the vertical displacement)" % (
                           pre.decode(), r["cids"], [(g[1], g[2][4:]) for g in got],
                           [(m["adv"] * 0.001 * FS, y0 + m["at"] * 0.001 * FS) for m in r["g"]]),
                       {"kind": "placement", "setup": sid, "cids": r["cids"]})
            elif not ok:
                report(ck, "placement:%s" % ("vertical" if vertical else "horizontal"),
                             "setup %s showing CIDs %s: glyphs (adv, matrix) %s, model %s" % (
                                 sid, r["cids"], [(g[1], g[2][4:]) for g in got], r["g"]),
                             {"kind": "placement", "setup": sid, "cids": r["cids"]})
            if i % 97 == 5 and len(ck.samples) < 6:
                ck.sample({"setup": sid, "cids": r["cids"], "model_glyphs": r["g"],
                           "real": [{"adv": g[1], "origin": list(g[2][4:])} for g in got]})
        # position vectors (not part of text/adv/matrix): compare char_disp, report as drift only
        for r in recs[:3]:
            for c, m in zip(r["cids"], r["g"]):
                d = fobj.char_disp(c)
                if vertical:
                    vx, vy = m["disp"]
                    den = 2.0 if sid.endswith("-real") else 1
                    exp = (None if vx == -1 else vx / den, vy / den)
                    if (tuple(d) if isinstance(d, tuple) else (d,)) != exp:
                        vxdrift += 1
    ck.replayed += n
    ck.extra["placement_behaviours_replayed"] = n
    ck.extra["position_vector_drift"] = vxdrift
    if vxdrift:
        ck.note("%d char_disp results differ from the model's position vector (drift, not part of text/adv/matrix)" % vxdrift)


# =============================================================================================== A5 selection
SEL_CODES = {"id2": [b"\x00\x01", b"\x00\x02", b"\x00\x41", b"\x03\x4b"], "id1": [b"\x01", b"\x02", b"\x41"],
             "trie": [b"\x41", b"\x82\xa0", b"\x83\x41"]}
ENC_REAL = {"pre-H": "90ms-RKSJ-H", "pre-V": "90ms-RKSJ-V"}
ORDERING = {"identity": "Identity", "ucs": "UCS", "known": "Japan1", "unknown": "VerifNoSuch"}


def selection_worker(batch):
    from ..observe import cidrec
    from ..realise import fontpdf as fp
    out = []
    for r in batch:
        f = r["f"]
        enc = ENC_REAL.get(f["encname"], f["encname"])
        seg = r["seg"]
        codes = SEL_CODES[seg]
        if seg == "trie":
            cids = [cidrec.lookup(cidrec.code2cid(enc), list(c))[1] for c in codes]
        else:
            cids = [int.from_bytes(c, "big") for c in codes]
        keys_code = [int.from_bytes(c, "big") for c in codes]
        # ToUnicode stream: entries under the character codes (what the standard says) and, where the CID differs from
        # the code, a different entry under the CID number (what a by-CID lookup would find)
        bycode = {k: "K%d" % i for i, k in enumerate(keys_code)}
        bycid = {c: "D%d" % i for i, c in enumerate(cids) if c not in bycode}
        tu = None
        if f["tu"] == "stream":
            ents = [(k.to_bytes(2, "big") if k > 255 else bytes([k]), v) for k, v in bycode.items()]
            ents += [(c.to_bytes(2, "big"), v) for c, v in bycid.items()]
            tu = fp.tounicode_cmap([("bfchar", ents)], codelen=2)
        gidmap = {0x4E00 + i: c for i, c in enumerate(sorted(set(cids) | {1, 2, 65}))}
        ff2 = None
        if f["ttf"] == "cmap":
            ff2 = fp.truetype_with_cmap(gidmap)
        elif f["ttf"] == "nocmap":
            ff2 = b"\x00\x01\x00\x00" + struct.pack(">HHHH", 0, 0, 0, 0)
        font, objs = type0_font(enc, ordering=ORDERING[f["coll"]], tu=tu, fontfile2=ff2,
                                enc_stream=(f["encform"] == "stream"),
                                tu_name=("Identity-H" if f["tu"] == "name-identity" else None))
        pdf = lines_doc(font, objs, [b"".join(codes)])

        def texts_for(key):
            res = []
            for code, cid in zip(keys_code, cids):
                if r["umap"] == "file":
                    k = code if key == "code" else cid
                    t = bycode.get(k, bycid.get(k))
                elif r["umap"] == "identity":
                    t = chr(cid)
                elif r["umap"] == "collection":
                    t = cidrec.cid2unichr("Adobe-Japan1", r["vertical"]).get(cid)
                elif r["umap"] == "ttf":
                    inv = {g: chr(u) for u, g in gidmap.items()}
                    t = inv.get(cid)
                else:
                    t = None
                res.append(t if t is not None else "(cid:%d)" % cid)
            return res
        ti, tc = texts_for(r["keyi"]), texts_for(r["keyc"])
        fnd = []
        try:
            got = fp.chars_of(pdf)[0]
        except Exception as e:  # noqa: BLE001
            out.append([("selection-document:%s" % type(e).__name__, "font %s raised %r" % (f, e), {})])
            continue
        texts = [g[0] for g in got]
        if texts != ti:
            if texts == tc and r["keyi"] != r["keyc"]:
                fnd.append(("dev:ToUnicodeByCID", "Type0 font /%s with a ToUnicode CMap: codes %s (CIDs %s) report %r; the ToUnicode "
                            "entries for the character codes are %r" % (enc, [c.hex() for c in codes], cids, texts, ti), {}))
            else:
                fnd.append(("selection-text:%s:%s" % (seg, r["umap"]), "font %s: glyph texts %r, expected %r (CIDs %s)"
                            % (f, texts, ti, cids), {}))
        # writing mode: horizontal pen along +x by DW, vertical along -y by DW2
        for k, g in enumerate(got):
            if r["vertical"]:
                ok = close(g[1], -10.0) and close(g[2][4], 100) and close(g[2][5], 100000 - 10.0 * k)
            else:
                ok = close(g[1], 10.0) and close(g[2][4], 100 + 10.0 * k) and close(g[2][5], 100000)
            if not ok:
                fnd.append(("selection-wmode", "font %s: glyph %d adv %r matrix %r, expected %s writing" % (
                    f, k, g[1], g[2], "vertical" if r["vertical"] else "horizontal"), {}))
                break
        out.append(fnd)
    return out


def direction_a_selection(ck, fut, ppool):
    res, emit = fut
    ck.add_tlc(res, "CIDSelect: 2 encoding forms x 8 CMap names x 3 ToUnicode x 4 collections x 3 TrueType")
    if not res.ok:
        return model_violation(ck, res, "CIDSelect")
    require_coverage(res, ["AType0", "ACMap", "AUnicodeMap", "AMetrics"])
    recs = [json.loads(line) for line in open(emit)]
    os.remove(emit)
    if len(recs) != res.emitted or not recs:
        raise MachineryError("CIDSelect: emitted %d, read %d" % (res.emitted, len(recs)))
    chunks = [recs[i:i + 24] for i in range(0, len(recs), 24)]
    k = 0
    for chunk, results in zip(chunks, ppool.map(selection_worker, chunks)):
        for r, findings in zip(chunk, results):
            k += 1
            for key, what, detail in findings:
                report(ck, key, what, {"kind": "selection", "rec": r})
            ck.case(len(SEL_CODES[r["seg"]]), ("X", json.dumps(r["f"], sort_keys=True)) if r["umap"] != "none" else None)
            if k % 140 == 3:
                ck.sample({"type0_font_model": r["f"], "model_selection": {k2: r[k2] for k2 in ("seg", "umap", "vertical", "keyi")},
                           "findings": [x[0] for x in findings]})
    ck.replayed += len(recs)
    ck.extra["type0_fonts_realised"] = len(recs)


# =============================================================================================== A6 usecmap
def direction_a_usecmap(ck, fut):
    from pdfminer.cmapdb import CMapDB, FileCMap
    from ..observe import cidrec
    res, emit = fut
    ck.add_tlc(res, "UseCMap: use_cmap / add_code2cid sequences <= 3 on a heap of dictionaries")
    if not res.ok:
        return model_violation(ck, res, "UseCMap")
    require_coverage(res, ["AUse", "AAdd"])
    import copy
    name = "90ms-RKSJ-H"
    trie = cidrec.code2cid(name)
    # a: a single-byte code that is also a second byte, l: a lead byte, t: a byte that starts no code of the used CMap
    b = {"a": 0x41, "l": 0x82, "t": 0xFD}
    if not (cidrec.lookup(trie, [0x41])[0] == "leaf" and cidrec.lookup(trie, [0x82])[0] == "node"
            and cidrec.lookup(trie, [0xFD])[0] == "absent" and cidrec.lookup(trie, [0x82, 0x41])[0] == "absent"):
        raise MachineryError("90ms-RKSJ-H data no longer has the shape the UseCMap replay assumes")
    shared = CMapDB.get_cmap(name)
    pristine = json.dumps(cidrec.code2cid(name), sort_keys=True)
    n = 0
    for line in open(emit):
        r = json.loads(line)
        n += 1
        mine = FileCMap()
        used = False
        ref = {}
        for op in r["ops"]:
            if op[0] == "use":
                mine.use_cmap(shared)
                ref = copy.deepcopy(trie)
                used = True
            else:
                bs = [b[s] for s in op[1]]
                mine.add_code2cid("".join(chr(x) for x in bs), op[2] + 60000)
                d = ref
                for x in bs[:-1]:
                    d = d.setdefault(x, {})
                d[bs[-1]] = op[2] + 60000
        bad = None
        # the model's table for the using CMap, restricted to added codes, must be in the real object
        for (code, cid) in r["mine"]:
            if cid >= 5 and cidrec.lookup(mine.code2cid, [b[s] for s in code]) != ("leaf", cid + 60000):
                bad = (code, cidrec.lookup(mine.code2cid, [b[s] for s in code])[0], cid + 60000)
        for seq in [q for k in (1, 2, 3) for q in itertools.product("alt", repeat=k)]:
            data = bytes(b[s] for s in seq) + b"\x83\x41"
            got = list(mine.decode(data))
            want, _facts = cidrec.ref_segment(ref, data)
            if got != want:
                bad = (seq, got, want)
                break
        ck.case(1, ("U", json.dumps(r["ops"])) if used and len(r["ops"]) > 1 else None)
        if bad:
            report(ck, "usecmap-table", "ops %s: decode of %s gives %s, expected %s" % (r["ops"], bad[0], bad[1], bad[2]),
                         {"kind": "usecmap", "ops": r["ops"]})
        if json.dumps(shared.code2cid, sort_keys=True) != pristine:
            report(ck, "usecmap-alias", "ops %s changed the cached CMap %s (use_cmap aliased instead of copying)" % (r["ops"], name),
                         {"kind": "usecmap", "ops": r["ops"]})
            CMapDB._cmap_cache.pop(name, None)
            shared = CMapDB.get_cmap(name)
    os.remove(emit)
    if n != res.emitted or n == 0:
        raise MachineryError("UseCMap: emitted %d, replayed %d" % (res.emitted, n))
    ck.replayed += n
    ck.extra["usecmap_behaviours_replayed"] = n


# =============================================================================================== A7 collection maps per writing mode
def umap_history_main():
    """runs in a FRESH interpreter (the cache under test lives for the life of a process): stdin = JSON list of requests
    [{coll, mode}], stdout = JSON list of findings.  Every request is made twice over: through the API
    CMapDB.get_unicode_map(coll, vertical) and through a generated Type0 document (Identity-H / Identity-V font of that
    collection), and compared with the pickled table of the REQUESTED mode on the CIDs where the two modes differ."""
    import sys
    quiet()
    from pdfminer.cmapdb import CMapDB
    from ..observe import cidrec
    from ..realise import fontpdf as fp
    hist = json.load(sys.stdin)
    out = []
    for i, rq in enumerate(hist):
        coll, vertical = rq["coll"], rq["mode"] == "V"
        dh, dv = cidrec.cid2unichr(coll, False), cidrec.cid2unichr(coll, True)
        want = dv if vertical else dh
        differ = sorted(c for c in set(dh) | set(dv) if dh.get(c) != dv.get(c))
        same = sorted(c for c in dh if dh.get(c) == dv.get(c))[:40]
        if not differ:
            out.append(["machinery", "collection %s has no CID whose H and V targets differ" % coll])
            continue
        um = CMapDB.get_unicode_map(coll, vertical)
        bad = []
        for c in differ + same:
            try:
                t = um.get_unichr(c)
            except KeyError:
                t = None
            if t != want.get(c):
                bad.append((c, t, want.get(c)))
        if bad:
            out.append(["umap-mode:api", "request %d of %s: get_unicode_map(%r, vertical=%s) answers %d of %d CIDs with another map's "
                        "value, e.g. CID %d -> %r, expected %r" % (i + 1, [(h["coll"], h["mode"]) for h in hist], coll, vertical,
                                                                   len(bad), len(differ) + len(same), bad[0][0], bad[0][1], bad[0][2])])
        cids = [c for c in differ if c in want and c < 65536][:6] + same[:2]
        font, objs = type0_font("Identity-V" if vertical else "Identity-H", ordering=coll.split("-", 1)[1])
        pdf = lines_doc(font, objs, [b"".join(c.to_bytes(2, "big") for c in cids)])
        texts = [g[0] for g in fp.chars_of(pdf)[0]]
        exp = [want.get(c, "(cid:%d)" % c) for c in cids]
        if texts != exp:
            out.append(["umap-mode:document", "request %d of %s: a %s font of %s showing CIDs %s reports %r, expected %r"
                        % (i + 1, [(h["coll"], h["mode"]) for h in hist], "vertical" if vertical else "horizontal", coll, cids, texts, exp)])
    json.dump(out, sys.stdout)


def umap_history_run(hist):
    import subprocess
    import sys
    p = subprocess.run([sys.executable, "-c", "from harness.props.c07 import umap_history_main; umap_history_main()"],
                       input=json.dumps(hist), capture_output=True, text=True, cwd=os.path.dirname(os.path.dirname(FONT)),
                       timeout=600)
    if p.returncode != 0:
        raise MachineryError("collection-map history worker failed: " + p.stderr[-1500:])
    return json.loads(p.stdout)


def direction_a_umap(ck, fut, tpool):
    res, emit = fut
    ck.add_tlc(res, "UMapCache: request histories <= 3 over 2 collections x {H, V}")
    if not res.ok:
        return model_violation(ck, res, "UMapCache")
    require_coverage(res, ["ALoad", "AHit"])
    hists = [json.loads(line)["h"] for line in open(emit)]
    os.remove(emit)
    if len(hists) != res.emitted or not hists:
        raise MachineryError("UMapCache: emitted %d, read %d" % (res.emitted, len(hists)))
    for h in hists:
        for rq in h:
            if rq["got"] != [rq["coll"], rq["mode"]]:
                raise MachineryError("UMapCache emitted a history the invariant forbids")
    top = max(len(h) for h in hists)
    maximal = [h for h in hists if len(h) == top]       # every shorter history is a prefix of one of these
    for h, findings in zip(maximal, tpool.map(umap_history_run, maximal)):
        for key, what in findings:
            if key == "machinery":
                raise MachineryError(what)
            report(ck, key, what, {"kind": "umap", "history": h})
        ck.case(len(h), ("M", json.dumps([(r["coll"], r["mode"]) for r in h]))
                if len({(r["coll"], r["mode"]) for r in h if r["coll"] == h[0]["coll"]}) > 1 else None)
    ck.sample({"collection_map_requests_in_one_process": [(r["coll"], r["mode"]) for r in maximal[len(maximal) // 3]],
               "model_answers": [r["got"] for r in maximal[len(maximal) // 3]]})
    ck.replayed += len(hists)
    ck.extra["collection_map_histories_replayed"] = len(hists)
    ck.extra["fresh_processes_for_histories"] = len(maximal)


# =============================================================================================== A8 embedded TrueType cmap
TT_DEVS = ["F4RangeBase", "F4ZeroDelta", "F2SingleHigh", "F2OneHigh", "F2NoModulo", "BadFormatAsserts"]


def tt_font_of(cs):
    """the model's case as a real (minimal) TrueType file"""
    from ..realise import ttf
    k = cs["kind"]
    if k == "f4":
        return ttf.font_file([(b"cmap", ttf.cmap_table([(3, 1, ttf.write_format4(cs["segs"], cs["gia"]))]))])
    if k == "f0":
        return ttf.font_file([(b"cmap", ttf.cmap_table([(0, 3, ttf.write_format0({int(c): g for c, g in cs["table"].items()}))]))])
    if k == "f2":
        return ttf.font_file([(b"cmap", ttf.cmap_table([(0, 3, ttf.write_format2({hb: ix for hb, ix in cs["keys"]}, cs["subs"],
                                                                                  cs["gia"]))]))])
    if not cs["hascmap"]:
        return ttf.font_file([(b"head", b"\0" * 54), (b"maxp", b"\0" * 32)])
    subs = []
    for r in cs["subs"]:
        pairs = sorted(tuple(x) for x in r["pairs"])
        if r["fmt"] == 4:
            segs = [{"sc": c, "ec": c, "idd": g - c, "idr": 0} for c, g in pairs] + [{"sc": 65535, "ec": 65535, "idd": 1, "idr": 0}]
            data = ttf.write_format4(segs, [])
        elif r["fmt"] == 0:
            data = ttf.write_format0(dict(pairs))
        elif r["fmt"] == 6:
            lo = pairs[0][0]
            data = ttf.write_format6(lo, [dict(pairs).get(c, 0) for c in range(lo, pairs[-1][0] + 1)])
        else:
            data = ttf.write_format12([(c, c, g) for c, g in pairs])
        subs.append((r["p"], r["e"], data))
    return ttf.font_file([(b"cmap", ttf.cmap_table(subs)), (b"head", b"\0" * 54)])


def tt_matches(result, real_name, real_map):
    """does what the real reader did fit a model result {err, pairs}?  The inverse map may pick any character of a glyph;
    glyph 0 (.notdef) is not constrained."""
    if result["err"] == "CMapNotFound":
        # a map that knows only glyph 0 (.notdef) is as good as none: no CID > 0 gets a character either way
        return real_name == "CMapNotFound" or (real_name == "ok" and not any(g for g in real_map))
    if result["err"] != "none":
        return real_name == result["err"]
    if real_name != "ok":
        return False
    by = {}
    for c, g in result["pairs"]:
        by.setdefault(g, set()).add(c)
    got = {g: ch for g, ch in real_map.items() if g != 0}
    return set(got) == set(by) and all(got[g] in by[g] for g in got)


def tt_worker(batch):
    from ..observe import ttrec
    from ..realise import fontpdf as fp
    from ..realise import ttf
    out = []
    for r in batch:
        cs = r["cs"]
        font = tt_font_of(cs)
        # the two independent readings of the layout (TLA+ reference, Python reader) must agree on what the file says
        ref = ttf.ref_unicode_pairs(font)
        want = {c: g for c, g in r["i"]["pairs"]}
        if cs["kind"] == "dir":
            exp = [dict((int(c), int(g)) for c, g in s["pairs"]) for s in cs["subs"]
                   if (s["p"] == 0 or (s["p"] == 3 and s["e"] in (1, 10))) and s["fmt"] in (0, 2, 4)] if cs["hascmap"] else None
            okref = ref == exp
        else:
            okref = ref == ([want] if ref else ref) or (not want and ref in ([{}], [{65535: 0}]))
        if not okref:
            raise MachineryError("TrueType realiser/reference disagreement on %r: reader %r, model %r" % (cs, ref, want))
        name, _calls, rmap = ttrec.real_unicode_map(font)
        f = []
        case = {"kind": "ttcmap", "rec": r}
        if not tt_matches(r["i"], name, rmap):
            if tt_matches(r["c"], name, rmap) and r["f"]:
                for d in r["f"]:
                    f.append(("dev:" + d, "create_unicode_map on a %s cmap (%s): %s %r, the OpenType reading is %r"
                              % (cs["kind"], cs.get("style"), name, rmap, sorted(want.items())), case))
            else:
                f.append(("ttcmap:%s" % cs["kind"], "create_unicode_map on a %s cmap (%s): %s %r, expected glyph->char from %r"
                          % (cs["kind"], cs.get("style"), name, rmap, sorted(want.items())), case))
        # through a document: CIDFontType2 + Identity-H + Adobe-Identity, CID = glyph index
        gids = sorted({g for _c, g in r["i"]["pairs"] + r["c"]["pairs"] if 0 < g < 65536} | {1, 2, 3})
        fnt, objs = type0_font("Identity-H", ordering="Identity", fontfile2=font)
        pdf = lines_doc(fnt, objs, [b"".join(g.to_bytes(2, "big") for g in gids)])

        def texts_ok(res, texts):
            by = {}
            for c, g in res["pairs"]:
                by.setdefault(g, set()).add(chr(c))
            return len(texts) == len(gids) and all((t in by[g]) if g in by else t == "(cid:%d)" % g for g, t in zip(gids, texts))
        try:
            texts = [g[0] for g in fp.chars_of(pdf)[0]]
            okd = r["i"]["err"] in ("none", "CMapNotFound") and texts_ok(r["i"], texts)
            if not okd:
                if r["c"]["err"] in ("none", "CMapNotFound") and texts_ok(r["c"], texts) and r["f"]:
                    for d in r["f"]:
                        f.append(("dev:" + d, "Identity-H font with an embedded %s cmap: CIDs %s report %r; OpenType reading %r"
                                  % (cs["kind"], gids, texts, sorted(want.items())), case))
                else:
                    f.append(("ttcmap-document:%s" % cs["kind"], "Identity-H font with an embedded %s cmap (%s): CIDs %s report %r; "
                              "OpenType reading %r" % (cs["kind"], cs.get("style"), gids, texts, sorted(want.items())), case))
        except AssertionError as e:
            if r["c"]["err"] == "AssertionError" and r["f"]:
                for d in r["f"]:
                    f.append(("dev:" + d, "a font whose cmap has a Unicode subtable of an unsupported format aborts the page with "
                              "AssertionError %s" % (e,), case))
            else:
                f.append(("ttcmap-document:AssertionError", "document raised AssertionError %s" % (e,), case))
        except Exception as e:  # noqa: BLE001
            f.append(("ttcmap-document:%s" % type(e).__name__, "document raised %r" % (e,), case))
        out.append(f)
    return out


def direction_a_ttcmap(ck, fut, ppool):
    from ..realise import ttf
    ttf.self_check()
    res, emit = fut
    ck.add_tlc(res, "TrueTypeCMap: encoded maps (format 4 in 5 styles, format 0, format 2) and subtable directories")
    if not res.ok:
        return model_violation(ck, res, "TrueTypeCMap")
    if res.actions:
        require_coverage(res, ["ASegDelta", "ASegRange", "AByteTable", "ASubHeader", "ASkipPlatform", "AReadSubtable",
                               "ASkipFormat", "AFinish"])
    recs = [json.loads(line) for line in open(emit)]
    os.remove(emit)
    if len(recs) != res.emitted or not recs:
        raise MachineryError("TrueTypeCMap: emitted %d, read %d" % (res.emitted, len(recs)))
    for r in recs:
        for key in ("i", "c"):
            r[key]["pairs"] = sorted([int(c), int(g)] for c, g in r[key]["pairs"])
    chunks = [recs[i:i + 40] for i in range(0, len(recs), 40)]
    k = 0
    hits = {}
    for chunk, results in zip(chunks, ppool.map(tt_worker, chunks)):
        for r, findings in zip(chunk, results):
            k += 1
            for key, what, case in findings:
                if key.startswith("dev:"):
                    hits[key] = hits.get(key, 0) + 1
                report(ck, key, what, case)
            ck.case(2, ("TT", json.dumps(r["cs"], sort_keys=True)) if len(r["i"]["pairs"]) > 1 else None)
            if k % 300 == 11 and len(ck.samples) < 8:
                cs = r["cs"]
                ck.sample({"truetype_cmap_case": {x: cs[x] for x in cs if x in ("kind", "style", "segs", "gia", "subs", "keys")},
                           "model_char_glyph_pairs": r["i"]["pairs"], "findings": sorted({f[0] for f in findings})})
    ck.replayed += len(recs)
    ck.extra["truetype_cmaps_realised"] = len(recs)
    ck.extra["truetype_deviation_hits"] = hits


def tt_traces_of(path):
    from ..observe import ttrec
    out = []
    for origin, data in ttrec.embedded_programs(path):
        tr = ttrec.truetype_trace(os.path.relpath(origin, "/repo"), data)
        if tr is not None:
            out.append(tr)
    return out


def direction_b_ttcmap(ck, dev, ppool):
    files = sorted(glob.glob("/repo/samples/**/*.pdf", recursive=True))
    files = [f for f in files if os.path.getsize(f) < (6 << 20 if ck.tier == "quick" else 80 << 20)]
    traces = []
    for res in ppool.map(tt_traces_of, files):
        traces.extend(res)
    if not traces:
        raise MachineryError("no embedded TrueType programs found in the samples")
    traces.sort(key=lambda t: (-len(t["obs"]), t["origin"]))
    if ck.tier == "quick":
        traces = [t for t in traces if t["nchars"] < 3000][:40]
    spec = os.path.join(FONT, "TrueTypeCMapTrace.tla")
    cfg = write_cfg(os.path.join(ck.tmp, "tttrace.cfg"), constants={"Dev": tla_set([d for d in dev if d.startswith("F4") or d == "BadFormatAsserts"])},
                    spec="Spec", invariants=["IndexOK"], deadlock=True)
    tf = os.path.join(ck.tmp, "tttrace.json")
    todo = list(traces)
    rejected = 0
    while todo:
        with open(tf, "w") as f:
            json.dump([{k: v for k, v in t.items() if k not in ("origin", "nchars", "differ")} for t in todo], f)
        res = run_tlc(spec, cfg, workers=1, env={"TRACE_FILE": tf}, timeout=3000, heap="6g")
        ck.add_tlc(res, "trace validation of %d embedded TrueType programs of the samples" % len(todo))
        if res.ok:
            break
        if res.violated != "deadlock" or not res.error_trace:
            raise MachineryError("TrueType trace validation failed unexpectedly: " + res.error_text[:2000])
        st = res.error_trace[-1][1]
        t, k, ph = int(st["t"]), int(st["k"]), st["ph"].strip('"')
        tr = todo[t - 1]
        rejected += 1
        what = {"font": "outcome %s does not fit the subtables %s" % (tr["result"], [(s["p"], s["e"], s["fmt"]) for s in tr["subs"]]),
                "obs": "character/glyph result %s is not what the cmap says" % (tr["obs"][k] if k < len(tr["obs"]) else "?"),
                "inv": "returned map entry %s is not among the character/glyph results" % (tr["inv"][k] if k < len(tr["inv"]) else "?")}[ph]
        report(ck, "tt-trace-rejected:" + ph, "embedded TrueType program %s: %s" % (tr["origin"], what),
               {"kind": "trace", "origin": tr["origin"], "phase": ph, "index": k})
        todo = todo[t:]
        if rejected >= 3 and todo:
            rejected += len(todo)
            break
    for tr in traces:
        ck.case(len(tr["obs"]) + len(tr["inv"]) + 1, ("TB", tr["origin"]) if tr["obs"] else None)
        if tr["differ"] and "F4RangeBase" in dev:
            report(ck, "dev:F4RangeBase", "embedded TrueType program %s: %d of %d characters are attached to another glyph than the "
                   "OpenType reading of its cmap gives" % (tr["origin"], tr["differ"], tr["nchars"]),
                   {"kind": "trace", "origin": tr["origin"]})
    ck.traces += len(traces) - rejected
    ck.extra["sample_truetype_programs_traced"] = len(traces)
    ck.extra["sample_truetype_programs_with_unicode_cmap"] = sum(1 for t in traces if t["result"] == "ok")


# =============================================================================================== A9 shared descendant
T0_CIDS = [843, 1125, 736]
T0_STREAMS = {"streamX": {843: "X"}, "streamY": {843: "Y", 1125: "Z"}}


def type0_share_doc(built):
    """one descendant CIDFont (indirect object 100) shared by all Type0 fonts; page j shows T0_CIDS with the j-th font"""
    from ..realise import fontpdf as fp
    from ..realise.pdfwriter import Name, Ref, Revision, Stream, build
    objs = {1: {"Type": Name("Catalog"), "Pages": Ref(2)},
            100: {"Type": Name("Font"), "Subtype": Name("CIDFontType2"), "BaseFont": Name("VerifShared"),
                  "CIDSystemInfo": {"Registry": b"Adobe", "Ordering": b"Japan1", "Supplement": 2},
                  "FontDescriptor": {"Type": Name("FontDescriptor"), "FontName": Name("VerifShared"), "Flags": 4,
                                     "FontBBox": [0, -200, 1000, 800], "ItalicAngle": 0, "Ascent": 800, "Descent": -200,
                                     "StemV": 80}}}
    kids = []
    for j, b in enumerate(built):
        f = {"Type": Name("Font"), "Subtype": Name("Type0"), "BaseFont": Name("VerifShared"), "Encoding": Name(b["enc"]),
             "DescendantFonts": [Ref(100)]}
        if b["want"] != "absent":
            ents = [(c, t) for c, t in sorted(T0_STREAMS[b["want"]].items())]
            objs[120 + j] = Stream({}, fp.tounicode_cmap([("bfchar", ents)], codelen=2))
            f["ToUnicode"] = Ref(120 + j)
        objs[110 + j] = f
        objs[140 + 2 * j] = Stream({}, b"BT /F1 10 Tf 1 0 0 1 100 700 Tm <" +
                                   b"".join(c.to_bytes(2, "big") for c in T0_CIDS).hex().encode() + b"> Tj ET")
        objs[141 + 2 * j] = {"Type": Name("Page"), "Parent": Ref(2), "MediaBox": [0, 0, 612, 792],
                             "Resources": {"Font": {"F1": Ref(110 + j)}}, "Contents": Ref(140 + 2 * j)}
        kids.append(Ref(141 + 2 * j))
    objs[2] = {"Type": Name("Pages"), "Kids": kids, "Count": len(kids)}
    pdf, _ = build([Revision(dict(sorted(objs.items())), root=Ref(1))])
    return pdf


def type0_share_expected(b):
    """what the font reports when it is the only font loaded: its own ToUnicode stream, else the collection map of its mode"""
    from ..observe import cidrec
    if b["want"] != "absent":
        m = T0_STREAMS[b["want"]]
        return [m.get(c, "(cid:%d)" % c) for c in T0_CIDS]
    d = cidrec.cid2unichr("Adobe-Japan1", b["enc"].endswith("V"))
    return [d.get(c, "(cid:%d)" % c) for c in T0_CIDS]


def direction_a_type0share(ck, fut):
    from ..realise import fontpdf as fp
    res, emit = fut
    ck.add_tlc(res, "Type0Share: load orders <= 3 of 4 Type0 fonts sharing one descendant dictionary")
    if not res.ok:
        return model_violation(ck, res, "Type0Share")
    require_coverage(res, ["ALoad"])
    n = 0
    for line in open(emit):
        built = json.loads(line)["b"]
        n += 1
        for b in built:
            if b["got"] != {"enc": b["enc"], "tu": b["want"]}:
                raise MachineryError("Type0Share emitted a history its invariant forbids")
        alone = [[t[0] for t in fp.chars_of(type0_share_doc([b]))[0]] for b in built]
        for b, a in zip(built, alone):
            if a != type0_share_expected(b):
                report(ck, "type0-alone", "Type0 font %s loaded alone reports %r, expected %r" % (b["id"], a, type0_share_expected(b)),
                       {"kind": "type0share", "built": [b]})
        pages = fp.chars_of(type0_share_doc(built))
        for j, (b, pg) in enumerate(zip(built, pages)):
            got = [t[0] for t in pg]
            ck.case(len(T0_CIDS), ("Z", json.dumps([x["id"] for x in built]), j) if j else None)
            if got != alone[j]:
                report(ck, "type0-shared-descendant", "Type0 fonts %s sharing one descendant CIDFont object, loaded in this order: "
                       "font %s reports %r, loaded alone it reports %r" % ([x["id"] + ("+ToUnicode" if x["want"] != "absent" else "")
                                                                            for x in built], b["id"], got, alone[j]),
                       {"kind": "type0share", "built": built})
                break
    os.remove(emit)
    if n != res.emitted or n == 0:
        raise MachineryError("Type0Share: emitted %d, replayed %d" % (res.emitted, n))
    ck.replayed += n
    ck.extra["shared_descendant_load_orders_replayed"] = n


# =============================================================================================== B traces
def cid_traces_of(path):
    from ..observe import cidrec
    return cidrec.cid_fonts_of_file(path, maxpages=3)


def direction_b(ck, ppool):
    files = sorted(glob.glob("/repo/samples/**/*.pdf", recursive=True))
    files = [f for f in files if os.path.getsize(f) < (4 << 20 if ck.tier == "quick" else 60 << 20)]
    traces = []
    for res in ppool.map(cid_traces_of, files):
        traces.extend(res)
    seen = set()
    uniq = []
    for tr in traces:
        key = zlib.crc32(json.dumps({k: v for k, v in tr.items() if k != "origin"}, sort_keys=True).encode())
        if key not in seen:
            seen.add(key)
            uniq.append(tr)
    if not uniq:
        raise MachineryError("no composite-font traces recorded from the samples")
    for tr in uniq:
        ck.case(len(tr["decodes"]) + len(tr["codes"]), ("B", tr["origin"]) if tr["decodes"] else None)
    rejected = validate_cid_traces(ck, uniq)
    ck.traces += len(uniq) - rejected
    ck.extra["sample_cid_fonts_traced"] = len(uniq)
    ck.extra["trace_events"] = sum(len(t["decodes"]) + len(t["warr"]) + len(t["codes"]) for t in uniq)
    ck.extra["sample_cid_fonts_by_segmentation"] = {s: sum(1 for t in uniq if t["seg"] == s) for s in ("id2", "id1", "trie")}


def validate_cid_traces(ck, traces):
    spec = os.path.join(FONT, "CIDFontTrace.tla")
    cfg = write_cfg(os.path.join(ck.tmp, "cidtrace.cfg"), spec="Spec", invariants=["RegisterOK"], deadlock=True)
    tf = os.path.join(ck.tmp, "cidtrace.json")
    todo = list(traces)
    rejected = 0
    while todo:
        with open(tf, "w") as f:
            json.dump([{k: v for k, v in t.items() if k != "origin"} for t in todo], f)
        res = run_tlc(spec, cfg, workers=1, env={"TRACE_FILE": tf}, timeout=3000, heap="6g")
        ck.add_tlc(res, "trace validation of %d recorded composite-font traces" % len(todo))
        if res.ok:
            break
        if res.violated != "deadlock" or not res.error_trace:
            raise MachineryError("composite-font trace validation failed unexpectedly: " + res.error_text[:2000])
        st = res.error_trace[-1][1]
        t, k, ph = int(st["t"]), int(st["k"]), st["ph"].strip('"')
        tr = todo[t - 1]
        rejected += 1
        if ph == "decode":
            d = tr["decodes"][k]
            what = "decode(%s) returned %s" % (bytes(d["bytes"]).hex(), d["out"])
        elif ph == "w":
            what = "the width table of the font is not what the %s array machine builds (array element %d)" % (tr["wmode"], k)
        else:
            what = "to_unichr/char_width event %s" % json.dumps(tr["codes"][k]) if k < len(tr["codes"]) else "?"
        report(ck, "trace-rejected:" + ph, "recorded trace of %s (%s) is not a behaviour of CIDFontTrace: %s"
                     % (tr["origin"], tr["seg"], what), {"kind": "trace", "origin": tr["origin"], "phase": ph, "index": k})
        todo = todo[t:]
        if rejected >= 3 and todo:
            ck.note("%d recorded composite-font traces left unexamined after 3 rejections" % len(todo))
            rejected += len(todo)
            break
    return rejected


# =============================================================================================== codec data check
CODEC_PAIRS = [("90ms-RKSJ-H", "cp932", "Adobe-Japan1"), ("EUC-H", "euc_jp", "Adobe-Japan1"),
               ("UniJIS-UCS2-H", "utf-16-be", "Adobe-Japan1"), ("UniJIS-UTF16-H", "utf-16-be", "Adobe-Japan1"),
               ("GBK-EUC-H", "gbk", "Adobe-GB1"), ("UniGB-UCS2-H", "utf-16-be", "Adobe-GB1"),
               ("ETen-B5-H", "big5", "Adobe-CNS1"), ("UniCNS-UCS2-H", "utf-16-be", "Adobe-CNS1"),
               ("KSCms-UHC-H", "cp949", "Adobe-Korea1"), ("UniKS-UCS2-H", "utf-16-be", "Adobe-Korea1")]
RANGES = {"kana": (0x3041, 0x30FF), "hangul": (0xAC00, 0xD7A3), "uro": (0x4E00, 0x9FA5)}


def codec_data_check(ck):
    """SUPPLEMENTARY DATA CHECK (not model checking, not a verdict): code -> CID -> Unicode through pdfminer's pickled
    tables against the platform codec, for kana, hangul and the unified ideographs."""
    import unicodedata
    from pdfminer.cmapdb import CMapDB
    rep = {}
    for cmap, codec, coll in CODEC_PAIRS:
        cm = CMapDB.get_cmap(cmap)
        um = CMapDB.get_unicode_map(coll, False)
        ent = {}
        for rname, (lo, hi) in RANGES.items():
            agree = compat = nocid = differ = enc = 0
            ex = []
            for u in range(lo, hi + 1):
                ch = chr(u)
                try:
                    data = ch.encode(codec)
                except UnicodeEncodeError:
                    continue
                if codec == "euc_jp" and len(data) == 3:
                    continue        # code set 3 (JIS X 0212, prefix 8F) is not part of the EUC-H CMap by design
                enc += 1
                cids = list(cm.decode(data))
                if len(cids) != 1:
                    nocid += 1
                    continue
                try:
                    t = um.get_unichr(cids[0])
                except KeyError:
                    nocid += 1
                    continue
                if t == ch:
                    agree += 1
                elif unicodedata.normalize("NFKC", t) == unicodedata.normalize("NFKC", ch):
                    compat += 1
                else:
                    differ += 1
                    if len(ex) < 5:
                        ex.append({"char": "U+%04X" % u, "bytes": data.hex(), "cid": cids[0], "pdfminer": "U+%04X" % ord(t[0])})
            if enc:
                ent[rname] = {"encodable": enc, "agree": agree, "compatibility_equivalent": compat,
                              "no_cid_or_no_unicode": nocid, "differ": differ, "examples": ex}
        rep["%s vs %s" % (cmap, codec)] = ent
        tot = sum(v["differ"] for v in ent.values())
        if tot:
            ck.note("codec data check %s vs %s: %d characters differ (reported, not a verdict)" % (cmap, codec, tot))
    ck.extra["codec_data_check"] = rep


# =============================================================================================== entry points
def report(ck, key, what, case=None):
    """ck.violation with a cap: every unknown violation writes a replay file; a badly broken tree yields tens of
    thousands of them, so after 60 only a counter is kept (the verdict is already decided)"""
    if ck.is_known(key) or len(ck.violations) < 60:
        return ck.violation(key, what, case)
    ck.extra["violations_beyond_the_first_60"] = ck.extra.get("violations_beyond_the_first_60", 0) + 1
    return True


def quiet():
    from ..realise.fontpdf import quiet as q
    q()


def run(ck):
    quiet()
    dev = [d for d in active("cid") if d in CID_DEVS]
    ck.extra["deviations_modelled_as_coded"] = dev
    ck.rule = ("A: (i) every string over the abstract byte classes of 6 CMap families up to MaxLen (TLC states of CIDFont.tla), "
               "each decoded by every bound real CMap (bindings found by reading the CMap data) and, up to length 3, shown "
               "through generated Type0 documents; non-trivial = length >= 2 and at least one code. (ii) every ToUnicode entry "
               "sequence of CMapParse.tla through CMapParser (a subset through documents); non-trivial = defines a mapping. "
               "(iii) every W / W2 array of Widths.tla through get_widths/get_widths2 (a subset of the well-formed ones through "
               "documents); non-trivial = well-formed with an entry. (iv) every Placement behaviour, every CIDSelect font "
               "dictionary (as a document), every UseCMap behaviour and every UMapCache request history (each maximal history in a "
               "fresh interpreter, through get_unicode_map and through documents, on the CIDs whose horizontal and vertical "
               "targets differ). B: one trace per distinct composite font of the samples.")
    ck.assumptions = ["contents of the pickled CMaps and collection maps are constants read from the package (DESIGN 1.1)",
                      "abstract byte classes are bound to 2-3 concrete byte choices per real CMap",
                      "resynchronisation after an invalid byte: partial code + offending byte are consumed (see notes/C07.md)",
                      "bfrange increment carries across bytes (ISO 32000 leaves overflow of the last byte undefined)",
                      "vertical position vector is observed through char_disp / box x0 only; bbox heuristics are C08's subject",
                      "embedded (non-predefined) encoding CMap streams are outside the property ('supported encoding CMaps')"]
    quick = ck.tier == "quick"
    seg_len = 5 if quick else 6
    jobs = {}

    def add(label, mod, cfg):
        emit = os.path.join(ck.tmp, label + ".ndjson")
        jobs[label] = (os.path.join(FONT, mod), cfg, emit, quick or label in ("place", "sel", "use", "umap", "t0share"), 4)

    dv = "<- AllDev" if "IdentityOddRaises" in dev else "<- NoDev"
    add("seg", "MC_CIDFont.tla", cfg_with(ck, "MC_CIDFont.cfg", "seg.cfg",
                                          replace={"MaxLen = 5": "MaxLen = %d" % seg_len, "Dev <- AllDev": "Dev " + dv}))
    tudev = "Dev <- AllDev" if "EmptyIncrementBase" in dev else "Dev <- NoDev"
    if quick:
        add("tu2", "MC_CMapParse.tla", cfg_with(ck, "MC_CMapParse_2.cfg", "tu2.cfg", replace={"Dev <- NoDev": tudev}))
        add("tu3", "MC_CMapParse.tla", cfg_with(ck, "MC_CMapParse_3.cfg", "tu3.cfg", replace={"Dev <- NoDev": tudev}))
    else:
        add("tu3", "MC_CMapParse.tla", cfg_with(ck, "MC_CMapParse_2.cfg", "tu3.cfg", replace={"MaxEnt = 2": "MaxEnt = 3", "Dev <- NoDev": tudev}))
    wl = 6 if quick else 7
    add("w", "MC_Widths.tla", cfg_with(ck, "MC_Widths_W.cfg", "w.cfg", replace={"MaxLen = 6": "MaxLen = %d" % wl}))
    add("w2", "MC_Widths.tla", cfg_with(ck, "MC_Widths_W2.cfg", "w2.cfg", replace={"MaxLen = 6": "MaxLen = %d" % (wl if quick else 6)}))
    add("place", "MC_Placement.tla", cfg_with(ck, "MC_Placement.cfg", "place.cfg",
                                              replace={"Dev <- NoDev": "Dev <- AllDev" if "VerticalTzScales" in dev else "Dev <- NoDev"}))
    dsel = "<- AllDev" if "ToUnicodeByCID" in dev else "<- NoDev"
    add("sel", "MC_CIDSelect.tla", cfg_with(ck, "MC_CIDSelect.cfg", "sel.cfg", replace={"Dev <- AllDev": "Dev " + dsel}))
    add("use", "MC_UseCMap.tla", cfg_with(ck, "MC_UseCMap.cfg", "use.cfg"))
    add("umap", "MC_UMapCache.tla", cfg_with(ck, "MC_UMapCache.cfg", "umap.cfg"))
    add("t0share", "MC_Type0Share.tla", cfg_with(ck, "MC_Type0Share.cfg", "t0share.cfg"))
    ttdev = [d for d in active("ttf") if d in TT_DEVS]
    ck.extra["deviations_modelled_as_coded"] = dev + ttdev
    add("tt", "MC_TrueTypeCMap.tla", cfg_with(ck, "MC_TrueTypeCMap_small.cfg" if quick else "MC_TrueTypeCMap.cfg", "tt.cfg",
                                             replace={"Dev <- NoDev": "Dev = " + tla_set(ttdev)}))
    with ThreadPoolExecutor(8) as tpool, ProcessPoolExecutor(min(16, os.cpu_count() or 4), initializer=quiet) as ppool:
        futs = {k: tpool.submit(tlc_job, j) for k, j in jobs.items()}

        def got(k):
            return futs[k].result(), jobs[k][2]
        seginfo = direction_a_seg(ck, dev, got("seg"))
        if seginfo:
            direction_a_seg_docs(ck, seginfo, ppool)
        direction_a_tounicode(ck, [(k, got(k)) for k in ("tu2", "tu3") if k in jobs], ppool)
        direction_a_widths(ck, [("W arrays <= %d elements" % wl, got("w")), ("W2 arrays", got("w2"))], ppool)
        direction_a_placement(ck, got("place"))
        direction_a_selection(ck, got("sel"), ppool)
        direction_a_usecmap(ck, got("use"))
        direction_a_umap(ck, got("umap"), tpool)
        direction_a_type0share(ck, got("t0share"))
        direction_a_ttcmap(ck, got("tt"), ppool)
        direction_b(ck, ppool)
        direction_b_ttcmap(ck, ttdev, ppool)
    codec_data_check(ck)
    ck.exhaustive = True


def replay(path):
    doc = json.load(open(path))
    case = unjson(doc["case"])
    kind = case.get("kind")
    if kind == "decode":
        real = real_decode(case["cmap"], case["data"])
        print("CMapDB.get_cmap(%r).decode(%s) -> %s ; expected %s" % (case["cmap"], case["data"].hex(), real, case["expected"]))
        bad = real != case["expected"]
    elif kind == "tounicode":
        r = {"e": case["entries"], "m": []}
        text = cmap_text(r["e"])
        print(text.decode("latin-1"))
        print("parsed:", real_parse_tounicode(text), "expected:", case["detail"].get("expected"))
        exp = {int(k): v for k, v in (case["detail"].get("expected") or {}).items()}
        bad = real_parse_tounicode(text) != exp
    elif kind == "widths":
        from pdfminer.pdffont import get_widths, get_widths2
        arr = py_array(case["array"])
        print(arr, "->", get_widths(arr) if case["mode"] == "W" else get_widths2(arr))
        bad = True
    elif kind == "type0share":
        from ..realise import fontpdf as fp
        built = case["built"]
        pages = fp.chars_of(type0_share_doc(built))
        bad = False
        for b, pg in zip(built, pages):
            alone = [t[0] for t in fp.chars_of(type0_share_doc([b]))[0]]
            print(b["id"], [t[0] for t in pg], "alone:", alone, "expected:", type0_share_expected(b))
            bad |= [t[0] for t in pg] != alone or alone != type0_share_expected(b)
    elif kind == "ttcmap":
        fnd = tt_worker([case["rec"]])[0]
        for f in fnd:
            print(f[0], f[1])
        bad = bool(fnd)
    elif kind == "umap":
        fnd = umap_history_run(case["history"])
        for f in fnd:
            print(f[0], f[1])
        bad = bool(fnd)
    elif kind == "selection":
        fnd = selection_worker([case["rec"]])[0]
        for f in fnd:
            print(f[0], f[1])
        bad = bool(fnd)
    else:
        print("replay of %r cases: re-run bin/check C07" % kind)
        return 2
    if bad:
        print("VIOLATION property=C07 replay=%s" % path)
    return 1 if bad else 0
