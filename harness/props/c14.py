"""C14 - tokenizer total, progressing, buffer-size independent.

A. TLC enumerates every input over byte-class alphabets x every buffer size on specs/lex/PSLex.tla,
   checking NoError / PositionsOK / BufferIndependent / Progress in every state; every terminal state
   is replayed on the real PSBaseParser.
B. token traces recorded from the real tokenizer on large inputs (repository samples, inputs straddling
   the 4096 buffer) at several BUFSIZ are validated against specs/lex/PSLexTrace.tla.
"""
import glob
import json
import os
import random

from ..core import unjson
from ..deviations import active, tla_set
from ..tlc import MachineryError, SPECS, require_coverage, run_tlc, write_cfg
from ..observe import lexrun
from ..observe.lexrun import model_tokens, real_tokens


class TooManyHangs(Exception):
    pass


def breaker():
    """a tokenizer that does not terminate on many inputs would make the replay take hours: stop after 25 of them"""
    if lexrun.HANGS >= 25:
        raise TooManyHangs()

SPEC = os.path.join(SPECS, "lex", "MC_PSLex.tla")
TRACE_SPEC = os.path.join(SPECS, "lex", "PSLexTrace.tla")
ACTIONS = ["ARefill", "AFlush", "AMain", "AComment", "ALiteral", "ALitHex", "ANumber", "AFloat",
           "AKeyword", "AString", "AString1", "AStringLF", "AWOpen", "AWClose", "AHexStr"]

# other members of the lexical byte classes that Alpha24 represents by one byte each
CLASS_MEMBERS = {32: b"\t \x0b", 49: b"0234567", 56: b"89", 97: b"cdeACDE", 98: b"fBF", 110: b"tr", 120: b"QzGhijklmopqsuvwy_", 43: b"-",
                 42: b"!~$&'\"=@^`|,;:?", 128: b"\x7f\xff\x80\xa0", 12: b"\x0c", 91: b"[", 0: b"\x00"}

CONFIGS = {
    "quick": [("Alpha24", 3, (1, 2, 4)), ("AlphaString", 4, (1, 2, 3, 5)), ("AlphaHexName", 4, (1, 2, 3, 5)),
              ("AlphaNumKw", 4, (1, 2, 3, 5)), ("AlphaComment", 5, (1, 2, 3, 6)), ("AlphaEsc", 5, (1, 2, 3, 6)), ("AlphaOct", 5, (1, 2, 3, 6)), ("AlphaOctEol", 5, (1, 2, 4, 6))],
    "thorough": [("Alpha24", 4, (1, 2, 5)), ("AlphaString", 5, (1, 2, 3, 6)), ("AlphaHexName", 5, (1, 2, 3, 6)),
                 ("AlphaNumKw", 5, (1, 2, 3, 6)), ("AlphaComment", 6, (1, 2, 3, 7)),
                 ("AlphaString", 6, (2, 7)), ("AlphaEsc", 7, (1, 2, 3, 8)), ("AlphaOct", 7, (1, 2, 3, 8)), ("AlphaOctEol", 7, (1, 2, 4, 8))],
}


def check_real(ck, data, results, model=None, origin=""):
    """results: {B: (tokens, err)} from the real tokenizer.  Evaluates the C14 predicates."""
    ref_b = max(results)
    ref = results[ref_b]
    bad = False
    for B, (toks, err) in sorted(results.items()):
        if err is not None:
            key = "no-progress" if err == "NoProgress" else "does-not-terminate" if err == "Hang" else "error:" + err
            bad |= ck.violation(key, "tokenizer signalled %s on %r (BUFSIZ=%s)" % (err, data[:60], B),
                                {"data": data, "bufsiz": B, "origin": origin, "observed_error": err})
            continue
        lastp = 0
        for (pos, k, v) in toks:
            if pos < lastp or pos > len(data):
                bad |= ck.violation("positions", "token position %d out of order/range on %r (BUFSIZ=%s)"
                                    % (pos, data[:60], B), {"data": data, "bufsiz": B, "origin": origin})
                break
            lastp = pos
        if ref[1] is None and toks != ref[0]:
            bad |= ck.violation("buffer-dependent",
                                "token sequence differs between BUFSIZ=%s and BUFSIZ=%s on %r" % (B, ref_b, data[:60]),
                                {"data": data, "bufsiz": B, "ref_bufsiz": ref_b, "origin": origin,
                                 "observed": repr(toks), "reference": repr(ref[0])})
    return bad


def direction_a(ck, dev):
    drift = 0
    for (alpha, maxlen, bufs) in CONFIGS[ck.tier]:
        cfg = write_cfg(os.path.join(ck.tmp, "c14_%s_%d.cfg" % (alpha, maxlen)),
                        constants={"Alphabet": "<- " + alpha, "MaxLen": maxlen,
                                   "BufSizes": "{" + ",".join(map(str, bufs)) + "}", "Dev": tla_set(dev) if dev else "<- NoDev"},
                        invariants=["NoError", "PositionsOK", "BufferIndependent"], properties=["Progress"],
                        constraints=["EmitTerminal"])
        emit = os.path.join(ck.tmp, "c14_%s_%d.ndjson" % (alpha, maxlen))
        res = run_tlc(SPEC, cfg, emit=emit, coverage=(maxlen <= 3 or alpha != "Alpha24") and ck.tier == "quick",
                      timeout=7200)
        ck.add_tlc(res, "%s^<=%d x B%s" % (alpha, maxlen, list(bufs)))
        if not res.ok:
            # the specification itself (as coded, with the listed deviations) breaks a C14 invariant
            st = res.error_trace[-1][1] if res.error_trace else {}
            ck.violation("model:" + str(res.violated),
                         "TLC: %s violated on the as-coded tokenizer model (%s)" % (res.violated, st.get("data", "?")),
                         {"tlc": res.error_text[:4000]})
            continue
        if res.actions:
            need = {"Alpha24": [a for a in ACTIONS if a != "AStringLF"],
                        "AlphaComment": ["ARefill", "AFlush", "AMain", "AComment", "AString", "AKeyword"],
                        "AlphaEsc": ["ARefill", "AFlush", "AMain", "AString", "AString1", "AStringLF", "AKeyword"],
                        "AlphaOct": ["ARefill", "AFlush", "AMain", "AString", "AString1", "ANumber"],
                        "AlphaOctEol": ["ARefill", "AFlush", "AMain", "AString", "AString1", "AStringLF", "ANumber"],
                        "AlphaString": ["ARefill", "AFlush", "AMain", "AString", "AString1", "ANumber", "AKeyword"],
                        "AlphaHexName": ["ARefill", "AFlush", "AMain", "ALiteral", "ALitHex", "AWOpen", "AWClose", "AHexStr"],
                        "AlphaNumKw": ["ARefill", "AFlush", "AMain", "ANumber", "AFloat", "AKeyword", "AComment", "ALiteral"]}[alpha]
            need = need
            require_coverage(res, need)
        # replay every terminal state
        groups = {}
        n = 0
        with open(emit) as f:
            for line in f:
                r = json.loads(line)
                data = bytes(r["d"])
                B = r["b"]
                toks, err = real_tokens(data, B)
                if err == "Hang":
                    ck.violation("does-not-terminate", "nexttoken() did not return on %r (BUFSIZ=%s)" % (data, B),
                                 {"data": data, "bufsiz": B, "origin": "%s^%d" % (alpha, maxlen), "observed_error": err})
                    breaker()
                n += 1
                groups.setdefault(data, {})[B] = (toks, err)
                mt = model_tokens(r["o"])
                me = None if r["e"] == "none" else r["e"]
                if (toks, err) != (mt, me):
                    drift += 1
                    if drift <= 5:
                        ck.note("model/code drift on %r B=%d: code %r/%s, model %r/%s" % (data, B, toks, err, mt, me))
                if n % 50000 == 1:
                    ck.sample({"input": data, "bufsiz": B, "tokens": repr(toks), "model_tokens": repr(mt)})
        os.remove(emit)
        if n != res.emitted or n == 0:
            raise MachineryError("emitted %d terminal states but replayed %d" % (res.emitted, n))
        members = CLASS_MEMBERS if alpha == "Alpha24" else None
        for data, results in groups.items():
            if members and len(data) >= 2:
                # the byte classes are represented by one member each in the enumeration: substitute other members of
                # the same class and evaluate the C14 predicates on the real tokenizer (no model prediction needed)
                for r in range(2 if ck.tier == "thorough" else 1):
                    alt = bytes(members[b][(r + i) % len(members[b])] if b in members else b for i, b in enumerate(data))
                    if alt != data:
                        check_real(ck, alt, {B: real_tokens(alt, B) for B in (1, 2, len(alt) + 1, 4096)}, origin="class-member variant of %r" % data)
                        ck.case(4, None)
            results[len(data) + 1] = real_tokens(data, len(data) + 1)
            results[4096] = real_tokens(data, 4096)
            check_real(ck, data, results, origin="%s^%d" % (alpha, maxlen))
            nontriv = len(results[4096][0]) > 0 and len(data) > min(bufs)
            ck.case(len(results), ("A", data) if nontriv else None)
        ck.replayed += n
    ck.extra["model_code_drift"] = drift
    if drift:
        # the model no longer describes the code: the TLC verdict does not transfer.  The C14 predicates were still
        # evaluated directly on the real tokenizer for the whole enumerated space (check_real), so this is reported
        # as drift, not as a violation of C14.
        ck.note("%d terminal states where the real tokenizer and the specification disagree (spec/code drift)" % drift)


NUMRE = None


def number_text(data, pos):
    import re
    global NUMRE
    if NUMRE is None:
        NUMRE = re.compile(rb"[-+]?[0-9]*\.?[0-9]*")
    return NUMRE.match(data, pos).group(0)


def trace_of(data, B):
    toks, err = real_tokens(data, B)
    ev = []
    for (pos, k, v) in toks:
        numok = True
        if k in ("int", "real"):
            txt = number_text(data, pos)
            try:
                numok = (int(txt) if k == "int" else float(txt)) == v
            except ValueError:
                numok = False
            v = txt
        ev.append({"pos": pos, "k": k, "v": list(v), "numok": numok})
    return {"data": list(data), "toks": ev, "err": err or "none", "bufsiz": B}


def straddlers(rng, n):
    """inputs whose tokens, escapes and continuations straddle the default 4096-byte buffer"""
    frag = [b"(a\\\r\nb)", b"(x\\101\\7y)", b"<41 42\n4>", b"/Na#6De", b"-12.50", b"<<", b">>", b"true", b"[", b"]",
            b"%c\r\n", b"(\\(\\))", b"(a(b)c)", b"+.5", b"4.", b"(\\\r)", b"(\\\n)", b"abc", b"\x00", b"{", b"}", b"/",
            b"(\\0053)", b"(\\400)", b"<4\x0c1>", b"(\r\n)", b"#", b"/A#", b"/A#4", b"1.2.3", b"--1", b"<a"]
    out = []
    for i in range(n):
        f = rng.choice(frag)
        for off in rng.sample(range(0, len(f) + 1), min(3, len(f) + 1)):
            pad = 4096 - off
            body = bytearray()
            while len(body) < pad - 12:
                body += rng.choice(frag) + rng.choice([b" ", b"\n", b"\r\n", b""])
            body += b" " * (pad - len(body))
            out.append(bytes(body) + f + b" " + rng.choice(frag) + rng.choice([b"", b" ", b"\n"]))
    return out


def repetitions(ck):
    """long runs of one construct inside one buffer (a count no short enumeration reaches): every fragment kind repeated
    N times back to back / separated by white space, read with small buffers, the default and one buffer for everything.
    The C14 predicates are evaluated on the real tokenizer (real vs real); a scanner that recurses or accumulates per
    token fails here with RecursionError / buffer-dependent results."""
    n = 1500 if ck.tier == "quick" else 6000
    frags = [b"%\n", b"%c\r", b"(a)", b"(", b")", b"<41>", b"<<", b">>", b"[", b"]", b"/N", b"/A#41", b"1", b"-.5", b"kw", b"\\",
             b"(\\\n)", b"(\\101)", b"{", b"}", b"\x00", b"(\r\n)", b"<", b">", b"#", b"/", b"+", b"."]
    for f in frags:
        for sep in ([b"", b" "] if ck.tier == "quick" else [b"", b" ", b"\r\n"]):
            data = (f + sep) * n
            results = {B: real_tokens(data, B) for B in (7, 1024, 4096, len(data) + 1)}
            check_real(ck, data, results, origin="repeat:%r x %d sep %r" % (f, n, sep))
            ck.case(len(results), ("R", f, sep))


def long_tokens(ck):
    """single tokens far longer than anything the enumeration reaches - 40 bytes to 70 KB of one name, keyword, number,
    string, hex string or comment - alone at the end of the input, followed by more input, and placed so that they
    straddle the 4096-byte buffer; small, default and whole-input buffers.  The C14 predicates on the real tokenizer."""
    kinds = {"name": lambda n: b"/" + b"N" * n, "name#": lambda n: b"/" + b"N" * n + b"#41", "kw": lambda n: b"k" * n,
             "num": lambda n: b"1" * min(n, 4000), "real": lambda n: b"1" * min(n, 300) + b"." + b"5" * min(n, 300),
             "hex": lambda n: b"<" + b"41" * n + b">", "lit": lambda n: b"(" + b"a" * n + b")", "lit(": lambda n: b"(" + b"a(b)" * (n // 4) + b")",
             "comment": lambda n: b"%" + b"c" * n + b"\n"}
    sizes = (40, 300, 5000, 70000) if ck.tier == "quick" else (28, 40, 300, 5000, 70000, 300000)
    for kind, mk in kinds.items():
        for n in sizes:
            tok = mk(n)
            inputs = [("eof", tok), ("more", tok + b" 1 /x"), ("unterminated", tok[:-1]) ]
            if len(tok) < 4000:
                pad = b" " * (4096 - len(tok) // 2)
                inputs.append(("straddle", pad + tok + b" 1"))
            for where, data in inputs:
                bufs = [64, 4096, len(data) + 1] + ([7] if len(data) <= 6000 else [500])
                results = {B: real_tokens(data, B) for B in bufs}
                check_real(ck, data, results, origin="long:%s:%d:%s" % (kind, n, where))
                ck.case(len(results), ("L", kind, n, where))
                breaker()


def direction_b(ck, dev):
    rng = random.Random(ck.seed)
    inputs = []
    files = sorted(glob.glob("/repo/samples/**/*.pdf", recursive=True))
    win = 4096 if ck.tier == "quick" else 16384
    per = 2 if ck.tier == "quick" else 6
    pick = files if ck.tier == "thorough" else rng.sample(files, min(12, len(files)))
    for fn in pick:
        blob = open(fn, "rb").read()
        for _ in range(per):
            o = rng.randrange(0, max(1, len(blob) - win))
            inputs.append(("sample:%s@%d" % (os.path.relpath(fn, "/repo"), o), blob[o:o + win]))
    for i, d in enumerate(straddlers(rng, 6 if ck.tier == "quick" else 40)):
        inputs.append(("straddle:%d" % i, d))
    bufs = [1, 2, 3, 5, 7, 4096]
    traces = []
    for origin, data in inputs:
        results = {B: real_tokens(data, B) for B in bufs}
        check_real(ck, data, results, origin=origin)
        ck.case(len(bufs), ("B", origin))
        # one trace per distinct observed token sequence (all equal when the property holds)
        seen = []
        for B in (4096, 1, 3):
            if results[B] not in seen and results[B][1] is None:
                seen.append(results[B])
                tr = trace_of(data, B)
                tr["origin"] = origin
                traces.append(tr)
    if not traces:
        raise MachineryError("no traces recorded")
    tf = os.path.join(ck.tmp, "c14_traces.json")
    rejected = validate_traces(ck, traces, tf, dev)
    ck.traces += len(traces) - rejected
    ck.extra["trace_events"] = sum(len(t["toks"]) for t in traces)
    ck.extra["trace_bytes"] = sum(len(t["data"]) for t in traces)


def validate_traces(ck, traces, tf, dev):
    rejected = 0
    cfg = write_cfg(os.path.join(ck.tmp, "c14_trace.cfg"),
                    constants={"Dev": tla_set(dev) if dev else "{}", "TB": 48}, spec="Spec",
                    invariants=["ModelNoError", "OneTokenPending"], deadlock=True)
    # one batch = one TLC behaviour; TLC cannot handle behaviours of 65,536 or more states: batch by input bytes
    # (a tokenizer step consumes at least one byte or is one of a bounded number of state changes per token)
    batches, cur, size = [], [], 0
    for tr in traces:
        if cur and size + len(tr["data"]) > 14000:
            batches.append(cur)
            cur, size = [], 0
        cur.append(tr)
        size += len(tr["data"])
    if cur:
        batches.append(cur)
    for todo in batches:
        rejected += _validate_batch(ck, todo, tf, cfg)
    return rejected


def _validate_batch(ck, todo, tf, cfg):
    rejected = 0
    while todo:
        with open(tf, "w") as f:
            json.dump(todo, f)
        res = run_tlc(TRACE_SPEC, cfg, workers=1, env={"TRACE_FILE": tf}, timeout=3600, heap="8g")
        ck.add_tlc(res, "trace validation of %d recorded token traces" % len(todo))
        if res.ok:
            break
        if res.violated != "deadlock" or not res.error_trace:
            raise MachineryError("trace validation failed unexpectedly: " + res.error_text[:2000])
        st = res.error_trace[-1][1]
        t = int(st["t"])
        k = int(st["k"])
        tr = todo[t - 1]
        rejected += 1
        nxt = tr["toks"][k] if k < len(tr["toks"]) else None
        ck.violation("trace-rejected",
                     "recorded token trace of %s (BUFSIZ=%s) is not a behaviour of the tokenizer specification: "
                     "token #%d %r unexplained" % (tr["origin"], tr["bufsiz"], k + 1, nxt),
                     {"origin": tr["origin"], "bufsiz": tr["bufsiz"], "data": bytes(tr["data"]), "token_index": k,
                      "token": nxt, "model_state": st.get("s", "")[:1500]})
        todo = todo[t:]
        if rejected >= 3 and todo:
            ck.note("%d recorded traces left unexamined after 3 rejections" % len(todo))
            rejected += len(todo)
            break
    return rejected


# ------------------------------------------------------------------------------------------------ call interface (PSApi.tla)
API_SPEC = os.path.join(SPECS, "lex", "MC_PSApi.tla")
API_CONFIGS = {"quick": [("AlphaApi", 3, (1, 2), 3)],
               "thorough": [("AlphaApi", 4, (1, 2), 3), ("AlphaApiEsc", 4, (1, 3), 3), ("AlphaApiDict", 3, (1, 2, 64), 3),
                            ("AlphaApi", 3, (2, 64), 4)]}


def api_calls(data, B, log):
    """performs the logged calls on a real PSBaseParser with BUFSIZ=B -> list of answers (r, pos, tk, v, p1)"""
    import io
    from pdfminer.psparser import PSEOF
    p = lexrun.parser_class(B)(io.BytesIO(data))
    out = []
    for a in log:
        try:
            if a["k"] == "seek":
                p.seek(a["q"])
                out.append(("ok", 0, "", b"", p.bufpos + p.charpos))
            elif a["k"] == "tok":
                pos, t = p.nexttoken()
                k, v = lexrun.project(t)
                out.append(("token", pos, k, v, None if p.eof else p.bufpos + p.charpos))
            else:
                pos, line = p.nextline()
                out.append(("line", pos, "", line, p.bufpos + p.charpos))
        except PSEOF:
            out.append(("PSEOF", 0, "", b"", None))
        except Exception as e:      # noqa: BLE001 - the answer of the call is the exception
            out.append((type(e).__name__, 0, "", b"", None))
    return out


def api_model(log):
    out = []
    for a in log:
        v = bytes(a["v"])
        if a["tk"] == "int":
            v = int(v)
        elif a["tk"] == "real":
            v = float(v)
        out.append((a["r"], a["pos"] if a["r"] in ("token", "line") else 0, a["tk"], v,
                    a["p1"] if a["r"] in ("ok", "line", "token") else None))
    return out


def same_answers(x, y):
    """equal up to read positions that one side does not report (None)"""
    return len(x) == len(y) and all(a[:4] == b[:4] and (a[4] is None or b[4] is None or a[4] == b[4]) for a, b in zip(x, y))


def direction_api(ck, dev):
    """seek / nexttoken / nextline in every order on one parser (specs/lex/PSApi.tla): every call sequence TLC enumerates is
    performed on the real parser at the same BUFSIZ and at 4096.  Token answers that depend on the buffer size are C14;
    everything else this finds (lines, read positions, dependence on earlier calls) is extended coverage."""
    ext = ck.extra.setdefault("extended_coverage", {})
    stats = {"sequences": 0, "calls": 0, "model_code_drift": 0, "line_buffer_dependent": 0, "position_buffer_dependent": 0}
    for (alpha, maxlen, bufs, ncalls) in API_CONFIGS[ck.tier]:
        cfg = write_cfg(os.path.join(ck.tmp, "c14api_%s_%d_%d.cfg" % (alpha, maxlen, ncalls)),
                        constants={"Alphabet": "<- " + alpha, "MaxLen": maxlen, "MaxCalls": ncalls,
                                   "BufSizes": "{" + ",".join(map(str, bufs)) + "}", "Dev": tla_set(dev) if dev else "<- NoDev"},
                        invariants=["CallsAgreeWithReference", "PositionSane", "LineShape"], properties=["CallProgress"],
                        constraints=["EmitTerminal"])
        emit = os.path.join(ck.tmp, "c14api_%s_%d_%d.ndjson" % (alpha, maxlen, ncalls))
        res = run_tlc(API_SPEC, cfg, emit=emit, coverage=False, timeout=7200)
        ck.add_tlc(res, "PSApi %s^<=%d x B%s x %d calls" % (alpha, maxlen, list(bufs), ncalls))
        if not res.ok:
            raise MachineryError("PSApi.tla violates %s (%s):\n%s" % (res.violated, alpha, res.error_text[:3000]))
        n = 0
        kinds = set()
        refcache = {}
        with open(emit) as f:
            for line in f:
                r = json.loads(line)
                data, B, log = bytes(r["d"]), r["b"], r["log"]
                n += 1
                real = api_calls(data, B, log)
                rk = (data, tuple((a["k"], a["q"]) for a in log))
                ref = refcache.get(rk)
                if ref is None:
                    if len(refcache) > 200000:
                        refcache.clear()
                    ref = refcache[rk] = api_calls(data, 4096, log)
                model = api_model(log)
                stats["calls"] += len(log)
                kinds.update(a["k"] + ":" + a["r"] for a in log)
                rp = {"data": data, "bufsiz": B, "calls": [(a["k"], a["q"]) for a in log], "observed": repr(real), "reference_4096": repr(ref)}
                for i, (x, y) in enumerate(zip(real, ref)):
                    if x[:4] != y[:4]:
                        if log[i]["k"] == "tok":
                            ck.violation("buffer-dependent:api", "nexttoken() (call %d of %r on %r) answers %r with BUFSIZ=%d and %r with 4096"
                                         % (i + 1, rp["calls"], data, x[:4], B, y[:4]), rp)
                        else:
                            stats["line_buffer_dependent"] += 1
                            if stats["line_buffer_dependent"] <= 3:
                                ck.note("EXTENDED-COVERAGE PSApi: %s (call %d of %r on %r) answers %r with BUFSIZ=%d and %r with 4096"
                                        % (log[i]["k"], i + 1, rp["calls"], data, x[:4], B, y[:4]))
                        break
                    if x[4] is not None and y[4] is not None and x[4] != y[4]:
                        stats["position_buffer_dependent"] += 1
                        if stats["position_buffer_dependent"] <= 3:
                            ck.note("EXTENDED-COVERAGE PSApi: read position after call %d of %r on %r is %r with BUFSIZ=%d and %r with 4096"
                                    % (i + 1, rp["calls"], data, x[4], B, y[4]))
                        break
                if not same_answers(real, model):
                    stats["model_code_drift"] += 1
                    if stats["model_code_drift"] <= 5:
                        ck.note("PSApi model/code drift on %r B=%d calls %r: code %r, model %r" % (data, B, rp["calls"], real, model))
                nontriv = any(a["r"] in ("token", "line") for a in log) and len(data) > B
                ck.case(1, ("api", data, B, tuple(rp["calls"])) if nontriv else None)
                if n % 40000 == 1:
                    ck.sample({"input": data, "bufsiz": B, "calls": rp["calls"], "answers": repr(real)})
        os.remove(emit)
        if n != res.emitted or n == 0:
            raise MachineryError("PSApi: emitted %d terminal states but replayed %d" % (res.emitted, n))
        need = {"seek:ok", "tok:token", "tok:PSEOF", "line:line", "line:PSEOF"}
        if need - kinds:
            raise MachineryError("vacuous: PSApi answers never seen: %s" % sorted(need - kinds))
        stats["sequences"] += n
        ck.replayed += n
    ext["PSApi"] = stats
    if stats["model_code_drift"]:
        ck.note("%d call sequences where the real parser and PSApi.tla disagree (spec/code drift)" % stats["model_code_drift"])


def run(ck):
    try:
        _run(ck)
    except TooManyHangs:
        ck.note("replay stopped early: the tokenizer did not terminate on %d inputs" % lexrun.HANGS)


def _run(ck):
    dev = active("lex")
    ck.extra["deviations_modelled_as_coded"] = dev
    ck.rule = ("A: every string over one representative per lexical byte class (and per-context sub-alphabets) up to the "
               "configured length x every configured buffer size, each replayed on the real tokenizer together with "
               "BUFSIZ=len+1 and 4096; non-trivial = yields at least one token and is longer than the smallest buffer "
               "(so a refill happens inside it). B: recorded token traces of sample-file windows and 4096-straddling "
               "inputs at BUFSIZ 1,2,3,5,7,4096; distinct by input. Extended (specs/lex/PSApi.tla): every sequence of up to "
               "3-4 calls of seek(q)/nexttoken()/nextline() on one parser over every short input, performed on the real parser at "
               "the same BUFSIZ and at 4096; token answers that depend on BUFSIZ are C14 violations, the rest is reported as "
               "extended coverage.")
    ck.assumptions = ["byte classes are represented by one member each in the exhaustive enumeration",
                      "python re/bytes semantics as transcribed in PSLexOps.tla"]
    direction_a(ck, dev)
    direction_b(ck, dev)
    repetitions(ck)
    long_tokens(ck)
    direction_api(ck, dev)
    ck.exhaustive = True


def replay(path):
    doc = json.load(open(path))
    case = unjson(doc["case"])
    data = case["data"]
    bufs = sorted({1, 2, 3, 4, 5, 7, len(data) + 1, 4096, case.get("bufsiz", 1)})
    res = {B: real_tokens(data, B) for B in bufs}
    bad = False
    for B, (toks, err) in res.items():
        print("BUFSIZ=%-5d err=%s tokens=%r" % (B, err, toks[:12]))
        if err is not None or toks != res[4096][0]:
            bad = True
    if bad:
        print("VIOLATION property=C14 replay=%s" % path)
    return 1 if bad else 0
